"""C01 — ROOT object collections are decoded exactly as stored (DESIGN.md section 6/C01).

model  : Model/TObjArray.lean (BinaryBuffer primitives, Bes3TObjArrayReader, Bes3CgemClusterColReader, per-entry loop,
         process_digi_subbranch) ; Spec/RootStream.lean (encoders with the header variants the format allows)
proof  : Props/C01.lean (readTObjArray_encode for every element codec / object list / header variant; readEntries_encode;
         processDigi_fields)
tie    : synthetic streams, three-way: Lean driver <-> native build of the working-tree root_io.hh (own element readers)
         <-> installed extension through uproot_custom (stock element readers); real fixtures in framing mode (the model skips
         each object body by its own byte count and must reproduce the per-event counts and land on every entry boundary);
         processDigi vs the real process_digi_subbranch on real digi arrays
oracle : uproot's own member-wise deserialisation (AsObjects(Model_TObjArray), obtained in a child process that never imports
         pybes3) compared leaf by leaf per object; encoded values of the synthetic streams
"""
from __future__ import annotations

import json
import os
import random
import subprocess
import tempfile

import numpy as np

from lib import core, native, rootstream as rs

FIXTURES = ["test_full_mc_evt_1.rtraw", "test_full_mc_evt_1.dst", "test_full_mc_evt_1.rec", "test_full_mc_evt_2.rtraw", "test_cgem.rtraw",
            "test_cgem.dst", "test_cgem.rec", "test_mrpc.rtraw", "test_only_mc_particles.rtraw"]


def run_native(lines):
    exe = native.build("root_driver")
    p = subprocess.run([str(exe)], input="\n".join(lines) + "\n", capture_output=True, text=True, timeout=900, env=dict(os.environ, ASAN_OPTIONS="detect_leaks=0"))
    return p.stdout.splitlines(), (p.stderr[-1500:] if p.returncode != 0 else None)


INSTALLED_CHILD = r'''
import sys, json, numpy as np
import pybes3.besio.besio_cpp as bcpp
import uproot_custom.cpp as uc
LEAF = {"b": uc.UInt8Reader, "h": uc.UInt16Reader, "i": uc.UInt32Reader, "f": uc.UInt32Reader, "l": uc.UInt64Reader, "d": uc.UInt64Reader}
def rd(k):
    if k[0] in LEAF: return LEAF[k[0]]("m")
    if k[0] == "T": return uc.TObjectReader("TObject", False)
    if k[0] == "A":
        if k[2][0] not in LEAF: raise NotImplementedError
        return uc.CStyleArrayReader("arr", k[1], rd(k[2]))
    return uc.AnyClassReader("cls", [rd(m) for m in k[1]])
cases = json.load(open(sys.argv[1]))
out = []
for kind, entries_hex, counts in cases:
    try:
        elem = rd(kind)
    except NotImplementedError:
        out.append(None); continue
    r = bcpp.Bes3TObjArrayReader("col", elem)
    data = np.frombuffer(bytes.fromhex("".join(entries_hex)), dtype=np.uint8)
    offs = np.concatenate([[0], np.cumsum([len(x) // 2 for x in entries_hex])]).astype(np.uint32)
    try:
        offsets, _ = uc.read_data(data, offs, r)
        out.append([int(x) for x in offsets])
    except Exception as ex:
        out.append("ERROR " + str(ex)[:100])
print(json.dumps(out))
'''


def synthetic(chk: core.Check, n_streams: int):
    rng = random.Random(f"C01-{chk.seed}")
    cases = []
    for _ in range(n_streams):
        kind, entries, counts, leaves = rs.gen_stream(rng)
        cases.append(("ok", kind, entries, counts, leaves))
        if entries and rng.random() < 0.25:
            bad, mode = rs.malform(entries, rng)
            cases.append((mode, kind, bad, None, None))
    lines = [f"TOA {rs.spec_str(k)} {len(e)} " + " ".join(str(len(x)) for x in e) + " " + (b"".join(e).hex() or "00") for _, k, e, _, _ in cases]
    nout, crash = run_native(lines)
    try:
        mout = core.lean_run("Driver/Root.lean", "\n".join(lines) + "\n")
    except core.DriverError as ex:
        chk.obligation_broken("correspondence", "Root driver", str(ex)); mout = None
    if crash is not None and len(nout) < len(lines):
        k = len(nout)
        chk.failing_input("Bes3TObjArrayReader (ASan build of the working tree) crashed on a stream", {"kind": rs.spec_str(cases[k][1]), "entries": [x.hex() for x in cases[k][2]][:5]}, crash[-300:], "offsets and values or an exception", "well-formed / malformed streams are decoded or rejected")
        return
    diffs = []
    for idx, ((tag, kind, entries, counts, leaves), nl) in enumerate(zip(cases, nout)):
        chk.count(1, key=idx)
        chk.hist("stream_kind", tag)
        chk.hist("events", len(entries))
        if tag == "ok":
            want_off = np.concatenate([[0], np.cumsum(counts)]).astype(int).tolist()
            want = "OK offsets=" + ",".join(map(str, want_off)) + " values=" + ",".join(map(str, leaves))
            if nl.strip() != want.strip():
                chk.failing_input("Bes3TObjArrayReader (native build of the working tree) on a well-formed synthetic stream",
                                  {"element_class": rs.spec_str(kind), "per_event_counts": counts, "entries_hex": [x.hex() for x in entries][:6]}, nl[:600], want[:600],
                                  "same number of objects per event, same order, every member the encoded value")
                return
        else:
            if not nl.startswith("ERROR"):
                # a malformed stream that happens to decode is only a problem if the model rejects it (mis-framing)
                pass
        if mout is not None and mout[idx].strip() != nl.strip() and not (mout[idx].startswith("ERROR") and nl.startswith("ERROR")):
            diffs.append({"stream": idx, "tag": tag, "kind": rs.spec_str(kind), "model": mout[idx][:120], "native": nl[:120]})
    if diffs:
        chk.obligation_broken("correspondence", "Lean TObjArray model vs native reader on synthetic streams", str(diffs[:3]))
    # installed extension with the stock element readers (third leg), on a subset, in a sacrificial child process
    try:
        sub = [(kind, [x.hex() for x in entries], counts) for tag, kind, entries, counts, leaves in cases[:: 3] if tag == "ok" and entries]
        fd, pth = tempfile.mkstemp(suffix=".json"); os.close(fd)
        json.dump(sub, open(pth, "w"))
        r = subprocess.run([core.PY, "-c", INSTALLED_CHILD, pth], capture_output=True, text=True, timeout=600)
        os.unlink(pth)
        if r.returncode != 0:
            chk.coverage["installed_extension_streams"] = f"child exited with {r.returncode}: {r.stderr[-200:]}"
        else:
            res = json.loads(r.stdout.strip().splitlines()[-1])
            n_inst = 0
            for (kind, eh, counts), got in zip(sub, res):
                if got is None:
                    continue
                n_inst += 1
                want = np.concatenate([[0], np.cumsum(counts)]).astype(int).tolist()
                if got != want:
                    chk.obligation_broken("correspondence", "installed Bes3TObjArrayReader (stock element readers) offsets on a synthetic stream", f"{rs.spec_str(kind)}: {str(got)[:200]} vs {want}")
                    break
            chk.coverage["installed_extension_streams"] = n_inst
    except Exception as ex:
        chk.coverage["installed_extension_streams"] = f"not run: {type(ex).__name__}: {ex}"
    chk.sample({"element_class": rs.spec_str(cases[0][1]), "per_event_counts": cases[0][3], "first_entry_hex": (cases[0][2][0].hex()[:120] if cases[0][2] else "")})


ORACLE_CHILD = r'''
import sys, json, uproot, numpy as np
assert "pybes3" not in sys.modules
path, out = sys.argv[1], sys.argv[2]

def conv(o, depth=0):
    if depth > 12:
        return None
    if isinstance(o, uproot.model.UnknownClass):
        raise NotImplementedError("uproot cannot deserialise " + o.classname)
    if isinstance(o, uproot.model.Model):
        if o.classname in ("TObjArray", "TList") or type(o).__name__.startswith("Model_TObjArray"):
            return [conv(x, depth + 1) for x in o]
        if o.classname == "TString" or type(o).__name__.startswith("Model_TString"):
            return None
        if o.classname in ("TArrayI", "TArrayD", "TArrayF", "TArrayC", "TArrayS", "TArrayL", "TArrayL64"):
            return [x.item() for x in np.asarray(o)]      # a TArray model keeps its data outside all_members (only fN is there)
        d = {}
        for k, v in o.all_members.items():
            if k.startswith("@") or k in ("fUniqueID", "fBits"):
                continue
            d[k] = conv(v, depth + 1)
        return d
    if isinstance(o, np.ndarray):
        return [conv(x, depth + 1) for x in o] if o.dtype == object else o.tolist()
    if isinstance(o, np.generic):
        return o.item()
    if isinstance(o, (str, bytes)):
        return None
    if isinstance(o, uproot.containers.STLMap):
        return {"__map__": [[conv(k, depth + 1), conv(v, depth + 1)] for k, v in o.items()]}
    if isinstance(o, (uproot.containers.STLVector, uproot.containers.STLSet, list, tuple)):
        return [conv(x, depth + 1) for x in o]
    if isinstance(o, dict):
        return {str(k): conv(v, depth + 1) for k, v in o.items()}
    return o

res = {}
f = uproot.open(path)
tree = f["Event"]
for name in json.loads(sys.argv[3]):
    try:
        arr = tree[name].array(library="np")
        res[name] = [conv(ev) for ev in arr]
    except Exception as ex:
        res[name] = {"__error__": f"{type(ex).__name__}: {str(ex)[:200]}"}
json.dump(res, open(out, "w"), default=lambda o: o.tolist() if hasattr(o, "tolist") else str(o))
'''


def leaves_of(x, out):
    """numeric leaves in field order; strings and None skipped"""
    if isinstance(x, dict):
        for k, v in x.items():
            if k.startswith("@"):
                continue
            leaves_of(v, out)
    elif isinstance(x, (list, tuple)):
        for v in x:
            leaves_of(v, out)
    elif isinstance(x, bool):
        out.append(float(x))
    elif isinstance(x, (int, float)):
        out.append(float(x))


def same_nested(a, b):
    """equality of nested lists / dicts of numbers where NaN equals NaN (some fixture branches hold uninitialised doubles)"""
    if isinstance(a, dict) and isinstance(b, dict):
        return list(a) == list(b) and all(same_nested(a[k], b[k]) for k in a)
    if isinstance(a, (list, tuple)) and isinstance(b, (list, tuple)):
        return len(a) == len(b) and all(same_nested(x, y) for x, y in zip(a, b))
    if isinstance(a, float) and isinstance(b, float):
        return a == b or (a != a and b != b)
    return a == b


def expand_packed(obj_native, obj_pybes3):
    """where pybes3 expanded a packed symmetric matrix (n x n from n(n+1)/2 values) re-pack it for comparison"""
    if isinstance(obj_pybes3, dict) and isinstance(obj_native, dict):
        out = {}
        for k, v in obj_pybes3.items():
            nv = obj_native.get(k)
            if isinstance(v, list) and v and isinstance(v[0], list) and isinstance(nv, list) and nv and not isinstance(nv[0], list) and len(v) * (len(v) + 1) // 2 == len(nv) and len(v) == len(v[0]):
                n = len(v)
                out[k] = [v[i][j] for i in range(n) for j in range(i + 1)]
            else:
                out[k] = v
        return out
    return obj_pybes3


def fixtures(chk: core.Check, thorough: bool):
    import awkward as ak
    import uproot
    import pybes3.besio.root_io as rio
    frame_lines, frame_meta = [], []
    n_oracle_ok, n_oracle_skip = 0, []
    files = FIXTURES if thorough else FIXTURES[:3] + ["test_cgem.rec"]
    tmpd = tempfile.mkdtemp(prefix="c01-")
    try:
        for fn in files:
            p = core.REPO / "tests" / "data" / fn
            if not p.exists():
                continue
            with uproot.open(p) as f:
                tree = f["Event"]
                names = [k for k in tree.keys(recursive=True) if isinstance(tree[k].interpretation, rio.Bes3Interpretation)]
                decoded = {}
                for name in names:
                    br = tree[name]
                    arr = br.array()
                    decoded[name] = arr
                    if br.num_baskets >= 1 and rio.bes3_branch2types.get(rio.regularize_object_path(br.object_path), "").startswith("T") and "m_recCgemClusterCol" not in name:
                        b = br.basket(0)
                        data, bo = np.asarray(b.data), np.asarray(b.byte_offsets)
                        lens = np.diff(bo)
                        frame_lines.append(f"FRAME {len(lens)} " + " ".join(map(str, lens)) + " " + (bytes(data[bo[0]:bo[-1]]).hex() or "00"))
                        frame_meta.append((fn, name, ak.num(arr, axis=1).tolist()))
                    # digi post-processing vs model
                    if "TDigiEvent" in name and arr.fields:
                        raw_fields = None
                # oracle child (no pybes3)
                outp = os.path.join(tmpd, fn + ".json")
                r = subprocess.run([core.PY, "-c", ORACLE_CHILD, str(p), outp, json.dumps(names)], capture_output=True, text=True, timeout=900)
                if r.returncode != 0:
                    chk.coverage.setdefault("oracle_unavailable", []).append(f"{fn}: child failed {r.stderr[-200:]}")
                    continue
                nat = json.load(open(outp))
                for name in names:
                    nv = nat.get(name)
                    if isinstance(nv, dict) and "__error__" in nv:
                        n_oracle_skip.append(f"{fn}:{name}: {nv['__error__'][:80]}")
                        continue
                    pv = ak.to_list(decoded[name])
                    if len(nv) != len(pv):
                        chk.failing_input("number of events", {"file": fn, "branch": name}, len(pv), len(nv), "independent member-wise deserialisation (uproot AsObjects)")
                        return
                    for ev, (ne, pe) in enumerate(zip(nv, pv)):
                        if isinstance(ne, dict):     # map<int,int> etc.
                            a, b = [], []
                            leaves_of(ne, a); leaves_of(pe, b)
                            if sorted(a) != sorted(b):
                                chk.failing_input("map branch content", {"file": fn, "branch": name, "event": ev}, b[:20], a[:20], "independent deserialisation")
                                return
                            continue
                        if len(ne) != len(pe):
                            chk.failing_input("number of objects in an event", {"file": fn, "branch": name, "event": ev}, len(pe), len(ne), "the same number of objects per event as the member-wise deserialisation following the file's streamer information")
                            return
                        for oi, (no, po) in enumerate(zip(ne, pe)):
                            a, b = [], []
                            leaves_of(no, a)
                            leaves_of(expand_packed(no, po), b)
                            chk.count(1, key=None)
                            same = len(a) == len(b) and all((x == y) or (x != x and y != y) for x, y in zip(a, b))
                            if not same and sorted(map(repr, a)) == sorted(map(repr, b)):
                                same = True       # member order differs between the two decoders (base-class placement): compare as multisets
                            if not same:
                                chk.failing_input("member values of an object", {"file": fn, "branch": name, "event": ev, "object": oi}, b[:40], a[:40],
                                                  "for every data member the same value as a member-by-member deserialisation of the same bytes that follows the file's own streamer information")
                                return
                    # entry ranges of the same branch against the same independent decode (nothing may move between events)
                    if len(pv) >= 3 and any(len(e) for e in pv if isinstance(e, list)):
                        with uproot.open(p) as f2:
                            br2 = f2["Event"][name]
                            for a_, b_ in ((1, len(pv)), (len(pv) // 2, len(pv) - 1), (len(pv) - 1, len(pv))):
                                part = ak.to_list(br2.array(entry_start=a_, entry_stop=b_))
                                chk.count(1, key=f"range-{fn}-{name}-{a_}")
                                if not same_nested(part, pv[a_:b_]):
                                    chk.failing_input("entry range of a collection branch vs the independent decode of the same events", {"file": fn, "branch": name, "entry_start": a_, "entry_stop": b_},
                                                      str(part)[:500], str(pv[a_:b_])[:500], "no member is shifted between objects or moved between events")
                                    return
                    n_oracle_ok += 1
                    chk.distinct.add(f"oracle-{fn}-{name}")
    finally:
        import shutil
        shutil.rmtree(tmpd, ignore_errors=True)
    chk.coverage["oracle_branches_compared"] = n_oracle_ok
    chk.coverage["oracle_unavailable_branches"] = n_oracle_skip[:30]
    # framing mode through the Lean model
    if frame_lines:
        try:
            out = core.lean_run("Driver/Root.lean", "\n".join(frame_lines) + "\n")
            bad = []
            for (fn, name, counts), ml in zip(frame_meta, out):
                chk.count(len(counts), key=f"frame-{fn}-{name}")
                want = "OK counts=" + ",".join(map(str, counts))
                if ml.strip() != want:
                    bad.append({"file": fn, "branch": name, "model": ml[:100], "implementation_counts": counts})
            chk.coverage["fixture_branches_framed_by_model"] = len(frame_lines)
            if bad:
                chk.obligation_broken("correspondence", "Lean TObjArray model (framing mode) vs the reader's per-event counts on real baskets", str(bad[:3]))
        except core.DriverError as ex:
            chk.obligation_broken("correspondence", "Root driver (framing)", str(ex))



PRIM = {1: "b", 2: "h", 3: "i", 4: "q", 5: "f", 8: "d", 11: "B", 12: "H", 13: "I", 14: "Q", 18: "?", 16: "q", 17: "Q", 6: "i", 15: "I"}


def factory_chain(chk: core.Check, thorough: bool):
    """every registered collection class whose streamer information is simple enough (primitives, fixed arrays, bases):
    hand-serialised streams decoded through the PUBLIC chain build_factory -> build_cpp_reader -> read_data ->
    make_awkward_content, compared member by member with the encoded values"""
    import copy
    import struct
    import awkward as ak
    import uproot
    import uproot_custom
    import uproot_custom.cpp
    import pybes3.besio.root_io as rio
    rng = random.Random(f"C01-chain-{chk.seed}")
    streamers = {}
    for fn in FIXTURES:
        p = core.REPO / "tests" / "data" / fn
        if not p.exists():
            continue
        with uproot.open(p) as f:
            tree = f["Event"]
            for k in tree.keys(recursive=True):
                it = tree[k].interpretation
                if isinstance(it, rio.Bes3Interpretation):
                    for name, v in it.all_streamer_info.items():
                        streamers.setdefault(name, copy.deepcopy(v))
                    break
    if "TMucDigi" in streamers and "THltRaw" not in streamers:
        streamers["THltRaw"] = copy.deepcopy(streamers["TMucDigi"])     # BOSS: class THltRaw : public TRawData {} (no own members)

    cur = {'S': streamers}

    def simple(cls, seen=()):
        if cls in seen or cls not in cur['S']:
            return False
        for el in cur['S'][cls]:
            if el["fTypeName"] == "BASE":
                if el["fType"] == 66:
                    continue
                if not simple(el["fName"], seen + (cls,)):
                    return False
            elif el["fType"] in PRIM and el["fArrayDim"] == 0:
                continue
            elif el["fType"] - 20 in PRIM and el["fArrayDim"] > 0:
                continue
            else:
                return False
        return True

    def enc_class(cls, truth, referenced):
        body = struct.pack(">h", rng.choice([1, 2, 5]))
        for el in cur['S'][cls]:
            if el["fTypeName"] == "BASE" and el["fType"] == 66:
                bits = 0x03000000 | (rs.K_IS_REFERENCED if referenced else 0)
                body += rs.enc_tobject(1, rng.getrandbits(31), bits, rng.getrandbits(16))
            elif el["fTypeName"] == "BASE":
                body += enc_class(el["fName"], truth, referenced)
            else:
                code = PRIM[el["fType"] if el["fArrayDim"] == 0 else el["fType"] - 20]
                n = 1 if el["fArrayDim"] == 0 else int(np.prod(el["fMaxIndex"][: el["fArrayDim"]]))
                vals = []
                for _ in range(n):
                    if code in "fd":
                        v = float(rng.randrange(-(2 ** 20), 2 ** 20)) / 8.0
                    elif code == "?":
                        v = bool(rng.getrandbits(1))
                    else:
                        bits = 8 * struct.calcsize(code)
                        lo, hi = (0, 2 ** bits - 1) if code.isupper() else (-(2 ** (bits - 1)), 2 ** (bits - 1) - 1)
                        v = rng.choice([lo, hi, rng.randint(lo, hi), 0, 1])
                    vals.append(v)
                    body += struct.pack(">" + code, v)
                truth.setdefault(el["fName"], []).extend(vals)
        return rs.be(4, len(body) | rs.K_BYTE_COUNT_MASK) + body

    def leaves(x, out):
        if isinstance(x, dict):
            for v in x.values():
                leaves(v, out)
        elif isinstance(x, (list, tuple)):
            for v in x:
                leaves(v, out)
        elif x is not None:
            out.append(float(x))

    def variant_of(cls):
        """the same class as written by another release: same member names, one member with another type (int <-> unsigned int, float <->
        double) or one array with another length - the file's own streamer information decides the decoding"""
        v = copy.deepcopy(streamers)
        changed = None
        for el in v[cls]:
            if el["fTypeName"] == "BASE":
                continue
            swap = {3: 13, 13: 3, 5: 8, 8: 5, 2: 12, 12: 2}
            base = el["fType"] if el["fArrayDim"] == 0 else el["fType"] - 20
            if el["fArrayDim"] > 0 and changed is None:
                el["fMaxIndex"] = list(el["fMaxIndex"]); el["fMaxIndex"][0] = int(el["fMaxIndex"][0]) + 1
                el["fArrayLength"] = int(np.prod(el["fMaxIndex"][: el["fArrayDim"]])) if "fArrayLength" in el else None
                if el.get("fArrayLength") is None:
                    el.pop("fArrayLength", None)
                changed = (el["fName"], "array length + 1")
                break
            if base in swap and changed is None:
                el["fType"] = swap[base] + (0 if el["fArrayDim"] == 0 else 20)
                names = {3: "int", 13: "unsigned int", 5: "float", 8: "double", 2: "short", 12: "unsigned short"}
                el["fTypeName"] = names[swap[base]] if el["fArrayDim"] == 0 else el["fTypeName"]
                el["fSize"] = {3: 4, 13: 4, 5: 4, 8: 8, 2: 2, 12: 2}[swap[base]] if "fSize" in el else el.get("fSize")
                changed = (el["fName"], f"type {names[base]} -> {names[swap[base]]}")
                break
        return (v, changed) if changed else (None, None)

    n_done, skipped = 0, []
    passes = []
    for path, cls in rio.bes3_branch2types.items():
        cur['S'] = streamers
        if not cls.startswith("T") or not simple(cls):
            skipped.append(cls)
            continue
        passes.append((path, cls, streamers, None))
        v, changed = variant_of(cls)
        if v is not None and (thorough or len(passes) % 3 == 0):
            passes.append((path, cls, v, changed))       # read right after the original, same branch path, same member names
    for path, cls, S_, changed in passes:
        cur['S'] = S_
        for counts in ([[2, 0, 1, 3, 0], [0, 0, 0], [1], [0, 5, 0, 0, 2, 1, 0]] if thorough else [[2, 0, 1, 3, 0], [0, 4, 0]]):
            entries, truth_ev = [], []
            for c in counts:
                objs, tr = [], []
                for i in range(c):
                    t = {}
                    objs.append(enc_class(cls, t, referenced=(i % 2 == 1)))
                    tr.append(t)
                entries.append(rs.enc_tobjarray(objs, rng, class_name=cls.encode()))
                truth_ev.append(tr)
            data = np.frombuffer(b"".join(entries), dtype=np.uint8)
            offs = np.concatenate([[0], np.cumsum([len(x) for x in entries])]).astype(np.uint32)
            top = {"fName": path.rsplit("/", 1)[1], "fTypeName": "TObjArray*"}
            chk.count(1, key=f"chain-{cls}-{counts}")
            try:
                fac = uproot_custom.build_factory(top, cur['S'], path, called_from_top=True)
                raw = uproot_custom.cpp.read_data(data, offs, fac.build_cpp_reader())
                got = ak.Array(fac.make_awkward_content(raw)).tolist()
            except Exception as ex:
                chk.failing_input("registered collection decoded through build_factory -> build_cpp_reader -> read_data", {"branch": path, "class": cls, "per_event_counts": counts, "class_layout_variant": changed, "entries_hex": [e.hex() for e in entries][:4]},
                                  f"{type(ex).__name__}: {str(ex)[:300]}", "the stored objects", "every registered collection branch yields exactly the objects stored (any per-event counts, referenced bits set or not)")
                return
            ok = len(got) == len(truth_ev) and all(len(g) == len(t) for g, t in zip(got, truth_ev))
            if ok:
                for g_ev, t_ev in zip(got, truth_ev):
                    for g, t in zip(g_ev, t_ev):
                        a, b = [], []
                        leaves(g, a); leaves(t, b)
                        if sorted(a) != sorted(b):
                            ok = False
            if not ok:
                chk.failing_input("registered collection decoded through the factory chain: objects / member values", {"branch": path, "class": cls, "per_event_counts": counts, "class_layout_variant": changed, "history": "the same branch was decoded just before with the other layout of the class"},
                                  str(got)[:600], str(truth_ev)[:600], "same number of objects per event, same order, every member the stored value")
                return
            n_done += 1
    chk.coverage["factory_chain_streams"] = n_done
    chk.coverage["factory_chain_classes_skipped(complex members)"] = sorted(set(skipped))


def cgem_streams(chk: core.Check, n_streams: int):
    """Bes3CgemClusterColReader on synthetic streams (both class versions, empty events anywhere)"""
    import struct
    rng = random.Random(f"C01-cgem-{chk.seed}")
    lines, expect = [], []
    n_ref = 0
    for _ in range(n_streams):
        version = rng.choice([0, 1])
        n_ev = rng.choice([1, 2, 3, 6])
        counts = [rng.choice([0, 0, 1, 2, 9]) for _ in range(n_ev)]
        if rng.random() < 0.3:
            counts[0] = 0                                   # an empty collection in the first event of the basket
        entries, clusters = [], []
        for c in counts:
            objs = []
            for _ in range(c):
                ints = [rng.getrandbits(32) for _ in range(5)]
                dbl = [struct.unpack(">Q", struct.pack(">d", rng.uniform(-50, 50)))[0] for _ in range(5 if version == 0 else 4)]
                cf = [rng.getrandbits(32) for _ in range(2)]
                st = [rng.getrandbits(32) for _ in range(4)]
                # referenced objects (kIsReferenced: a 2-byte pidf follows fBits) anywhere, incl. the first cluster of a basket
                referenced = rng.random() < 0.3
                body = rs.be(2, 1) + rs.enc_tobject(1, rng.getrandbits(16), 0x03000000 | (rs.K_IS_REFERENCED if referenced else 0), pidf=rng.getrandbits(16)) + b"".join(rs.be(4, v) for v in ints) + b"".join(rs.be(8, v) for v in dbl[:2])
                body += (rs.be(8, dbl[2]) if version == 0 else b"") + b"".join(rs.be(8, v) for v in dbl[-2:]) + b"".join(rs.be(4, v) for v in cf + st)
                assert len(body) == (96 if version == 0 else 88) + (2 if referenced else 0)
                n_ref += referenced
                objs.append(rs.be(4, len(body) | rs.K_BYTE_COUNT_MASK) + body)
                clusters.append((ints, dbl, cf, st))
            arr = rs.enc_tobjarray(objs, rng, class_name=b"TRecCgemCluster")
            entries.append(rs.enc_obj_hdr(rng.getrandbits(16), class_name=b"TObjArray") + arr)
        lines.append(f"CGEM {len(entries)} " + " ".join(str(len(x)) for x in entries) + " " + b"".join(entries).hex())
        expect.append((counts, clusters, version))
    nout, crash = run_native(lines)
    try:
        mout = core.lean_run("Driver/Root.lean", "\n".join(lines) + "\n")
    except core.DriverError as ex:
        chk.obligation_broken("correspondence", "Root driver (CGEM)", str(ex)); mout = None

    def parse(line):
        d = {}
        for tok in line.split()[1:]:
            k, _, v = tok.partition("=")
            d[k] = [int(x) for x in v.split(",") if x]
        return d
    for idx, ((counts, clusters, version), nl) in enumerate(zip(expect, nout)):
        chk.count(1, key=f"cgem-{idx}")
        want_off = np.concatenate([[0], np.cumsum(counts)]).astype(int).tolist()
        any_obj = len(clusters) > 0
        ok = nl.startswith("OK")
        if ok:
            d = parse(nl)
            for k_ in ("m_clusterID", "m_trkID", "m_layerID", "m_sheetID", "m_flag", "m_clusterFlag", "m_stripID"):
                if k_ in d:
                    d[k_] = [x & 0xFFFFFFFF for x in d[k_]]          # int32 columns come back sign-extended
            ok = d.get("offsets") == want_off
            if ok and any_obj:
                ok = (d["m_clusterID"] == [c[0][0] for c in clusters] and d["m_flag"] == [c[0][4] for c in clusters]
                      and d["m_energyDeposit"] == [c[1][0] for c in clusters] and d["m_recZ"] == [c[1][-1] for c in clusters]
                      and d["m_clusterFlag"] == [v for c in clusters for v in c[2]] and d["m_stripID"] == [v for c in clusters for v in c[3]]
                      and (("m_recPositionY" in d) == (version == 0)) and (version == 1 or d["m_recPositionY"] == [c[1][2] for c in clusters]))
        if not ok:
            chk.failing_input("Bes3CgemClusterColReader (native build of the working tree) on a synthetic cluster stream", {"class_version": version, "per_event_counts": counts, "line": lines[idx][:400]},
                              nl[:500], {"offsets": want_off}, "same number of objects per event (incl. empty events), nothing moved between events, every member the stored value")
            return
        if mout is not None:
            ml = mout[idx]
            md = parse(ml) if ml.startswith("OK") else None
            good = md is not None and md["offsets"] == want_off and md["ints"] == [v for c in clusters for v in c[0]] and md["doubles"] == [v for c in clusters for v in c[1]] \
                and md["flags"] == [v for c in clusters for v in c[2]] and md["strips"] == [v for c in clusters for v in c[3]]
            if not good:
                chk.obligation_broken("correspondence", "Lean CGEM cluster model vs encoded stream", f"{ml[:200]} / counts {counts}")
                return
    chk.coverage["cgem_cluster_streams"] = len(lines)
    chk.coverage["cgem_referenced_clusters"] = int(n_ref)


def digi(chk: core.Check):
    """process_digi_subbranch: fields of TRawData lifted in place, same columns; Lean processDigi on the same field lists"""
    import awkward as ak
    import pybes3.besio.root_io as rio
    rng = random.Random(f"C01-digi-{chk.seed}")
    lines, cases = [], []
    for _ in range(40):
        names = rng.sample(["m_a", "m_b", "m_c", "m_overflow", "m_measure", "m_x"], rng.randint(0, 3))
        sub = rng.sample(["m_intId", "m_timeChannel", "m_chargeChannel", "m_trackIndex"], rng.randint(1, 4))
        pos = rng.randint(0, len(names))
        fields = names[:pos] + ["TRawData"] + names[pos:]
        n = rng.choice([1, 2, 3])
        counts = [rng.choice([0, 1, 2]) for _ in range(n)]
        tot = sum(counts)
        col = {}
        for f_ in fields:
            if f_ == "TRawData":
                col[f_] = ak.unflatten(ak.zip({s: np.arange(tot) * 10 + i for i, s in enumerate(sub)}), counts)
            else:
                col[f_] = ak.unflatten(ak.Array(np.arange(tot) * 100 + len(f_)), counts)
        arr = ak.zip(col, depth_limit=2) if n else ak.zip(col, depth_limit=2)
        got = rio.process_digi_subbranch(arr)
        want_fields = names[:pos] + sub + names[pos:]
        chk.count(1, key=f"digi-{fields}-{sub}")
        ok = got.fields == want_fields and all(ak.to_list(got[s]) == ak.to_list(arr["TRawData"][s]) for s in sub) and all(ak.to_list(got[f_]) == ak.to_list(arr[f_]) for f_ in names)
        if not ok:
            chk.failing_input("process_digi_subbranch", {"fields": fields, "TRawData_fields": sub, "per_event_counts": counts}, {"fields": got.fields}, {"fields": want_fields},
                              "digi collections expose the members of their raw-data base class at top level with unchanged values; nothing lost, duplicated or shifted")
            return
        lines.append("DIGI " + " ".join(f if f != "TRawData" else "TRawData(" + ",".join(sub) + ")" for f in fields))
        cases.append(want_fields)
    try:
        out = core.lean_run("Driver/Root.lean", "\n".join(lines) + "\n")
        bad = [(l, o) for l, o, w in zip(lines, out, cases) if o.split() != w]
        if bad:
            chk.obligation_broken("correspondence", "Lean processDigi vs process_digi_subbranch field lists", str(bad[:2]))
    except core.DriverError as ex:
        chk.obligation_broken("correspondence", "Root driver (DIGI)", str(ex))


def wiring(chk: core.Check):
    import pybes3.besio.root_io as rio
    keys = list(rio.bes3_branch2types)
    if len(set(keys)) != len(keys):
        chk.failing_input("bes3_branch2types keys", {}, "duplicates", "distinct", "registered branches are distinct")
    if not (rio.Bes3CgemClusterColFactory.priority() > rio.Bes3TObjArrayFactory.priority() > rio.Bes3BaseObjectFactory.priority()):
        chk.failing_input("factory priorities", {}, [rio.Bes3CgemClusterColFactory.priority(), rio.Bes3TObjArrayFactory.priority(), rio.Bes3BaseObjectFactory.priority()], "cgem > array > base", "priority order picks the BES3 array factory for listed TObjArray branches")
    chk.count(len(keys), key="wiring")


INTERP_CHILD = r"""
import sys, json, hashlib, warnings
warnings.filterwarnings("ignore")
import awkward as ak, uproot, pybes3
out = {}
for spec in sys.argv[1:]:
    path, name = spec.split("::")
    a = uproot.open(path)["Event"][name].array()
    out[spec] = [str(a.type), hashlib.sha256(json.dumps(ak.to_list(a), default=str).encode()).hexdigest(), len(a)]
print(json.dumps(out))
"""


def interpreter_modes(chk: core.Check):
    """the same collections read by the interpreter in its ordinary mode and with assertions / docstrings compiled away (`python -O`, `-OO`,
    PYTHONOPTIMIZE - usual in batch containers): same type, same values"""
    import os
    import subprocess
    specs = []
    for fn, names in (("test_full_mc_evt_1.rtraw", ["TDigiEvent/m_mdcDigiCol", "TDigiEvent/m_emcDigiCol", "TMcEvent/m_mcParticleCol"]),
                      ("test_full_mc_evt_1.dst", ["TDstEvent/m_mdcTrackCol", "TDstEvent/m_emcTrackCol"]), ("test_cgem.rec", ["TRecEvent/m_recCgemClusterCol"])):
        p = core.REPO / "tests" / "data" / fn
        if p.exists():
            specs += [f"{p}::{n}" for n in names]
    if not specs:
        return
    res = {}
    for mode, flags in (("ordinary", []), ("-O", ["-O"]), ("-OO", ["-OO"])):
        r = subprocess.run([core.PY, *flags, "-c", INTERP_CHILD, *specs], capture_output=True, text=True, timeout=900, env=dict(os.environ))
        lines = [l for l in r.stdout.splitlines() if l.startswith("{")]
        res[mode] = json.loads(lines[-1]) if lines else {"error": r.stderr[-400:]}
    for mode in ("-O", "-OO"):
        for spec in specs:
            chk.count(1, key=f"interp-{mode}-{spec.split('::')[1]}")
            chk.hist("interpreter_mode", mode)
            a, b = res["ordinary"].get(spec), res[mode].get(spec)
            if a is None:
                continue
            if b != a:
                fn, name = spec.split("::")
                chk.failing_input(f"collection read under `python {mode}` vs the ordinary interpreter", {"file": os.path.basename(fn), "branch": name, "interpreter_flags": mode},
                                  {"type": (b or [res[mode].get("error")])[0][:400], "n": (b or [None, None, None])[2]}, {"type": a[0][:400], "n": a[2]},
                                  "the decoded collection (type and values) does not depend on the interpreter's optimisation mode")
                return


def main(chk: core.Check) -> int:
    thorough = chk.tier == "thorough"
    chk.coverage["rule"] = ("evaluations = synthetic streams (three-way) + objects of fixture branches compared leaf by leaf with uproot's own deserialisation + events framed by the model; "
                            "distinct = distinct streams / fixture branches")
    chk.assumptions += ["decompression and basket I/O, the stock uproot-custom element readers (contract: read exactly their own encoding) and awkward record construction are outside the model",
                        "the independent decoder cannot read a few branches (listed in the evidence); for those only the framing-mode model and the synthetic three-way correspondence apply",
                        "the reader assumes (as BES3 writers guarantee): empty array name, every object header carries a byte count, the array's own TObject is not referenced"]
    core.regen_rootpy(chk)
    core.regen_rootcpp(chk)
    chk.prove(modules=["C01", "C01Cgem", "RootTie", "RootCppTie"])
    try:
        synthetic(chk, 1500 if thorough else 200)
        digi(chk)
        wiring(chk)
        factory_chain(chk, thorough)
        cgem_streams(chk, 300 if thorough else 60)
        fixtures(chk, thorough)
        if not [f for f in chk.failing if not f.get("finding_key")]:
            interpreter_modes(chk)
        chk.coverage["traces_validated_against_impl"] = chk.evals
    except native.BuildError as ex:
        chk.obligation_broken("correspondence", "native build of root_io.hh", str(ex))
    except Exception as ex:
        import traceback
        chk.obligation_broken("correspondence", "harness run on implementation", f"{type(ex).__name__}: {ex}\n{traceback.format_exc()[-1800:]}")
    def search():
        # a broken obligation on the Python side of the reader chain (Bes3Interpretation.final_array / awkward_form, post-processing): drive the
        # real final_array with index-valued baskets in every delivery order and with digi records, as the C02 check does
        from checks import c02
        c02.model_vs_real(chk, 120)
        if not chk.failing:
            c02.digi_post(chk)
    return chk.finish(search)
