"""Child process of the C04 check: runs RawBinaryReader.arrays over a grid of configurations on synthetic files and
prints one JSON line per call (a `START` line first, so that the parent can name the call that hangs)."""
import json
import random
import sys
import threading
import time

sys.path.insert(0, sys.argv[1])
import numpy as np

from lib import native, rawfile as rf
import pybes3
import pybes3.besio.raw_io as rio

plan = json.load(open(sys.argv[2]))
rng = random.Random(plan["seed"])
batches_seen = []
lock = threading.Lock()


def count_blocks(words):
    i, n = 0, 0
    while i < len(words):
        if int(words[i]) != rf.DATA_SEP:
            return -1
        nb = int(words[i + 3]) // 4
        i += 4 + nb
        n += 1
    return n


def make_wrapper(delays):
    def wrapped(data, sub_detectors=None):
        with lock:
            k = len(batches_seen)
            batches_seen.append(count_blocks(data))
        d = delays[k % len(delays)] if delays else 0
        if d:
            time.sleep(d)
        return native.native_read_bes_raw(data, sub_detectors)
    return wrapped


def evt_ids(arr):
    return [int(x) for x in arr["evt_header"]["evt_no"]]


for f in plan["files"]:
    path = f["path"]
    for cfg in f["calls"]:
        print("START " + json.dumps({"file": f["id"], **cfg}), flush=True)
        del batches_seen[:]
        delays = cfg.get("delays") or []
        rio.read_bes_raw = make_wrapper(delays)
        out = {"file": f["id"], **cfg}
        try:
            if cfg.get("history"):
                with pybes3.open_raw(path) as r:
                    res = []
                    for h in cfg["history"]:
                        if h.get("bad_sel"):
                            try:
                                r.arrays(n_blocks=h["n_blocks"], n_block_per_batch=h["per_batch"], sub_detectors=h["bad_sel"], max_workers=cfg.get("workers"), decode_reid=False)
                                res.append("no-error")
                            except Exception as ex:
                                res.append("raised")
                            continue
                        a = r.arrays(n_blocks=h["n_blocks"], n_block_per_batch=h["per_batch"], sub_detectors=cfg.get("sel"), max_workers=cfg.get("workers"), decode_reid=False)
                        res.append(a.tolist())
                    out["results"] = res
            elif cfg.get("concat"):
                a = pybes3.concatenate_raw(cfg["concat"], n_block_per_batch=cfg["per_batch"], sub_detectors=cfg.get("sel"), max_workers=cfg.get("workers"), decode_reid=False)
                out["result"] = a.tolist()
            else:
                with pybes3.open_raw(path) as r:
                    a = r.arrays(n_blocks=cfg["n_blocks"], n_block_per_batch=cfg["per_batch"], sub_detectors=cfg.get("sel"), max_workers=cfg.get("workers"), decode_reid=False)
                out["result"] = a.tolist()
                out["batches"] = list(batches_seen)
        except Exception as ex:
            out["error"] = f"{type(ex).__name__}: {ex}"
        print("DONE " + json.dumps(out), flush=True)
print("END", flush=True)
