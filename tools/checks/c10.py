"""C10 — electronics IDs in raw data map one-to-one onto valid detector identifiers (DESIGN.md section 6/C10).

model  : Gen/Reid.lean (the four tables as evaluated from the working tree + pinned reference + certificates),
         Gen/RawConsts.lean (id masks of fill_digi), Gen/DigiId/Mdc/Emc (kernels, geometry)
proof  : Props/C10.lean (whole-table kernel evaluation, certificate-checked injectivity, symbolic index bound)
tie    : the tables are dumped from the real builders on every run; a synthetic raw file containing EVERY representable
         electronics id of every detector is read through RawBinaryReader.arrays with decode_reid False/True
oracle : independent numpy scan of the real builders (injectivity, tags, geometry consistency, reference) and
         "decoded id == table[raw id], everything else unchanged" on the real read
"""
from __future__ import annotations

import hashlib
import json
import os

import numpy as np

from checks import raw_common as rc
from checks.c05 import bv_axiom_ok
from lib import core, native, rawfile as rf
from translate import gen

INVALID = 0xFFFFFFFF
WIDTH = {"mdc": 14, "tof": 10, "emc": 13, "muc": 11}
TAG = {"mdc": 0x10, "tof": 0x20, "emc": 0x30, "muc": 0x40}


def word_with_id(det, i, rng):
    if det == "mdc":
        return (i << 18) | (int(rng.integers(0, 2)) << 17) | int(rng.integers(0, 1 << 16))
    if det == "tof":
        return (int(rng.integers(0, 2)) << 31) | (i << 21) | (int(rng.integers(0, 2)) << 20) | int(rng.integers(0, 1 << 15))
    if det == "emc":
        return (i << 19) | int(rng.integers(0, 1 << 19))
    return (int(rng.integers(0, 32)) << 27) | (i << 16) | int(rng.integers(0, 1 << 16))


def all_ids_file(rng):
    """events whose ROBs together contain every representable electronics id of every detector"""
    events = []
    evno = 0
    for det, did in (("mdc", 0xA1), ("tof", 0xA2), ("emc", 0xA3), ("muc", 0xA4)):
        ids = np.arange(1 << WIDTH[det])
        for chunk in np.array_split(ids, max(1, len(ids) // 1024)):
            words = [word_with_id(det, int(i), rng) for i in chunk]
            extra = [rf.SubDet(0xA5, [rf.Ros([rf.Rob([int(rng.integers(0, 2**32)) for _ in range(3)])])]),
                     rf.SubDet(0x7C, [rf.Ros([rf.Rob([int(rng.integers(0, 2**32)) for _ in range(2)])])])] if evno % 2 == 0 else []
            ev = rf.Event(header=[1, evno, 2, 3, 0, 0, 4, 5, 6, 7], subdets=[rf.SubDet(did, [rf.Ros([rf.Rob(words)])])] + extra)
            events.append(ev); evno += 1
    return [[e] for e in events]


def oracle_tables(chk: core.Check):
    import pybes3.besio._reid as r
    import pybes3.detectors.digi_id as did
    import pybes3.detectors as det
    ref = json.loads((core.VERIF / "reference" / "reid_tables.json").read_bytes())
    tabs = {}
    for d in ("mdc", "tof", "emc", "muc"):
        t = getattr(r, f"build_{d}_re2te")()
        tabs[d] = t
        chk.count(len(t), key=f"table-{d}")
        if len(t) < (1 << WIDTH[d]):
            chk.failing_input(f"build_{d}_re2te table size", {"detector": d}, len(t), f">= {1 << WIDTH[d]} (ids in raw words have {WIDTH[d]} bits)", "every electronics id that can occur in a raw word is mapped without indexing outside the table")
            continue
        if t.dtype != np.uint32 or t.flags.writeable:
            chk.failing_input(f"build_{d}_re2te dtype/writeable", {}, [str(t.dtype), bool(t.flags.writeable)], ["uint32", False], "read-only uint32 table")
        mapped = t[t != INVALID]
        if len(np.unique(mapped)) != len(mapped):
            u, c = np.unique(mapped, return_counts=True)
            dup = int(u[c > 1][0])
            chk.failing_input(f"{d} electronics map injectivity", {"detector": d, "reids": np.nonzero(t == dup)[0].tolist()}, hex(dup), "distinct identifiers", "distinct electronics ids never map to the same detector identifier")
        tags = (mapped >> 24)
        if not np.all(tags == TAG[d]):
            i = int(np.nonzero((t != INVALID) & ((t >> 24) != TAG[d]))[0][0])
            chk.failing_input(f"{d} electronics map tag", {"reid": i}, hex(int(t[i])), f"tag {hex(TAG[d])}", "every mapped identifier carries its detector's tag")
        if list(map(int, t)) != ref[d]:
            i = int(np.nonzero(np.array(ref[d], dtype=np.uint64) != t[: len(ref[d])].astype(np.uint64))[0][0]) if len(t) >= len(ref[d]) else -1
            chk.failing_input(f"{d} electronics map vs pinned BOSS reference", {"reid": i}, hex(int(t[i])) if i >= 0 else f"len {len(t)}", hex(ref[d][i]) if i >= 0 else f"len {len(ref[d])}", "equals the pinned reference tables (reference/reid_tables.json)")
    # MDC: wire type vs geometry, every wire exactly one pre-image
    t = tabs["mdc"]; m = t[t != INVALID]
    layer = did.mdc_id_to_layer(m); st = did.mdc_id_to_is_stereo(m)
    ok_layer = layer < 43
    geo = det.mdc_layer_to_is_stereo(np.minimum(layer, 42))
    bad = ~ok_layer | (st != geo)
    if bad.any():
        i = int(np.nonzero(bad)[0][0])
        chk.failing_input("mdc electronics map wire type vs geometry", {"reid": int(np.nonzero(t == m[i])[0][0]), "identifier": hex(int(m[i])), "layer": int(layer[i])}, bool(st[i]), bool(geo[i]) if ok_layer[i] else "layer <= 42", "MDC wire type equals the layer's stereo class in the geometry")
    w = det.get_mdc_wire_position()
    ids = did.get_mdc_digi_id(w["wire"].astype(np.uint32), w["layer"].astype(np.uint32), w["is_stereo"].astype(np.uint32))
    cnt = np.array([(m == x).sum() for x in ids[::7]])
    cnt_all = np.isin(ids, m)
    if not cnt_all.all() or not np.all(cnt == 1):
        g = int(np.nonzero(~cnt_all)[0][0]) if not cnt_all.all() else 0
        chk.failing_input("mdc wire without (unique) electronics id", {"gid": g, "identifier": hex(int(ids[g]))}, "not exactly one pre-image", "exactly one", "every MDC wire is the image of exactly one electronics id")
    e = det.get_emc_crystal_position()
    import pybes3
    G = np.arange(6240)
    eids = did.get_emc_digi_id(pybes3.emc_gid_to_part(G).astype(np.uint32), pybes3.emc_gid_to_theta(G).astype(np.uint32), pybes3.emc_gid_to_phi(G).astype(np.uint32))
    te = tabs["emc"]; me = te[te != INVALID]
    if sorted(map(int, me)) != sorted(map(int, eids)):
        miss = sorted(set(map(int, eids)) - set(map(int, me)))[:1] + sorted(set(map(int, me)) - set(map(int, eids)))[:1]
        chk.failing_input("emc electronics map vs crystals", {"identifier": hex(miss[0]) if miss else None}, f"{len(me)} mapped", "exactly the 6240 crystals, once each", "every EMC crystal is the image of exactly one electronics id")
    return tabs


def real_read(chk: core.Check, tabs):
    import pybes3
    rng = np.random.default_rng(chk.seed + 10)
    blocks = all_ids_file(rng)
    path = rc.write_tmp(rf.enc_file(blocks))
    try:
        with rc.NativeBackedReader():
            with pybes3.open_raw(path) as r:
                raw = r.arrays(decode_reid=False, n_block_per_batch=7)
            with pybes3.open_raw(path) as r:
                dec = r.arrays(n_block_per_batch=5)          # decoding is the default
        import awkward as ak
        for d in ("mdc", "tof", "emc", "muc"):
            rid = ak.to_numpy(ak.flatten(raw[d]["id"])).astype(np.int64)
            tid = ak.to_numpy(ak.flatten(dec[d]["id"]))
            chk.count(len(rid), key=f"read-{d}")
            seen = np.unique(rid)
            if len(seen) != (1 << WIDTH[d]):
                chk.obligation_broken("correspondence", f"all-ids file: {d} ids seen", f"{len(seen)} of {1 << WIDTH[d]}")
            want = tabs[d][rid] if rid.max(initial=0) < len(tabs[d]) else None
            if want is None or not np.array_equal(tid.astype(np.uint64), want.astype(np.uint64)):
                i = 0 if want is None else int(np.nonzero(tid.astype(np.uint64) != want.astype(np.uint64))[0][0])
                chk.failing_input(f"raw read with ID decoding: {d} id", {"electronics_id": int(rid[i])}, hex(int(tid[i])), hex(int(want[i])) if want is not None else "table image", "the id of every digi is the table image of the electronics id returned with decoding disabled")
            for f in raw[d].fields:
                if f != "id" and not ak.all(ak.flatten(raw[d][f]) == ak.flatten(dec[d][f])):
                    chk.failing_input(f"raw read with ID decoding: field {d}.{f}", {}, "changed", "unchanged", "everything else being unchanged")
            if not ak.all(ak.num(raw[d]) == ak.num(dec[d])):
                chk.failing_input(f"raw read with ID decoding: digi counts {d}", {}, "changed", "unchanged", "everything else being unchanged")
        for f in raw["evt_header"].fields:
            if not ak.all(raw["evt_header"][f] == dec["evt_header"][f]):
                chk.failing_input("raw read with ID decoding: event header", {"field": f}, "changed", "unchanged", "everything else being unchanged")
        # every selection of sub-detectors (any subset, any order, with and without the non-digi collections trg / ef):
        # the ids of each selected detector are the table images, whatever else is selected
        sels = [["mdc"], ["tof"], ["emc"], ["muc"], ["ef", "mdc"], ["mdc", "ef"], ["trg", "muc"], ["ef", "trg", "tof", "emc"], ["muc", "emc", "tof", "mdc", "trg", "ef"], ["emc", "mdc"], ["ef"], ["trg"],
                # a list may name a detector more than once (the decoder collects the names in a set)
                ["mdc", "emc", "mdc"], ["tof", "tof"], ["muc", "ef", "muc", "trg"]]
        for sel in sels:
            try:
                with rc.NativeBackedReader():
                    with pybes3.open_raw(path) as r:
                        raw_s = r.arrays(decode_reid=False, sub_detectors=sel, n_block_per_batch=11)
                    with pybes3.open_raw(path) as r:
                        dec_s = r.arrays(sub_detectors=sel, n_block_per_batch=4)
            except Exception as ex:
                chk.failing_input(f"raw read with sub_detectors={sel} (decoding off, then on)", {"sub_detectors": sel}, f"{type(ex).__name__}: {str(ex)[:200]}", "arrays",
                                  "every electronics id is mapped without ever indexing outside the table; the ids are the table images for every selection of sub-detectors")
                return
            chk.count(1, key="selection-" + ",".join(sel))
            chk.hist("selection", ",".join(sel))
            for d in sel:
                if d in ("trg", "ef"):
                    if not ak.all(ak.flatten(raw_s[d]) == ak.flatten(dec_s[d])):
                        chk.failing_input(f"raw read with ID decoding: collection {d}", {"sub_detectors": sel}, "changed", "unchanged", "everything else being unchanged")
                    continue
                rid = ak.to_numpy(ak.flatten(raw_s[d]["id"])).astype(np.int64)
                tid = ak.to_numpy(ak.flatten(dec_s[d]["id"]))
                want = tabs[d][rid]
                if len(tid) != len(want) or not np.array_equal(tid.astype(np.uint64), want.astype(np.uint64)):
                    i = int(np.nonzero(tid.astype(np.uint64) != want.astype(np.uint64))[0][0]) if len(tid) == len(want) else 0
                    chk.failing_input(f"raw read with ID decoding and sub_detectors={sel}: {d} id", {"sub_detectors": sel, "electronics_id": int(rid[i])}, hex(int(tid[i])), hex(int(want[i])),
                                      "the id of every digi is the table image of the electronics id returned with decoding disabled (for every selection of sub-detectors)")
                    return
        # the same relation through concatenate_raw (several files; decoding on / off passed explicitly), and the electronics ids returned with
        # decoding disabled are the ones encoded in the file
        small = [[rf.gen_event(__import__("random").Random(int(rng.integers(1 << 30))), k)] for k in range(6)]
        path2 = rc.write_tmp(rf.enc_file(small))
        try:
            with rc.NativeBackedReader():
                cr = pybes3.concatenate_raw([path2, path, path2], decode_reid=False, n_block_per_batch=9)
                cd = pybes3.concatenate_raw([path2, path, path2], decode_reid=True, n_block_per_batch=6)
                with pybes3.open_raw(path2) as r:
                    r2 = r.arrays(decode_reid=False)
        finally:
            os.unlink(path2)
        enc = rf.expected([e for b in small for e in b], None)
        for d in ("mdc", "tof", "emc", "muc"):
            chk.count(1, key=f"concatenate-{d}")
            want_first = [row["id"] for rec in enc for row in rec[d]]
            n2 = len(want_first)
            rid = ak.to_numpy(ak.flatten(cr[d]["id"])).astype(np.int64)
            tid = ak.to_numpy(ak.flatten(cd[d]["id"]))
            same_as_single = ak.to_numpy(ak.flatten(r2[d]["id"])).astype(np.int64).tolist() == want_first
            if rid[:n2].tolist() != want_first or not same_as_single:
                chk.failing_input(f"concatenate_raw(files, decode_reid=False): {d} id", {"files": 3, "first_encoded_electronics_ids": want_first[:8]}, [hex(int(x)) for x in rid[:8]], [hex(x) for x in want_first[:8]],
                                  "with decoding disabled the read returns the electronics ids encoded in the file")
                return
            want = tabs[d][rid]
            if len(tid) != len(want) or not np.array_equal(tid.astype(np.uint64), want.astype(np.uint64)):
                i = int(np.nonzero(tid.astype(np.uint64) != want.astype(np.uint64))[0][0]) if len(tid) == len(want) else 0
                chk.failing_input(f"concatenate_raw(files, decode_reid=True) vs decode_reid=False: {d} id", {"files": 3, "electronics_id": int(rid[i])}, hex(int(tid[i])), hex(int(want[i])),
                                  "the id of every digi is the table image of the electronics id that the same read returns with decoding disabled")
                return
    except IndexError as ex:
        chk.failing_input("raw read with ID decoding of a file containing every representable electronics id", {"file": "every 14/10/13/11-bit id of mdc/tof/emc/muc once"}, f"IndexError: {ex}", "decoded arrays", "mapped ... without ever indexing outside the table")
    finally:
        os.unlink(path)


FIRST_READ_CHILD = r"""
import sys, json
sys.path.insert(0, sys.argv[1])
import numpy as np, awkward as ak
from checks import raw_common as rc
import pybes3
from pybes3.besio import _reid
path, workers = sys.argv[2], (None if sys.argv[3] == "None" else int(sys.argv[3]))
with rc.NativeBackedReader():
    with pybes3.open_raw(path) as r:
        dec = r.arrays(n_block_per_batch=1, max_workers=workers)           # the FIRST decoding read of this process
    with pybes3.open_raw(path) as r:
        raw = r.arrays(n_block_per_batch=1000, max_workers=workers, decode_reid=False)
tabs = {"mdc": _reid.build_mdc_re2te(), "tof": _reid.build_tof_re2te(), "emc": _reid.build_emc_re2te(), "muc": _reid.build_muc_re2te()}
out = {}
for d in tabs:
    rid = ak.to_numpy(ak.flatten(raw[d]["id"])).astype(np.int64); tid = ak.to_numpy(ak.flatten(dec[d]["id"])).astype(np.uint64)
    want = tabs[d][rid].astype(np.uint64)
    bad = np.nonzero(tid != want)[0] if len(tid) == len(want) else np.array([0])
    out[d] = {"n": int(len(rid)), "n_bad": int(len(bad)), "first": (None if not len(bad) else [int(rid[bad[0]]), hex(int(tid[bad[0]])) if len(tid) == len(want) else "length", hex(int(want[bad[0]]))])}
print(json.dumps(out))
"""


def first_read_in_fresh_process(chk: core.Check):
    """the decode relation for the FIRST decoding read of a fresh process, many one-block batches, 1 / 8 / default worker threads
    (tables built lazily, possibly while other workers already decode)"""
    import subprocess
    rng = np.random.default_rng(chk.seed + 1010)
    import random as _r
    blocks = [[rf.gen_event(_r.Random(int(rng.integers(1 << 30))), k)] for k in range(24)]
    path = rc.write_tmp(rf.enc_file(blocks))
    try:
        # which worker sees a half-built table is a matter of scheduling: several fresh processes per worker count
        for workers in ("8", "None", "16", "4", "1", "8", "2", "None", "8", "16"):
            p = subprocess.run([core.PY, "-c", FIRST_READ_CHILD, str(core.VERIF / "tools"), path, workers], capture_output=True, text=True, timeout=900)
            chk.count(1, key=f"first-read-{workers}")
            if p.returncode != 0 or not p.stdout.strip():
                chk.failing_input("first decoding read of a fresh process", {"blocks": 24, "n_block_per_batch": 1, "max_workers": workers}, p.stderr[-400:], "decoded arrays", "every electronics id is mapped without error")
                return
            res = json.loads(p.stdout.strip().splitlines()[-1])
            for d, r in res.items():
                if r["n_bad"]:
                    chk.failing_input(f"first decoding read of a fresh process: {d} id", {"blocks": 24, "n_block_per_batch": 1, "max_workers": workers, "electronics_id": r["first"][0]}, r["first"][1], r["first"][2],
                                      "the id of every digi is the table image of the electronics id that the same read returns with decoding disabled")
                    return
    finally:
        os.unlink(path)


def main(chk: core.Check) -> int:
    chk.coverage["rule"] = "evaluations = table entries scanned on the real builders + digis of the all-ids file read with decoding on/off; distinct = check classes"
    chk.assumptions += ["BOSS sources are not available offline: 'equals the BOSS map' is decided as 'equals the pinned reference tables' (reference/reid_tables.json, SHA-256 pinned at commit 631bbaa)",
                        "tables are evaluated, not modelled: build_*_re2te() have no input, so their value is their whole behaviour"]
    gs = [gen.gen_reid(), gen.gen_geom(), gen.gen_digi(), gen.gen_raw_consts(), gen.gen_reidpy()]
    bad = [g for g in gs if not g["ok"]]
    if bad:
        chk.obligation_broken("translator", "regenerate reid/geometry/digi/raw-constant models", bad[0]["error"])
    else:
        chk.prove(extra_allowed=bv_axiom_ok, modules=["C10", "ReidTie"])
        chk.coverage["table_sizes"] = {k: v for k, v in gs[0]["info"].items() if k != "wiring"}
        chk.coverage["traces_validated_against_impl"] = sum(v["len"] for k, v in gs[0]["info"].items() if k != "wiring")
    try:
        tabs = oracle_tables(chk)
        real_read(chk, tabs)
        if not chk.failing:
            first_read_in_fresh_process(chk)
    except Exception as ex:
        import traceback
        chk.obligation_broken("correspondence", "oracle run on implementation", f"{type(ex).__name__}: {ex}\n{traceback.format_exc()[-1500:]}")
    chk.sample({"all_ids_file": "one ROB per 1024 ids; mdc 2^14, tof 2^10, emc 2^13, muc 2^11 words with random payload bits"})
    return chk.finish(None)
