"""C18 — lazy (dask) reading yields the same arrays as eager reading (DESIGN.md section 6/C18).

model  : Model/Forms.lean (announced form and computed content as trees over the same record structure; the digi
         post-processing as the one polymorphic processDigi; matrix factory shape)
proof  : Props/C18.lean (lazy type = eager type for digi collections by naturality of processDigi; matrix form mirrors content)
tie    : for every fixture x every registered branch that supports lazy reading x steps_per_file x column projections:
         announced type string == computed type string == eager type string, and equal values; form vs content of
         pybes3's factories on synthetic raw data; Lean processDigi on the real branches' field lists
level  : partial - dask graph construction and uproot's form-to-buffer mapping (most of what this property exercises) are
         outside the model and only explored
"""
from __future__ import annotations

import json
import warnings

import numpy as np

from checks.c16 import form_dims
from lib import core

FIXTURES = ["test_full_mc_evt_1.rtraw", "test_full_mc_evt_1.dst", "test_full_mc_evt_1.rec", "test_cgem.rtraw", "test_cgem.dst", "test_cgem.rec", "test_mrpc.rtraw"]


def canon(x):
    """nested python lists with NaN made comparable"""
    if isinstance(x, dict):
        return {k: canon(v) for k, v in x.items()}
    if isinstance(x, (list, tuple)):
        return [canon(v) for v in x]
    if isinstance(x, float) and x != x:
        return "nan"
    return x


def lazy_vs_eager(chk: core.Check, thorough: bool):
    import awkward as ak
    import uproot
    import pybes3.besio.root_io as rio
    warnings.filterwarnings("ignore")
    rng = np.random.default_rng(chk.seed + 18)
    unsupported = []
    digi_fields = []
    for fn in FIXTURES if thorough else FIXTURES[:3] + ["test_cgem.rec"]:
        p = core.REPO / "tests" / "data" / fn
        if not p.exists():
            continue
        with uproot.open(p) as f:
            tree = f["Event"]
            names = [k for k in tree.keys(recursive=True) if isinstance(tree[k].interpretation, rio.Bes3Interpretation)]
        if not thorough:
            keep = [n for n in names if "Digi" not in n]
            idx = sorted(rng.choice(len(keep), size=min(6, len(keep)), replace=False))
            # every digi collection (incl. those never written in the file: element type unknown) + a sample of the others
            names = sorted(set([keep[i] for i in idx] + [n for n in names if "Digi" in n or "mdcTrackCol" in n or "emcTrackCol" in n or "CgemClusterCol" in n]))
        # one process reads branches with different matrix sizes one after the other (state must not leak between them)
        for name in names:
            short = name.split("/")[-1]
            with uproot.open(p) as f:
                eager = f["Event"][name].array()
            if "TDigiEvent" in name and eager.fields:
                digi_fields.append((fn, name, eager.fields))
            for steps in ([1, 2, 3, 5, 10] if thorough else [1, 3]):
                key = f"{fn}:{name}:steps{steps}"
                try:
                    d = uproot.dask({str(p): "Event/" + name}, steps_per_file=steps)
                except NotImplementedError as ex:
                    # a BES3 collection branch that cannot be read lazily at all: the property's quantifier is "every BES3 collection
                    # branch", so this is a failure of the property; the one recorded call site is matched through finding_key
                    unsupported.append(f"{fn}:{name}: {ex}")
                    fk = {"key": "cgem-cluster-col-no-lazy-form"} if (short == "m_recCgemClusterCol" and "Bes3CgemClusterColFactory" in str(ex)) else None
                    chk.failing_input("uproot.dask(...) on a BES3 collection branch", {"file": fn, "branch": name, "steps_per_file": steps}, f"NotImplementedError: {str(ex)[:300]}", {"eager_type": str(eager.type)[:300]},
                                      "for every BES3 collection branch the lazily read array exists and equals the eager one", finding_key=fk)
                    if fk is None:
                        return
                    break
                except Exception as ex:
                    chk.failing_input("uproot.dask(...) construction", {"file": fn, "branch": name, "steps_per_file": steps}, f"{type(ex).__name__}: {str(ex)[:300]}", "a lazy array", "collection branches that support lazy reading can be opened lazily")
                    return
                col = d[short]
                announced = str(col.type.content if hasattr(col.type, "content") else col.type) if False else str(ak.types.ArrayType(col._meta.type.content if hasattr(col._meta.type, "content") else col._meta.type, len(eager)))
                try:
                    comp = col.compute()
                except Exception as ex:
                    chk.failing_input("compute() of a lazily read collection", {"file": fn, "branch": name, "steps_per_file": steps}, f"{type(ex).__name__}: {str(ex)[:300]}", "the eager array", "the array obtained lazily and then computed has the same type and values as the eager one")
                    return
                chk.count(1, key=key)
                chk.hist("steps_per_file", steps)
                t_eager, t_comp = str(eager.type), str(comp.type)
                same_vals = (len(comp) == len(eager)) and canon(ak.to_list(comp)) == canon(ak.to_list(eager))
                if t_comp != t_eager or not same_vals or announced != t_eager:
                    what = "type announced before computing" if announced != t_eager and t_comp == t_eager and same_vals else ("type of the computed lazy array" if t_comp != t_eager else "values of the computed lazy array")
                    first_bad = None
                    if not same_vals and len(comp) == len(eager):
                        lc, le = canon(ak.to_list(comp)), canon(ak.to_list(eager))
                        first_bad = next((i for i in range(len(le)) if lc[i] != le[i]), None)
                    chk.failing_input(what, {"file": fn, "branch": name, "steps_per_file": steps, "first_differing_event": first_bad},
                                      {"announced": announced[:300], "computed_type": t_comp[:300], "n": len(comp)}, {"eager_type": t_eager[:300], "n": len(eager)},
                                      "lazy (uproot.dask + compute) has the same type and values as eager array(); the announced type equals the computed type")
                    return
        # other ways of asking for the same lazy array: several files at once (the computed array is the concatenation of the eager reads),
        # open_files=False (forms come from the first file only), step_size instead of steps_per_file
        if fn in ("test_full_mc_evt_1.rtraw", "test_full_mc_evt_1.dst"):
            other = core.REPO / "tests" / "data" / fn.replace("_1.", "_2.")
            pick = [n for n in names if "mdcDigiCol" in n or "mdcTrackCol" in n or "mcParticleCol" in n][:2]
            for name in pick:
                short = name.split("/")[-1]
                with uproot.open(p) as f:
                    e1 = f["Event"][name].array()
                variants = {"step_size=4": lambda: uproot.dask({str(p): "Event/" + name}, step_size=4)[short],
                            # (with open_files=False uproot does not resolve a path that names a single branch - stock branches behave the
                            # same -, so the event group is opened and the collection selected by name)
                            "open_files=False": lambda: uproot.dask({str(p): "Event/" + name.split("/")[0]}, open_files=False, filter_name=[short])[short]}
                want = {"step_size=4": e1, "open_files=False": e1}
                if other.exists():
                    with uproot.open(other) as f:
                        e2 = f["Event"][name].array()
                    variants["two files"] = lambda: uproot.dask([{str(p): "Event/" + name}, {str(other): "Event/" + name}], steps_per_file=2)[short]
                    want["two files"] = ak.concatenate([e1, e2])
                for vname, build in variants.items():
                    chk.count(1, key=f"variant-{fn}-{name}-{vname}")
                    try:
                        comp = build().compute()
                        bad = None if (str(comp.type) == str(want[vname].type) and canon(ak.to_list(comp)) == canon(ak.to_list(want[vname]))) else f"type {str(comp.type)[:200]}, {len(comp)} entries"
                    except Exception as ex:
                        bad = f"{type(ex).__name__}: {str(ex)[:200]}"
                    if bad:
                        chk.failing_input(f"uproot.dask(..., {vname}) then compute()", {"file": fn, "branch": name, "variant": vname}, bad, {"eager_type": str(want[vname].type)[:200], "n": len(want[vname])},
                                          "the array obtained lazily and then computed has the same type and values as the eager one")
                        return
        # column projection on a multi-branch lazy array: every branch of the group is in turn the only one computed (all others
        # are projected away), plus one member column of a collection
        with uproot.open(p) as f:
            tree = f["Event"]
            groups = sorted({n.split("/")[0] for n in names if "/" in n})
            plain = []
            for k in tree.keys(recursive=True):
                try:
                    if "/" in k and isinstance(tree[k].interpretation, uproot.AsDtype):
                        plain.append(k)
                except Exception:
                    pass                      # branches uproot cannot interpret at all are not part of the property
        for grp in groups[: (len(groups) if thorough else 2)]:
            members = [n for n in names if n.startswith(grp + "/")]
            if not thorough and len(members) > 4:
                members = [members[i] for i in sorted(rng.choice(len(members), size=4, replace=False))]
            extra = [k for k in plain if k.startswith(grp + "/")][:1]
            if len(members) + len(extra) < 2:
                continue
            cols = [m.split("/")[-1] for m in members + extra]
            try:
                d = uproot.dask({str(p): "Event/" + grp}, filter_name=cols, steps_per_file=2)
            except NotImplementedError as ex:
                unsupported.append(f"{fn}:{grp}: {ex}")
                if "m_recCgemClusterCol" in cols and "Bes3CgemClusterColFactory" in str(ex):
                    # recorded finding (reported above for the branch itself); the other columns of the group are still checked
                    members = [m for m in members if not m.endswith("m_recCgemClusterCol")]
                    cols = [c for c in cols if c != "m_recCgemClusterCol"]
                    if len(cols) < 2:
                        continue
                    d = uproot.dask({str(p): "Event/" + grp}, filter_name=cols, steps_per_file=2)
                else:
                    chk.failing_input("uproot.dask(...) on an event group", {"file": fn, "group": grp, "columns": cols}, f"NotImplementedError: {str(ex)[:300]}", "a lazy array", "collection branches can be read lazily")
                    return
            for m in members + extra:
                pick = m.split("/")[-1]
                with uproot.open(p) as f:
                    eager = f["Event"][m].array()
                targets = [(pick, d[pick], eager)]
                if m in members and eager.fields:
                    fld = eager.fields[int(rng.integers(0, len(eager.fields)))]
                    targets.append((f"{pick}.{fld}", d[pick][fld], eager[fld]))
                for label, lazy, want in targets:
                    chk.count(1, key=f"projection-{fn}-{grp}-{label}")
                    try:
                        comp = lazy.compute()
                        bad = None if (str(comp.type) == str(want.type) and canon(ak.to_list(comp)) == canon(ak.to_list(want))) else f"type {str(comp.type)[:200]}"
                    except Exception as ex:
                        bad = f"compute() raised {type(ex).__name__}: {str(ex)[:200]}"
                    if bad:
                        chk.failing_input("column projection of a lazily read event group", {"file": fn, "group": grp, "columns_read_lazily": cols, "projected_to": label, "steps_per_file": 2}, bad, str(want.type)[:300],
                                          "every column projection applied before compute() yields the eager column", finding_key=None)
                        return
    chk.coverage["branches_without_lazy_support"] = sorted(set(unsupported))[:10]
    return digi_fields


def worker_processes(chk: core.Check, thorough: bool):
    """the same comparison when dask computes the lazy array in worker processes (the graph is pickled to fresh interpreters)"""
    import subprocess
    import sys as _sys
    fixtures = [("test_full_mc_evt_1.dst", ["TDstEvent/m_mdcTrackCol", "TDstEvent/m_emcTrackCol"]), ("test_full_mc_evt_1.rtraw", ["TDigiEvent/m_mdcDigiCol", "TMcEvent/m_mcParticleCol"])]
    for fn, names in (fixtures if thorough else fixtures[:1] + [(fixtures[1][0], fixtures[1][1][:1])]):
        p = core.REPO / "tests" / "data" / fn
        if not p.exists():
            continue
        r = subprocess.run([core.PY, str(core.VERIF / "tools" / "checks" / "c18_child.py"), str(p)] + names, capture_output=True, text=True, timeout=900)
        lines = [l for l in r.stdout.splitlines() if l.startswith("[")]
        if r.returncode != 0 or not lines:
            chk.obligation_broken("correspondence", "worker-process compute child", (r.stderr or r.stdout)[-800:])
            return
        for rec in json.loads(lines[-1]):
            chk.count(1, key=f"scheduler-{fn}-{rec['branch']}-{rec['scheduler']}")
            chk.hist("dask_scheduler", rec["scheduler"])
            if rec["bad"]:
                chk.failing_input(f"compute(scheduler={rec['scheduler']!r}) of a lazily read collection", {"file": fn, "branch": rec["branch"], "steps_per_file": 2, "scheduler": rec["scheduler"], "num_workers": 2},
                                  rec["bad"], rec.get("want"), "the array obtained lazily and then computed has the same type and values as the eager one")
                return


ENV_CHILD = r"""
import sys, json, os, warnings
warnings.filterwarnings("ignore")
when, var, val, path = sys.argv[1:5]
names = sys.argv[5:]
if when == "before-import":
    os.environ[var] = val
import awkward as ak, uproot, pybes3
if when == "after-import":
    os.environ[var] = val
def canon(x):
    if isinstance(x, float): return "nan" if x != x else x
    if isinstance(x, list): return [canon(v) for v in x]
    if isinstance(x, dict): return {k: canon(v) for k, v in x.items()}
    return x
out = []
for name in names:
    short = name.split("/")[-1]
    rec = {"branch": name, "bad": None}
    try:
        eager = uproot.open(path)["Event"][name].array()
        col = uproot.dask({path: "Event/" + name}, steps_per_file=2)[short]
        ann = str(ak.types.ArrayType(col._meta.type.content if hasattr(col._meta.type, "content") else col._meta.type, len(eager)))
        comp = col.compute()
        if str(comp.type) != str(eager.type) or ann != str(eager.type):
            rec["bad"] = {"announced": ann[:300], "computed_type": str(comp.type)[:300]}; rec["want"] = str(eager.type)[:300]
        elif canon(ak.to_list(comp)) != canon(ak.to_list(eager)):
            rec["bad"] = "values differ"; rec["want"] = "the eager values"
    except Exception as ex:
        rec["bad"] = f"{type(ex).__name__}: {str(ex)[:300]}"
    out.append(rec)
print(json.dumps(out))
"""


def environment_switches(chk: core.Check):
    """every environment variable the package source reads, set to a value other than its default before the import and - as notebooks and job
    scripts do - after it: lazy and eager must still agree (each side may read its configuration at a different moment)"""
    import os
    import subprocess
    from checks import c06
    envs = c06.scan_env_reads()
    chk.coverage["environment_variables_read_by_the_package"] = {k: {"default": v[0], "file": v[1]} for k, v in envs.items()}
    p = core.REPO / "tests" / "data" / "test_full_mc_evt_1.rtraw"
    if not p.exists():
        return
    names = ["TDigiEvent/m_mdcDigiCol", "TDigiEvent/m_mucDigiCol", "TMcEvent/m_mcParticleCol"]
    for var, (default, where) in envs.items():
        for val in c06.perturbations(default)[:2]:
            for when in ("after-import", "before-import"):
                env = dict(os.environ)
                for k in envs:
                    env.pop(k, None)
                r = subprocess.run([core.PY, "-c", ENV_CHILD, when, var, val, str(p)] + names, capture_output=True, text=True, timeout=900, env=env)
                lines = [l for l in r.stdout.splitlines() if l.startswith("[")]
                if not lines:
                    chk.obligation_broken("correspondence", "environment-switch child", (r.stderr or r.stdout)[-600:])
                    return
                for rec in json.loads(lines[-1]):
                    chk.count(1, key=f"env-{var}={val}-{when}-{rec['branch']}")
                    chk.hist("environment_switch", f"{var} {when}")
                    if rec["bad"]:
                        chk.failing_input(f"lazy vs eager read with {var}={val} set {when.replace('-', ' ')} ({where})", {"file": p.name, "branch": rec["branch"], "environment": {var: val}, "set": when, "steps_per_file": 2},
                                          rec["bad"], rec.get("want"), "the array obtained lazily and then computed has the same type and values as the eager one; the announced type equals the computed type")
                        return


def forms_vs_contents(chk: core.Check):
    """pybes3's factories: make_awkward_form mirrors make_awkward_content"""
    import awkward as ak
    import pybes3.besio.root_io as rio
    from uproot_custom import PrimitiveFactory
    for n in range(1, 9):
        f = rio.Bes3SymMatrixArrayFactory("m", "d", n * (n + 1) // 2, n)
        raw = np.arange(4 * n * n, dtype=np.float64)
        c = ak.Array(f.make_awkward_content(raw))
        form = f.make_awkward_form()
        chk.count(1, key=f"symform-{n}")
        if str(ak.Array(ak.contents.NumpyArray(raw.reshape(-1, n, n))).type.content) != str(c.type.content) or form_dims(form) != [n, n] or str(form.type) != str(c.type.content):
            chk.failing_input("Bes3SymMatrixArrayFactory form vs content", {"n": n}, str(form.type), str(c.type.content), "form construction mirrors content construction")
            return
    # two factories of different sizes: the form of the second must not be the first one's
    a = rio.Bes3SymMatrixArrayFactory("a", "d", 15, 5).make_awkward_form()
    b = rio.Bes3SymMatrixArrayFactory("b", "d", 6, 3).make_awkward_form()
    c = rio.Bes3SymMatrixArrayFactory("c", "d", 28, 7).make_awkward_form()
    if [form_dims(x) for x in (a, b, c)] != [[5, 5], [3, 3], [7, 7]]:
        chk.failing_input("forms of matrix factories of different sizes created one after the other", {"sizes": [5, 3, 7]}, [form_dims(x) for x in (a, b, c)], [[5, 5], [3, 3], [7, 7]], "the announced type of each branch is its own")
    # TObjArray factory
    elem = PrimitiveFactory("x", "i4") if hasattr(PrimitiveFactory, "__call__") else None
    try:
        fac = rio.Bes3TObjArrayFactory("col", PrimitiveFactory("x", "i"))
        content = ak.Array(fac.make_awkward_content((np.array([0, 2, 2, 3], dtype=np.uint32), np.array([1, 2, 3], dtype=np.int32))))
        form = fac.make_awkward_form()
        chk.count(1, key="tobjarray-form")
        if str(form.type) != str(content.type.content):
            chk.failing_input("Bes3TObjArrayFactory form vs content", {}, str(form.type), str(content.type.content), "form construction mirrors content construction")
    except Exception as ex:
        chk.coverage["tobjarray_form_probe"] = f"not run: {type(ex).__name__}: {str(ex)[:100]}"
    # process_digi_subbranch_form on synthetic forms incl. clashes
    if hasattr(rio, "process_digi_subbranch_form"):
        arr = ak.zip({"TRawData": ak.zip({"m_intId": ak.Array([[1], []]), "m_t": ak.Array([[2], []])}), "m_overflow": ak.Array([[3], []])}, depth_limit=2)
        lifted = rio.process_digi_subbranch(arr)
        form = rio.process_digi_subbranch_form(arr.layout.form)
        chk.count(1, key="digi-form")
        if str(form.type) != str(lifted.type.content):
            chk.failing_input("process_digi_subbranch_form vs process_digi_subbranch", {}, str(form.type), str(lifted.type.content), "the announced type is the type of the post-processed array")


def model_digi(chk: core.Check, digi_fields):
    """Lean processDigi on the field lists of the real digi branches (raw content: TRawData nested)"""
    import uproot
    import uproot_custom
    import pybes3.besio.root_io as rio
    lines, wants = [], []
    for fn, name, fields in digi_fields[:12]:
        p = core.REPO / "tests" / "data" / fn
        with uproot.open(p) as f:
            br = f["Event"][name]
            raw_form = uproot_custom.AsCustom.awkward_form(br.interpretation, br.file)
        rec = raw_form.content
        toks = []
        for fname, fform in zip(rec.fields, rec.contents):
            toks.append(f"TRawData({','.join(fform.fields)})" if fname == "TRawData" else fname)
        lines.append("DIGI " + " ".join(toks)); wants.append(fields)
    if not lines:
        return
    out = core.lean_run("Driver/Root.lean", "\n".join(lines) + "\n")
    bad = [(l, o, w) for l, o, w in zip(lines, out, wants) if o.split() != w]
    chk.coverage["digi_branches_through_model"] = len(lines)
    if bad:
        chk.obligation_broken("correspondence", "Lean processDigi vs the eager digi fields of real branches", str(bad[:2]))


def main(chk: core.Check) -> int:
    thorough = chk.tier == "thorough"
    chk.level = "other"
    chk.coverage["explanation"] = ("Proof (Lean, Props/C18) that pybes3's own part mirrors itself: the lazily announced type equals the eager type for digi collections (naturality of the "
                                   "shared post-processing) and the matrix factory's form mirrors its content; structured exploration of the dask/uproot path on every fixture branch x "
                                   "steps_per_file x projections, comparing announced / computed / eager types and values.")
    chk.coverage["rule"] = "evaluations = (file, branch, steps_per_file) lazy reads compared with eager reads + factory form/content probes"
    chk.assumptions += ["dask graph construction and uproot's positional form-to-buffer mapping are third-party and outside the model",
                        "m_recCgemClusterCol cannot be read lazily (Bes3CgemClusterColFactory.make_awkward_form raises NotImplementedError): recorded finding, reproduced on every run"]
    core.regen_rootpy(chk)
    chk.prove(modules=["C18", "RootTie"])
    try:
        digi_fields = lazy_vs_eager(chk, thorough) or []
        if not [f for f in chk.failing if not f.get("finding_key")]:
            worker_processes(chk, thorough)
        if not [f for f in chk.failing if not f.get("finding_key")]:
            environment_switches(chk)
        forms_vs_contents(chk)
        model_digi(chk, digi_fields)
        chk.coverage["traces_validated_against_impl"] = chk.evals
    except core.DriverError as ex:
        chk.obligation_broken("correspondence", "Root driver", str(ex))
    except Exception as ex:
        import traceback
        chk.obligation_broken("correspondence", "lazy/eager harness", f"{type(ex).__name__}: {ex}\n{traceback.format_exc()[-1800:]}")
    chk.sample({"file": "test_full_mc_evt_1.rtraw", "branch": "TDigiEvent/m_mdcDigiCol", "steps_per_file": 3})
    return chk.finish(None)
