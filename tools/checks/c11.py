"""C11 — pivot changes compose: identity, inverse, path independence (DESIGN.md section 6/C11).

model  : Model/Helix.lean::changePivot, jacobian, propagate
proof  : Props/C11.lean (parameters) and Props/C11b.lean (error matrices: J_back J_forth = 1, chain rule J_2 J_1 = J_direct) over the reals
tie    : chained Lean Float model calls <-> chained change_pivot calls (object, record, array forms)
oracle : direct move to the last pivot; identity; there-and-back (parameters and error matrix)
"""
from __future__ import annotations

import math

import numpy as np

from checks import helix_common as hc
from checks.c06 import scale_of
from lib import core


def chain_impl_array(h, pivots, error=None):
    import awkward as ak
    arr = hc.impl_arr(h, error=error)
    for p in pivots:
        arr = arr.change_pivot(ak.zip({"x": p[:, 0], "y": p[:, 1], "z": p[:, 2]}, with_name="Vector3D"))
    return arr


def to_np(arr):
    import awkward as ak
    d = {k: ak.to_numpy(arr[k]) for k in ("dr", "phi0", "kappa", "dz", "tanl")}
    d["piv"] = np.stack([ak.to_numpy(arr.pivot.x), ak.to_numpy(arr.pivot.y), ak.to_numpy(arr.pivot.z)], axis=1)
    return d


def run(chk: core.Check, n: int, n_obj: int):
    import awkward as ak
    import pybes3
    rng = np.random.default_rng(chk.seed + 11)
    h = hc.gen(rng, n, far=True)
    # normal form of the starting helix: dr + rho on the same side as rho (|dr| < |rho| suffices)
    h["dr"] = np.where(np.abs(h["dr"]) < 0.9 * np.abs(hc.rho(h["kappa"])), h["dr"], 0.1)
    L = rng.integers(1, 9, n)
    Lmax = int(L.max())
    scales = rng.choice([1.0, 10.0, 100.0, 400.0], (Lmax, n))
    pivs = rng.uniform(-1, 1, (Lmax, n, 3)) * scales[:, :, None]
    # every track follows its own sequence; tracks with a shorter sequence repeat their last pivot (identity moves)
    for k in range(Lmax):
        stay = k >= L
        if k > 0:
            pivs[k][stay] = pivs[k - 1][stay]
    sc = scale_of(h) + np.abs(pivs).max(axis=(0, 2))
    tolr = 1e-8

    def pd(i):
        return {"helix": {k: float(h[k][i]) for k in ("dr", "phi0", "kappa", "dz", "tanl")}, "pivot": h["piv"][i].tolist(), "sequence": pivs[: L[i], i].tolist()}

    # regularity: no step starts at the centre or turns by ~pi
    cx, cy = hc.spec_centre(h)
    reg = np.ones(n, bool)
    cur_phi = h["phi0"].copy()
    acc = np.zeros(n)
    r = hc.rho(h["kappa"])
    within = np.ones(n, bool)
    for k in range(Lmax):
        vx, vy = cx - pivs[k][:, 0], cy - pivs[k][:, 1]
        reg &= np.hypot(vx, vy) > 1e-6 * np.abs(r)
        ph = np.mod(np.arctan2(vy * np.sign(r), vx * np.sign(r)), hc.TWO_PI)
        d = hc.wrap_pi(ph - cur_phi)
        reg &= np.abs(np.abs(d) - math.pi) > 1e-6
        acc += d
        within &= (acc > -math.pi + 1e-6) & (acc < math.pi - 1e-6)
        cur_phi = ph
    direct_d = hc.wrap_pi(cur_phi - h["phi0"])
    reg &= np.abs(np.abs(direct_d) - math.pi) > 1e-6
    # ---- implementation: chained vs direct (array form)
    chained = to_np(chain_impl_array(h, [pivs[k] for k in range(Lmax)]))
    direct = to_np(chain_impl_array(h, [pivs[Lmax - 1]]))
    chk.count(n * (Lmax + 1), key="array-chain")
    pitch = 2 * math.pi * r * h["tanl"]
    ok_xy = hc.close(chained["dr"], direct["dr"], atol=tolr * sc) & hc.circ_close(chained["phi0"], direct["phi0"], 1e-8) & (chained["kappa"] == h["kappa"]) & (chained["tanl"] == h["tanl"])
    ddz = chained["dz"] - direct["dz"]
    kk = np.where(np.abs(pitch) > 1e-12, ddz / np.where(np.abs(pitch) > 1e-12, pitch, 1), 0)
    ok_dz = np.abs(ddz - np.round(kk) * pitch) <= tolr * sc * (1 + np.abs(h["tanl"])) * (1 + np.abs(kk))
    ok_dz_exact = ~within | (np.abs(ddz) <= tolr * sc * (1 + np.abs(h["tanl"])))
    ok_rng = (chained["phi0"] >= 0) & (chained["phi0"] <= hc.TWO_PI) & (np.abs(chained["piv"] - pivs[Lmax - 1]).max(axis=1) == 0)
    for name, ok, orc in (("(dr, phi0, kappa, tanl) after a pivot sequence vs direct move", ok_xy, "path independence"),
                          ("dz after a pivot sequence vs direct move (mod pitch)", ok_dz, "dz equal up to a whole number of helix pitches"),
                          ("dz after a pivot sequence with accumulated turning angle within half a turn", ok_dz_exact, "dz exactly equal when the accumulated turning angle stays within half a turn"),
                          ("phi0 range / reported pivot", ok_rng, "phi0 in [0, 2pi), reported pivot is the requested one")):
        b = ~ok & reg
        if b.any():
            i = int(np.nonzero(b)[0][0])
            chk.failing_input(name, pd(i), {k: float(chained[k][i]) for k in ("dr", "phi0", "dz")}, {k: float(direct[k][i]) for k in ("dr", "phi0", "dz")}, orc)
    chk.hist("sequence_length", "histogram", 0)
    for l in range(1, 9):
        chk.hist("sequence_length", l, int((L == l).sum()))
    chk.hist("accumulated_turning", "within_half_turn", int(within.sum())); chk.hist("accumulated_turning", "beyond", int((~within).sum()))
    # ---- the same array moved twice: the array itself and the first result are untouched, the second move starts from the same helix
    pa = ak.zip({"x": pivs[0][:, 0], "y": pivs[0][:, 1], "z": pivs[0][:, 2]}, with_name="Vector3D")
    pb = ak.zip({"x": pivs[Lmax - 1][:, 0] + 1.5, "y": pivs[Lmax - 1][:, 1] - 0.5, "z": pivs[Lmax - 1][:, 2] + 2.0}, with_name="Vector3D")
    for label, src in (("array", hc.impl_arr(h)), ("multi-track record", ak.Array([hc.impl_arr(h)])[0] if False else None)):
        if src is None:
            continue
        snap = lambda a: {k: ak.to_numpy(a[k]).copy() for k in ("dr", "phi0", "kappa", "dz", "tanl")}
        before = snap(src)
        r1 = src.change_pivot(pa); s1 = snap(r1)
        r2 = src.change_pivot(pb); s2 = snap(r2)
        fresh2 = snap(hc.impl_arr(h).change_pivot(pb))
        chk.count(3 * n, key="same-array-twice")
        for what, got, want, orc in (("helix array after it was moved to another pivot", snap(src), before, "a pivot change returns a new helix and leaves the one it was applied to unchanged"),
                                     ("result of an earlier pivot change after the same array was moved again", snap(r1), s1, "a result that was handed out does not change afterwards"),
                                     ("second move of the same array vs the same move of a fresh copy", s2, fresh2, "every move of a helix starts from that helix's parameters, whatever was done with it before")):
            badk = [k for k in want if not np.array_equal(got[k], want[k], equal_nan=True)]
            if badk:
                k = badk[0]; i = int(np.nonzero(~((got[k] == want[k]) | (np.isnan(got[k]) & np.isnan(want[k]))))[0][0])
                chk.failing_input(what, dict(pd(i), field=k, moves=[pivs[0][i].tolist(), (pivs[Lmax - 1][i] + np.array([1.5, -0.5, 2.0])).tolist()]), float(got[k][i]), float(want[k][i]), orc)
                break
    # ---- identity and there-and-back (array form with error matrices)
    A = rng.normal(size=(n, 5, 5)); E = A @ A.transpose(0, 2, 1) * 1e-4
    arr = hc.impl_arr(h, error=E)
    same = to_np(arr.change_pivot(ak.zip({"x": h["piv"][:, 0], "y": h["piv"][:, 1], "z": h["piv"][:, 2]}, with_name="Vector3D")))
    valid0 = (h["phi0"] < hc.TWO_PI)
    ok_id = hc.close(same["dr"], h["dr"], atol=tolr * sc) & hc.circ_close(same["phi0"], h["phi0"], 1e-8) & hc.close(same["dz"], h["dz"], atol=tolr * sc * (1 + np.abs(h["tanl"])))
    b = ~ok_id & valid0
    chk.count(n, key="identity")
    if b.any():
        i = int(np.nonzero(b)[0][0])
        chk.failing_input("change_pivot to the current pivot", pd(i), {k: float(same[k][i]) for k in ("dr", "phi0", "dz")}, {k: float(h[k][i]) for k in ("dr", "phi0", "dz")}, "moving a helix to its current pivot changes nothing")
    p1 = ak.zip({"x": pivs[0][:, 0], "y": pivs[0][:, 1], "z": pivs[0][:, 2]}, with_name="Vector3D")
    p0 = ak.zip({"x": h["piv"][:, 0], "y": h["piv"][:, 1], "z": h["piv"][:, 2]}, with_name="Vector3D")
    fwd = arr.change_pivot(p1)
    back_arr = fwd.change_pivot(p0)
    back = to_np(back_arr)
    vx, vy = cx - pivs[0][:, 0], cy - pivs[0][:, 1]
    d1 = hc.wrap_pi(np.mod(np.arctan2(vy * np.sign(r), vx * np.sign(r)), hc.TWO_PI) - h["phi0"])
    reg1 = (np.hypot(vx, vy) > 1e-6 * np.abs(r)) & (np.abs(np.abs(d1) - math.pi) > 1e-6) & valid0
    ok_b = hc.close(back["dr"], h["dr"], atol=tolr * sc) & hc.circ_close(back["phi0"], h["phi0"], 1e-8) & hc.close(back["dz"], h["dz"], atol=tolr * sc * (1 + np.abs(h["tanl"])))
    Eb = ak.to_numpy(back_arr.error)
    # the Jacobian entries scale with the track: compare relative to the propagated magnitude
    Ef = ak.to_numpy(fwd.error)
    mag = np.maximum(np.abs(Ef).max(axis=(1, 2)), np.abs(E).max(axis=(1, 2)))
    ok_e = np.abs(Eb - E).max(axis=(1, 2)) <= 1e-6 * mag * (1 + (sc / np.abs(r)) ** 2)
    chk.count(2 * n, key="there-and-back")
    for name, ok, orc in (("there-and-back parameters", ok_b, "moving to another pivot and back restores the parameters"),
                          ("there-and-back error matrix", ok_e, "moving to another pivot and back restores the error matrix")):
        b = ~ok & reg1
        if b.any():
            i = int(np.nonzero(b)[0][0])
            chk.failing_input(name, pd(i), {k: float(back[k][i]) for k in ("dr", "phi0", "dz")}, {k: float(h[k][i]) for k in ("dr", "phi0", "dz")}, orc)
    # ---- error matrices along a pivot sequence vs the direct move (Props/C11b.lean::error_path_independent): array and object form
    far_from_centre = np.ones(n, bool)
    for k in range(Lmax):
        far_from_centre &= np.hypot(cx - pivs[k][:, 0], cy - pivs[k][:, 1]) > 1e-2 * np.abs(r)
    regE = reg & within & far_from_centre & valid0
    ch_arr = chain_impl_array(h, [pivs[k] for k in range(Lmax)], error=E)
    di_arr = chain_impl_array(h, [pivs[Lmax - 1]], error=E)
    Ec, Ed = ak.to_numpy(ch_arr.error), ak.to_numpy(di_arr.error)
    sig = np.sqrt(np.maximum(np.einsum("nii->ni", np.abs(Ed)), 1e-300))
    ok_pe = (np.abs(Ec - Ed) <= 1e-6 * sig[:, :, None] * sig[:, None, :] * (1 + (sc / np.abs(r)) ** 2)[:, None, None] + 1e-18).all(axis=(1, 2))
    chk.count(n, key="error-path")
    b = ~ok_pe & regE
    if b.any():
        i = int(np.nonzero(b)[0][0])
        chk.failing_input("error matrix after a pivot sequence vs the direct move (array form)", dict(pd(i), error=E[i].tolist()), Ec[i].tolist(), Ed[i].tolist(),
                          "moving through any sequence of pivots gives the same result as moving directly to the last one (error matrix: J_k ... J_1 E J_1^T ... J_k^T = J E J^T)")
    for i in np.nonzero(regE)[0][: max(5, n_obj // 5)]:
        o = pybes3.helix_obj(h["dr"][i], h["phi0"][i], h["kappa"][i], h["dz"][i], h["tanl"][i], pivot=tuple(h["piv"][i]), error=E[i])
        od = o.change_pivot(tuple(pivs[Lmax - 1][i]))
        for k in range(Lmax):
            o = o.change_pivot(tuple(pivs[k][i]))
        chk.count(1, key="error-path-object")
        if not (np.abs(np.asarray(o.error) - np.asarray(od.error)) <= 1e-6 * sig[i][:, None] * sig[i][None, :] * (1 + (sc[i] / abs(r[i])) ** 2) + 1e-18).all():
            chk.failing_input("error matrix after a pivot sequence vs the direct move (object form)", dict(pd(int(i)), error=E[i].tolist()), np.asarray(o.error).tolist(), np.asarray(od.error).tolist(),
                              "moving through any sequence of pivots gives the same result as moving directly to the last one (error matrix)")
            break
    # ---- integer-typed dr / dz columns with common non-integer pivots given as tuples: the chain ends where the direct move ends,
    # and the reported pivot is the requested one
    m = min(n, 40)
    hi = {k: v[:m].copy() for k, v in h.items()}
    hi["dr"] = np.zeros(m, dtype=np.int64); hi["dz"] = np.rint(h["dz"][:m]).astype(np.int32)
    t1 = tuple(float(x) for x in rng.uniform(-20, 20, 3) + 0.251)
    t2 = tuple(float(x) for x in rng.uniform(-20, 20, 3) + 0.377)
    mk = lambda: pybes3.helix_awk(dr=ak.Array(hi["dr"]), phi0=ak.Array(hi["phi0"]), kappa=ak.Array(hi["kappa"]), dz=ak.Array(hi["dz"]), tanl=ak.Array(hi["tanl"]), pivot=(0.5, -0.25, 1.5))
    try:
        via = to_np(mk().change_pivot(t1).change_pivot(t2)); dire = to_np(mk().change_pivot(t2))
    except Exception as ex:
        chk.failing_input("change_pivot on integer-typed dr/dz columns with non-integer tuple pivots raised", {"helix": {k: np.asarray(hi[k][:3]).tolist() for k in ("dr", "phi0", "kappa", "dz", "tanl")}, "dtypes": {"dr": "int64", "dz": "int32"}, "pivot": [0.5, -0.25, 1.5], "sequence": [list(t1), list(t2)]},
                          f"{type(ex).__name__}: {str(ex)[:300]}", "the moved helices", "moving a helix through a sequence of pivots gives the result of the direct move (for every dtype the columns are stored with)")
        via = dire = None
    chk.count(3 * m, key="int-dtype-chain")
    if via is None:
        return []
    hreg = dict(hi, dr=hi["dr"].astype(float), piv=np.array([(0.5, -0.25, 1.5)] * m), new=np.array([t2] * m))
    regi = hc.regular_mask(hreg) & hc.regular_mask(dict(hreg, new=np.array([t1] * m)))
    sci = 1 + np.abs(hc.rho(hi["kappa"])) + 40
    ok_i = hc.close(via["dr"], dire["dr"], atol=tolr * sci) & hc.circ_close(via["phi0"], dire["phi0"], 1e-8) & (np.abs(via["piv"] - np.array(t2)).max(axis=1) == 0) & (np.abs(dire["piv"] - np.array(t2)).max(axis=1) == 0)
    b = ~ok_i & regi
    if b.any():
        i = int(np.nonzero(b)[0][0])
        chk.failing_input("pivot sequence vs direct move on integer-typed dr/dz columns with non-integer tuple pivots", {"helix": {k: float(hi[k][i]) for k in ("dr", "phi0", "kappa", "dz", "tanl")}, "dtypes": {"dr": "int64", "dz": "int32"}, "pivot": [0.5, -0.25, 1.5], "sequence": [list(t1), list(t2)]},
                          {"dr": float(via["dr"][i]), "phi0": float(via["phi0"][i]), "reported_pivot": via["piv"][i].tolist(), "direct_reported_pivot": dire["piv"][i].tolist()}, {"dr": float(dire["dr"][i]), "phi0": float(dire["phi0"][i]), "reported_pivot": list(t2)},
                          "same result as moving directly to the last pivot; the reported pivot is the requested one")
    # ---- object and record forms on a subset: chained object == chained array
    for i in range(n_obj):
        o = pybes3.helix_obj(h["dr"][i], h["phi0"][i], h["kappa"][i], h["dz"][i], h["tanl"][i], pivot=tuple(h["piv"][i]))
        rec = hc.impl_arr({k: v[i:i + 1] for k, v in h.items()})[0]
        for k in range(Lmax):
            o = o.change_pivot(tuple(pivs[k][i]))
            if i % 5 == 0:
                rec = rec.change_pivot(*pivs[k][i])
        chk.count(Lmax, key="object-chain")
        if reg[i] and not (hc.close(o.dr, chained["dr"][i], atol=tolr * sc[i]) and hc.circ_close(o.phi0, chained["phi0"][i], 1e-8) and hc.close(o.dz, chained["dz"][i], atol=tolr * sc[i] * (1 + abs(h["tanl"][i])))):
            chk.failing_input("chained HelixObject.change_pivot vs array form", pd(i), [o.dr, o.phi0, o.dz], [float(chained[k][i]) for k in ("dr", "phi0", "dz")], "object and array forms agree along a pivot sequence")
            break
        if i % 5 == 0 and reg[i] and not (hc.close(float(rec.dr), chained["dr"][i], atol=tolr * sc[i]) and hc.close(float(rec.dz), chained["dz"][i], atol=tolr * sc[i] * (1 + abs(h["tanl"][i])))):
            chk.failing_input("chained record change_pivot vs array form", pd(i), [float(rec.dr), float(rec.phi0), float(rec.dz)], [float(chained[k][i]) for k in ("dr", "phi0", "dz")], "record and array forms agree along a pivot sequence")
            break
    # ---- Lean model chain
    cur = dict(h)
    for k in range(Lmax):
        cur["new"] = pivs[k]
        m = hc.model_cp(cur)
        cur = dict(dr=m[:, 0], phi0=m[:, 1], kappa=h["kappa"], dz=m[:, 2], tanl=h["tanl"], piv=pivs[k])
    okm = hc.close(cur["dr"], chained["dr"], atol=tolr * sc) & hc.circ_close(cur["phi0"], chained["phi0"], 1e-8)
    dzm = cur["dz"] - chained["dz"]
    km = np.where(np.abs(pitch) > 1e-12, dzm / np.where(np.abs(pitch) > 1e-12, pitch, 1), 0)
    okm &= np.abs(dzm) <= tolr * sc * (1 + np.abs(h["tanl"]))
    chk.sample(pd(0))
    return [{"track": int(i), **pd(int(i)), "model": [cur["dr"][i], cur["phi0"][i], cur["dz"][i]], "impl": [chained["dr"][i], chained["phi0"][i], chained["dz"][i]]} for i in np.nonzero(~okm & reg)[0][:3]]


def small_steps_and_layouts(chk: core.Check, thorough: bool):
    """(a) a long walk in very small steps away from the origin equals the direct move (object, record and array form): no step may be
    dropped as "already there"; (b) the error matrix handed in with another memory layout (Fortran order, transposed view, strided slice,
    read-only) is the same matrix: identity move, there-and-back and the direct move give the same result as with a C-contiguous copy"""
    import awkward as ak
    import pybes3
    rng = np.random.default_rng(chk.seed + 111)
    A = rng.normal(size=(5, 5)); E = A @ A.T * 1e-3
    # ---- (a)
    for kappa in (-1.3, 0.8):
        start, end = np.array([40.0, 30.0, 20.0]), np.array([41.0, 30.75, 20.5])
        steps = 12000 if thorough else 6000
        h0 = pybes3.helix_obj(0.3, 1.0, kappa, -1.2, 0.5, pivot=tuple(start), error=E.copy())
        direct = h0.change_pivot(tuple(end))
        cur = h0
        arr = pybes3.helix_awk(ak.Array([[0.3, 1.0, kappa, -1.2, 0.5]]), pivot=tuple(start))
        for k in range(1, steps + 1):
            p = tuple(start + (end - start) * k / steps)
            cur = cur.change_pivot(p)
            if k % 10 == 0 or k == steps:
                arr = arr.change_pivot(p)
        chk.count(steps, key=f"small-steps-{kappa}")
        got = [cur.dr, cur.phi0, cur.dz]; want = [direct.dr, direct.phi0, direct.dz]
        ga = [float(arr.dr[0]), float(arr.phi0[0]), float(arr.dz[0])]
        for form, g, e_ok in (("object", got, np.allclose(cur.error, direct.error, rtol=1e-6, atol=1e-12)), ("array", ga, True)):
            if not (hc.close(g[0], want[0], atol=1e-7) and hc.circ_close(g[1], want[1], 1e-7) and hc.close(g[2], want[2], atol=1e-7) and e_ok):
                chk.failing_input(f"pivot walked in {steps} small steps vs the direct move ({form} form)", {"helix": [0.3, 1.0, kappa, -1.2, 0.5], "from": start.tolist(), "to": end.tolist(), "steps": steps},
                                  {"dr": g[0], "phi0": g[1], "dz": g[2]}, {"dr": want[0], "phi0": want[1], "dz": want[2]}, "moving through any sequence of pivots gives the same result as moving directly to the last one")
                return
    # ---- (b)
    big = np.asfortranarray(rng.normal(size=(7, 10)))
    big[1:6, 2:7] = E
    ro = E.copy(); ro.setflags(write=False)
    layouts = {"C-contiguous": E.copy(), "Fortran order": np.asfortranarray(E), "transposed view": np.ascontiguousarray(E.T).T, "strided slice of a larger array": big[1:6, 2:7], "every-second-element view": np.repeat(np.repeat(E, 2, axis=0), 2, axis=1)[::2, ::2], "read-only": ro}
    ref = None
    for name, M in layouts.items():
        assert np.array_equal(np.asarray(M), E)
        for kappa in (-1.3, 0.8):
            h0 = pybes3.helix_obj(0.3, 1.0, kappa, -1.2, 0.5, pivot=(1.0, 2.0, 3.0), error=M)
            same = h0.change_pivot((1.0, 2.0, 3.0))
            there = h0.change_pivot((4.0, -2.0, 1.0))
            back = there.change_pivot((1.0, 2.0, 3.0))
            res = {"identity": np.asarray(same.error), "direct": np.asarray(there.error), "back": np.asarray(back.error)}
            chk.count(3, key=f"error-layout-{name}")
            if name == "C-contiguous":
                ref = ref or {}
                ref[kappa] = res
            okk = np.allclose(res["identity"], E, rtol=1e-9, atol=1e-15) and np.allclose(res["back"], E, rtol=1e-7, atol=1e-13) and np.allclose(res["direct"], ref[kappa]["direct"], rtol=1e-12, atol=0)
            if not okk:
                which = "identity" if not np.allclose(res["identity"], E, rtol=1e-9, atol=1e-15) else ("back" if not np.allclose(res["back"], E, rtol=1e-7, atol=1e-13) else "direct")
                chk.failing_input(f"error matrix given as a {name} array: {which} move", {"helix": [0.3, 1.0, kappa, -1.2, 0.5], "pivot": [1, 2, 3], "error_matrix": E.tolist(), "memory_layout": name},
                                  res[which].tolist(), (E if which != "direct" else ref[kappa]["direct"]).tolist(), "moving to the current pivot changes nothing; there and back restores the error matrix; the result does not depend on how the same matrix is laid out in memory")
                return


def main(chk: core.Check) -> int:
    n, n_obj = (10000, 600) if chk.tier == "thorough" else (1500, 100)
    chk.coverage["rule"] = "evaluations = change_pivot calls along generated pivot sequences (length 1-8, pivots up to 4 m away); tolerance 1e-8 relative to track scale"
    chk.assumptions += ["theorems over the reals; float-only edge new_phi0 == float(2*pi) is outside the model", "hand-written model mirrors helix.py after the fix: commits"]
    hc.regen(chk)
    chk.prove(modules=["C11", "C11b", "HelixTie"])
    try:
        diffs = run(chk, n, n_obj)
        chk.coverage["traces_validated_against_impl"] = n
        if not chk.failing:
            small_steps_and_layouts(chk, chk.tier == "thorough")
        if not chk.failing:
            from checks import c07
            c07.deep_views_and_pivot_kinds(chk)         # pivots stored in other coordinate systems / field orders, views of deep arrays
        if diffs:
            chk.obligation_broken("correspondence", "chained Lean Float changePivot vs implementation", str(diffs[:2]))
    except core.DriverError as ex:
        chk.obligation_broken("correspondence", "helix driver", str(ex))
    return chk.finish(None)
