"""C12 — helix error matrices are propagated with the true Jacobian (DESIGN.md section 6/C12).

model  : Model/Helix.lean::jacobian / propagate   proof : Props/C12.lean (implicit differentiation over the reals,
         J E J^T symmetric / PSD, identity move)
tie    : Lean Float Jacobian + propagation <-> change_pivot(...).error (object and array form)
oracle : central finite differences (Richardson-extrapolated) of change_pivot's OWN parameter map
"""
from __future__ import annotations

import math

import numpy as np

from checks import helix_common as hc
from checks.c06 import scale_of
from checks.c11 import to_np
from lib import core


def param_map(h):
    """new parameters (n,5) of the implementation (array form, no error)"""
    import awkward as ak
    arr = hc.impl_arr(h)
    res = arr.change_pivot(ak.zip({"x": h["new"][:, 0], "y": h["new"][:, 1], "z": h["new"][:, 2]}, with_name="Vector3D"))
    return np.stack([ak.to_numpy(res[k]) for k in ("dr", "phi0", "kappa", "dz", "tanl")], axis=1)


def fd_jacobian(h):
    """(n,5,5) central differences with one Richardson step; phi0 differences taken modulo 2 pi"""
    n = len(h["dr"])
    names = ["dr", "phi0", "kappa", "dz", "tanl"]
    base = np.stack([h[k] for k in names], axis=1)
    r = np.abs(hc.rho(h["kappa"]))
    steps = np.stack([1e-4 * (1 + np.abs(h["dr"])), np.full(n, 1e-5), 1e-5 * np.abs(h["kappa"]), np.full(n, 1e-4), np.full(n, 1e-5)], axis=1)
    J = np.zeros((n, 5, 5))
    for j in range(5):
        est = []
        for f in (1.0, 0.5):
            hp, hm = dict(h), dict(h)
            hp[names[j]] = base[:, j] + f * steps[:, j]
            hm[names[j]] = base[:, j] - f * steps[:, j]
            d = param_map(hp) - param_map(hm)
            d[:, 1] = hc.wrap_pi(d[:, 1])
            est.append(d / (2 * f * steps[:, j])[:, None])
        J[:, :, j] = (4 * est[1] - est[0]) / 3
    return J


def run(chk: core.Check, n: int, n_obj: int):
    import awkward as ak
    import pybes3
    rng = np.random.default_rng(chk.seed + 12)
    h = hc.gen(rng, n, far=False)
    h["phi0"] = np.clip(h["phi0"], 1e-3, hc.TWO_PI - 1e-3)       # keep the finite-difference stencil off the phi0 wrap of the INPUT
    reg = hc.regular_mask(h, eps=1e-2)
    cx, cy = hc.spec_centre(h)
    r = hc.rho(h["kappa"])
    v = np.hypot(cx - h["new"][:, 0], cy - h["new"][:, 1])
    reg &= v > 1e-2 * np.abs(r)                                    # 1/(r + dr') blows up at the centre
    # error matrices: SPD, rank-deficient PSD, diagonal
    A = rng.normal(size=(n, 5, 5))
    kind = rng.integers(0, 3, n)
    A[kind == 1, :, 3:] = 0
    E = A @ A.transpose(0, 2, 1)
    E[kind == 2] = np.eye(5)[None] * rng.uniform(0.1, 2, (int((kind == 2).sum()), 1, 1))
    scl = np.array([1e-2, 1e-3, 1e-2, 1e-2, 1e-3])
    E = E * scl[None, :, None] * scl[None, None, :]
    arr = hc.impl_arr(h, error=E)
    newp = ak.zip({"x": h["new"][:, 0], "y": h["new"][:, 1], "z": h["new"][:, 2]}, with_name="Vector3D")
    res = arr.change_pivot(newp)
    Enew = ak.to_numpy(res.error)
    chk.count(n, key="array")

    def pd(i):
        return {"helix": {k: float(h[k][i]) for k in ("dr", "phi0", "kappa", "dz", "tanl")}, "pivot": h["piv"][i].tolist(), "new_pivot": h["new"][i].tolist(), "error": E[i].tolist()}

    # ---- oracle: J from finite differences of the implementation's own parameter map
    Jfd = fd_jacobian(h)
    chk.count(20 * n, key="finite-differences")
    Eexp = Jfd @ E @ Jfd.transpose(0, 2, 1)
    mag = np.sqrt(np.einsum("nii->ni", np.abs(Eexp)))            # per-parameter sigma
    tol = 2e-4 * (mag[:, :, None] * mag[:, None, :]) + 1e-12
    bad = (np.abs(Enew - Eexp) > tol).any(axis=(1, 2)) & reg
    if bad.any():
        i = int(np.nonzero(bad)[0][0])
        ij = np.unravel_index(np.argmax(np.abs(Enew[i] - Eexp[i]) / tol[i]), (5, 5))
        chk.failing_input("change_pivot(...).error vs J E J^T with J = finite-difference derivative of change_pivot's own parameter map", pd(i),
                          {"entry": [int(ij[0]), int(ij[1])], "error_new": Enew[i].tolist()}, {"expected": Eexp[i].tolist(), "J_fd": Jfd[i].tolist()},
                          "the returned error matrix equals J E J^T where J is the derivative of the new parameters w.r.t. the old ones")
    # symmetric, PSD
    sym = np.abs(Enew - Enew.transpose(0, 2, 1)).max(axis=(1, 2)) <= 1e-9 * np.abs(Enew).max(axis=(1, 2))
    ev = np.linalg.eigvalsh((Enew + Enew.transpose(0, 2, 1)) / 2)
    psd = ev.min(axis=1) >= -1e-9 * np.abs(ev).max(axis=1)
    for name, ok in (("error matrix stays symmetric", sym), ("error matrix stays positive semi-definite", psd)):
        b = ~ok & reg
        if b.any():
            i = int(np.nonzero(b)[0][0])
            chk.failing_input(name, pd(i), Enew[i].tolist(), "symmetric PSD", name)
    # move to the same pivot: unchanged
    same = arr.change_pivot(ak.zip({"x": h["piv"][:, 0], "y": h["piv"][:, 1], "z": h["piv"][:, 2]}, with_name="Vector3D"))
    Es = ak.to_numpy(same.error)
    valid = np.abs(h["dr"]) < 0.9 * np.abs(r)
    b = (np.abs(Es - E).max(axis=(1, 2)) > 1e-9 * np.abs(E).max(axis=(1, 2)) * (1 + (scale_of(h) / np.abs(r)))) & valid
    chk.count(n, key="same-pivot")
    if b.any():
        i = int(np.nonzero(b)[0][0])
        chk.failing_input("error matrix after a move to the same pivot", pd(i), Es[i].tolist(), E[i].tolist(), "unchanged by a move to the same pivot")
    # no error matrix stays none
    r0 = hc.impl_arr(h).change_pivot(newp)
    if "error" in r0.fields:
        chk.failing_input("helix array without error matrix", {}, "error field appeared", "no error field", "helices without an error matrix stay without one")
    # object form: per-track matrices equal the array form
    for i in range(n_obj):
        o, o2 = hc.impl_obj_cp(h, i, error=E[i])
        chk.count(1, key="object")
        if reg[i] and not np.allclose(o2.error, Enew[i], rtol=1e-9, atol=1e-9 * np.abs(Enew[i]).max()):
            chk.failing_input("HelixObject.change_pivot(...).error vs array form", pd(i), np.asarray(o2.error).tolist(), Enew[i].tolist(), "object and array forms agree (per-track matrices)")
            break
        if i == 0:
            _, o3 = hc.impl_obj_cp(h, i, error=None)
            if o3.error is not None:
                chk.failing_input("HelixObject without error matrix", pd(i), "not None", None, "helices without an error matrix stay without one")
    # ---- correspondence with the Lean model: J entries via model, propagation via numpy and via Lean `prop`
    m = hc.model_cp(h)
    Jm = np.stack([hc.jac_from_model(m[i]) for i in range(n)])
    Em = Jm @ E @ Jm.transpose(0, 2, 1)
    magm = np.sqrt(np.einsum("nii->ni", np.abs(Em)))
    okm = (np.abs(Enew - Em) <= 1e-8 * (magm[:, :, None] * magm[:, None, :]) + 1e-14).all(axis=(1, 2))
    diffs = [{"track": int(i), **pd(int(i)), "model_error": Em[i].tolist(), "impl_error": Enew[i].tolist()} for i in np.nonzero(~okm & reg)[0][:3]]
    k = min(n, 40)
    lp = hc.model_lines("prop", [list(Jm[i].ravel()) + list(E[i].ravel()) for i in range(k)])
    if not np.allclose(lp.reshape(k, 5, 5), Em[:k], rtol=1e-9, atol=1e-15):
        diffs.append({"lean_propagate_vs_numpy": "differs"})
    chk.coverage["excluded_branch_boundary_inputs"] = int((~reg).sum())
    chk.hist("error_kind", "SPD", int((kind == 0).sum())); chk.hist("error_kind", "rank-deficient", int((kind == 1).sum())); chk.hist("error_kind", "diagonal", int((kind == 2).sum()))
    chk.hist("charge", "positive", int((h["kappa"] > 0).sum())); chk.hist("charge", "negative", int((h["kappa"] < 0).sum()))
    chk.sample({k2: v2 for k2, v2 in pd(0).items() if k2 != "error"})
    return diffs


def dtype_cases(chk: core.Check, n: int):
    """the error matrix may be stored with any numeric dtype (an integer identity / integer-valued covariance, float32 from a
    file): the result must be J E J^T for the VALUES given - i.e. what the same values stored as float64 give"""
    import awkward as ak
    import pybes3
    rng = np.random.default_rng(chk.seed + 1212)
    h = hc.gen(rng, n, far=False)
    reg = hc.regular_mask(h, eps=1e-2)
    cx, cy = hc.spec_centre(h)
    reg &= np.hypot(cx - h["new"][:, 0], cy - h["new"][:, 1]) > 1e-2 * np.abs(hc.rho(h["kappa"]))
    A = rng.integers(-3, 4, size=(n, 5, 5))
    Eint = A @ A.transpose(0, 2, 1)
    Eint[::3] = np.eye(5, dtype=int)[None]
    newp = ak.zip({"x": h["new"][:, 0], "y": h["new"][:, 1], "z": h["new"][:, 2]}, with_name="Vector3D")
    ref = ak.to_numpy(hc.impl_arr(h, error=Eint.astype(np.float64)).change_pivot(newp).error).astype(float)
    for dt, rtol in ((np.int64, 1e-12), (np.int32, 1e-12), (np.float32, 2e-5)):
        E = Eint.astype(dt)
        got = ak.to_numpy(hc.impl_arr(h, error=E).change_pivot(newp).error).astype(float)
        chk.count(n, key=f"dtype-array-{np.dtype(dt).name}")
        chk.hist("error_dtype", np.dtype(dt).name, n)
        mag = np.sqrt(np.einsum("nii->ni", np.abs(ref)))
        bad = (np.abs(got - ref) > rtol * (mag[:, :, None] * mag[:, None, :]) + 1e-12).any(axis=(1, 2)) & reg
        forms = [("array form", got, bad)]
        k = min(n, 25)
        gobj = np.array([np.asarray(hc.impl_obj_cp(h, i, error=E[i])[1].error, dtype=float) for i in range(k)])
        chk.count(k, key=f"dtype-object-{np.dtype(dt).name}")
        bobj = (np.abs(gobj - ref[:k]) > rtol * (mag[:k, :, None] * mag[:k, None, :]) + 1e-12).any(axis=(1, 2)) & reg[:k]
        forms.append(("object form", gobj, bobj))
        for fname, g, b in forms:
            if b.any():
                i = int(np.nonzero(b)[0][0])
                chk.failing_input(f"change_pivot(...).error for an error matrix stored as {np.dtype(dt).name} ({fname}) vs the same values stored as float64",
                                  {"helix": {kk: float(h[kk][i]) for kk in ("dr", "phi0", "kappa", "dz", "tanl")}, "pivot": h["piv"][i].tolist(), "new_pivot": h["new"][i].tolist(), "error": E[i].tolist(), "error_dtype": np.dtype(dt).name},
                                  g[i].tolist(), ref[i].tolist(), "the returned error matrix equals J E J^T with the true Jacobian J (not a Jacobian truncated to the dtype of E)")
                return


def layout_cases(chk: core.Check, n: int):
    """the SAME matrices held in memory in different ways (C order, a transposed view of a (5,5,N) array, Fortran order, every
    second matrix of a longer array; awkward itself refuses big-endian buffers): the result is J E J^T for the values, whatever the layout"""
    import awkward as ak
    rng = np.random.default_rng(chk.seed + 1213)
    h = hc.gen(rng, n, far=False)
    reg = hc.regular_mask(h, eps=1e-2)
    A = rng.normal(size=(n, 5, 5))
    E = A @ A.transpose(0, 2, 1) * 1e-3                      # not symmetric under a permutation of memory order
    newp = ak.zip({"x": np.array(h["new"][:, 0]), "y": np.array(h["new"][:, 1]), "z": np.array(h["new"][:, 2])}, with_name="Vector3D")
    ref = ak.to_numpy(hc.impl_arr(h, error=np.ascontiguousarray(E)).change_pivot(newp).error).astype(float)
    same = ak.zip({"x": np.array(h["piv"][:, 0]), "y": np.array(h["piv"][:, 1]), "z": np.array(h["piv"][:, 2])}, with_name="Vector3D")
    ref_same = ak.to_numpy(hc.impl_arr(h, error=np.ascontiguousarray(E)).change_pivot(same).error).astype(float)
    wide = np.zeros((2 * n, 5, 5)); wide[::2] = E
    layouts = {
        "transposed view of a (5,5,N) array": np.ascontiguousarray(E.transpose(1, 2, 0)).transpose(2, 0, 1),
        "Fortran-ordered": np.asfortranarray(E),
        "every second matrix of a longer array": wide[::2],
        "inner axes swapped view of the transposes": np.ascontiguousarray(E.transpose(0, 2, 1)).transpose(0, 2, 1),
    }
    for name, Ev in layouts.items():
        assert np.array_equal(np.asarray(Ev, dtype=float), E)
        for where in ("moved", "same pivot"):
            tgt = newp if where == "moved" else ak.zip({"x": np.array(h["piv"][:, 0]), "y": np.array(h["piv"][:, 1]), "z": np.array(h["piv"][:, 2])}, with_name="Vector3D")
            want = ref if where == "moved" else ref_same
            got = ak.to_numpy(hc.impl_arr(h, error=Ev).change_pivot(tgt).error).astype(float)
            chk.count(n, key=f"layout-{name}-{where}")
            chk.hist("error_layout", name, n)
            m2 = np.sqrt(np.einsum("nii->ni", np.abs(want)))
            tol = 1e-9 * (m2[:, :, None] * m2[:, None, :]) + 1e-13
            bad = (np.abs(got - want) > tol).any(axis=(1, 2)) & reg
            if bad.any():
                i = int(np.nonzero(bad)[0][0])
                chk.failing_input(f"change_pivot(...).error (array form, {where}) for error matrices held as: {name}",
                                  {"helix": {kk: float(h[kk][i]) for kk in ("dr", "phi0", "kappa", "dz", "tanl")}, "pivot": h["piv"][i].tolist(), "new_pivot": (h["new"][i] if where == "moved" else h["piv"][i]).tolist(),
                                   "error": E[i].tolist(), "layout": name, "strides": list(np.asarray(Ev).strides), "track": i, "n_tracks": n},
                                  got[i].tolist(), want[i].tolist(), "the returned error matrix equals J E J^T for the matrix VALUES of that track (what a C-contiguous copy of the same array gives)")
                return


def main(chk: core.Check) -> int:
    n, n_obj = (8000, 400) if chk.tier == "thorough" else (800, 60)
    chk.coverage["rule"] = "evaluations = change_pivot calls (incl. 20 per track for the finite-difference stencil); entries compared relative to sigma_i*sigma_j at 2e-4"
    chk.assumptions += ["theorems over the reals: wherever the parameter map is differentiable its derivative is the matrix the code uses; the finite-difference oracle has O(h^4) truncation error, tolerance 2e-4",
                        "hand-written model mirrors helix.py after the fix: commits"]
    hc.regen(chk)
    chk.prove(modules=["C12", "C11b", "HelixTie"])
    try:
        diffs = run(chk, n, n_obj)
        if not chk.failing:
            dtype_cases(chk, 600 if chk.tier == "thorough" else 90)
        if not chk.failing:
            layout_cases(chk, 400 if chk.tier == "thorough" else 60)
        chk.coverage["traces_validated_against_impl"] = n
        if diffs:
            chk.obligation_broken("correspondence", "Lean Float jacobian/propagate vs implementation", str(diffs[:2])[:3000])
    except core.DriverError as ex:
        chk.obligation_broken("correspondence", "helix driver", str(ex))
    return chk.finish(None)
