"""C05 — digi identifiers compose and decompose without loss (DESIGN.md section 6/C05).

model  : Gen/DigiId.lean, regenerated from digi_id.py by the translator on every run
proof  : Props/C05.lean (bv_decide over BitVec 64, signed and unsigned variants)
tie    : differential pass Lean kernels <-> numba kernels over all integer dtypes
oracle : the property itself, as a closed form written here independently of the code's constants,
         evaluated on the real kernels over the complete field spaces and tagged words
"""
from __future__ import annotations

import itertools
import json

import numpy as np

from lib import core
from lib.kerneldiff import INT_DTYPES, KernelDiff, structured_values
from translate import gen

# documented layouts (docs/user-manual/digi-identifier.md): name -> (tag, [(field, offset, width)])
LAYOUT = {
    "mdc": (0x10, [("wire", 0, 9), ("layer", 9, 6), ("wire_type", 15, 1)]),
    "emc": (0x30, [("module", 16, 4), ("theta", 8, 6), ("phi", 0, 8)]),
    "muc": (0x40, [("part", 16, 4), ("segment", 12, 4), ("layer", 8, 4), ("channel", 0, 8)]),
    "cgem": (0x60, [("layer", 0, 3), ("sheet", 3, 3), ("strip", 7, 12), ("is_x_strip", 6, 1)]),
}
TAGS = {"mdc": 0x10, "tof": 0x20, "emc": 0x30, "muc": 0x40, "cgem": 0x60}


def bv_axiom_ok(thm, ax):
    return "._native.bv_decide.ax_" in ax and ax.startswith(thm)


def bv_axiom_any(thm, ax):
    """a bv_decide certificate axiom of this project's own theorems (a tie theorem may rest on a C05 / C08 theorem proved with bv_decide)"""
    return "._native.bv_decide.ax_" in ax and ax.startswith("Pybes3Verif.")


def _digi():
    import pybes3.detectors.digi_id as d
    return d


def impl_encode(det, d):
    return {"mdc": d.get_mdc_digi_id, "emc": d.get_emc_digi_id, "muc": d.get_muc_digi_id,
            "cgem": d.get_cgem_digi_id, "tof": d.get_tof_digi_id}[det]


def impl_decoders(det, d):
    return {
        "mdc": [d.mdc_id_to_wire, d.mdc_id_to_layer, d.mdc_id_to_is_stereo],
        "emc": [d.emc_id_to_module, d.emc_id_to_theta, d.emc_id_to_phi],
        "muc": [d.muc_id_to_part, d.muc_id_to_segment, d.muc_id_to_layer, d.muc_id_to_channel],
        "cgem": [d.cgem_id_to_layer, d.cgem_id_to_sheet, d.cgem_id_to_strip, d.cgem_id_to_is_x_strip],
    }[det]


def checks(d):
    return {"mdc": d.check_mdc_id, "tof": d.check_tof_id, "emc": d.check_emc_id, "muc": d.check_muc_id,
            "cgem": d.check_cgem_id}


# ------------------------------------------------------------------------------------------------
# oracle: the property evaluated on the real kernels
# ------------------------------------------------------------------------------------------------
def oracle_fields(chk: core.Check, d, overwide: bool, dtype="uint32", limit=None, rng=None):
    """Round trip over the complete field space of each detector (plus over-wide values)."""
    for det, (tag, fields) in LAYOUT.items():
        widths = [w for _, _, w in fields]
        total = sum(widths)
        n = 1 << total
        idx = np.arange(n, dtype=np.uint64)
        if limit and n > limit:
            idx = np.unique(np.concatenate([rng.integers(0, n, size=limit, dtype=np.uint64),
                                            np.array([0, n - 1], dtype=np.uint64)]))
        cols = []
        sh = 0
        for w in widths:
            cols.append(((idx >> np.uint64(sh)) & np.uint64((1 << w) - 1)))
            sh += w
        args = [c.astype(dtype) for c in cols]
        if overwide:   # add bits above the field: must be truncated, never leak
            args = [(c + (np.uint64(1) << np.uint64(w)) * np.uint64(1 + (i % 3))).astype("int64") for i, (c, w) in enumerate(zip(cols, widths))]
        ids = impl_encode(det, d)(*args)
        if ids.dtype != np.uint32:
            chk.failing_input(f"{det} encoder result dtype", {"dtype_in": dtype}, str(ids.dtype), "uint32", "documented uint32 identifier")
            return
        exp = np.full(len(idx), tag << 24, dtype=np.uint64)
        for c, (_, off, w) in zip(cols, fields):
            v = c if det != "cgem" or _ != "is_x_strip" else c
            if det == "cgem" and _ == "is_x_strip":
                v = (~c) & np.uint64(1)      # stored inverted: bit 6 = 0 for an X strip
            exp |= (v << np.uint64(off))
        bad = np.nonzero(ids.astype(np.uint64) != exp)[0]
        chk.count(len(idx), key=f"fields-{det}-{overwide}-{dtype}")
        if len(bad):
            i = int(bad[0])
            chk.failing_input(f"{det} identifier composed from fields", {"detector": det, "fields": {f[0]: int(a[i]) for f, a in zip(fields, args)}, "dtype": str(args[0].dtype)},
                              hex(int(ids[i])), hex(int(exp[i])), "documented bit layout (tag<<24 | fields at their offsets, truncated to width)")
            continue
        for dec, c, (fname, off, w) in zip(impl_decoders(det, d), cols, fields):
            got = np.asarray(dec(ids)).astype(np.uint64)
            bad = np.nonzero(got != c)[0]
            if len(bad):
                i = int(bad[0])
                chk.failing_input(f"{det} field {fname} after compose/decompose", {"detector": det, "fields": {f[0]: int(a[i]) for f, a in zip(fields, args)}, "id": hex(int(ids[i]))},
                                  int(got[i]), int(c[i]), "round trip: decoder(encode(fields)) == field (truncated to width)")
        for name, fn in checks(d).items():
            ok = np.asarray(fn(ids))
            want = name == det
            if not np.all(ok == want):
                i = int(np.nonzero(ok != want)[0][0])
                chk.failing_input(f"check_{name}_id on a {det} identifier", {"id": hex(int(ids[i]))}, bool(ok[i]), want, "identifier passes its own detector's check and no other")


def tof_expected(part, lm, ps, end):
    part, lm, ps, end = (np.asarray(a, dtype=np.uint64) for a in (part, lm, ps, end))
    scint = part < 3
    e_sc = (np.uint64(0x20) << np.uint64(24)) | (part & np.uint64(3)) << np.uint64(14) | (lm & np.uint64(1)) << np.uint64(8) | (ps & np.uint64(0x7F)) << np.uint64(1) | (end & np.uint64(1))
    e_mr = (np.uint64(0x20) << np.uint64(24)) | np.uint64(3) << np.uint64(14) | ((part - np.uint64(3)) & np.uint64(1)) << np.uint64(11) | (lm & np.uint64(0x3F)) << np.uint64(5) | (ps & np.uint64(0xF)) << np.uint64(1) | (end & np.uint64(1))
    return np.where(scint, e_sc, e_mr)


def oracle_tof(chk: core.Check, d, dtype="uint32"):
    """TOF: complete space part 0..7 x module 0..127 x phi/strip 0..255 x end 0..3 (covers over-wide)."""
    p, l, f, e = np.meshgrid(np.arange(8), np.arange(128), np.arange(256), np.arange(4), indexing="ij")
    p, l, f, e = (a.ravel().astype(dtype) for a in (p, l, f, e))
    ids = d.get_tof_digi_id(p, l, f, e)
    exp = tof_expected(p, l, f, e)
    chk.count(len(p), key=f"tof-fields-{dtype}")
    bad = np.nonzero(ids.astype(np.uint64) != exp)[0]
    if len(bad) or ids.dtype != np.uint32:
        i = int(bad[0]) if len(bad) else 0
        chk.failing_input("tof identifier composed from fields", {"part": int(p[i]), "layer_or_module": int(l[i]), "phi_or_strip": int(f[i]), "end": int(e[i]), "dtype": dtype},
                          hex(int(ids[i])), hex(int(exp[i])), "documented TOF layout (scintillator for part<3, MRPC otherwise)")
        return
    part_dec = np.where(p < 3, p, 3 + ((p - 3) & 1)).astype(np.uint64)
    lm_dec = np.where(p < 3, l & 1, l & 0x3F).astype(np.uint64)
    ps_dec = np.where(p < 3, f & 0x7F, f & 0xF).astype(np.uint64)
    got_part = d.tof_id_to_part(ids)
    for nm, got, want in [
        ("part", got_part, part_dec),
        ("layer_or_module(id)", d.tof_id_to_layer_or_module(ids), lm_dec),
        ("layer_or_module(id, part)", d.tof_id_to_layer_or_module(ids, got_part), lm_dec),
        ("phi_or_strip(id)", d.tof_id_to_phi_or_strip(ids), ps_dec),
        ("phi_or_strip(id, part)", d.tof_id_to_phi_or_strip(ids, got_part), ps_dec),
        ("end", d.tof_id_to_end(ids), (e & 1).astype(np.uint64)),
    ]:
        got = np.asarray(got).astype(np.uint64)
        bad = np.nonzero(got != want)[0]
        if len(bad):
            i = int(bad[0])
            chk.failing_input(f"tof {nm} after compose/decompose", {"part": int(p[i]), "layer_or_module": int(l[i]), "phi_or_strip": int(f[i]), "end": int(e[i]), "id": hex(int(ids[i]))},
                              int(got[i]), int(want[i]), "round trip on in-range fields; truncation on over-wide ones")
    for name, fn in checks(d).items():
        ok = np.asarray(fn(ids))
        if not np.all(ok == (name == "tof")):
            i = int(np.nonzero(ok != (name == "tof"))[0][0])
            chk.failing_input(f"check_{name}_id on a tof identifier", {"id": hex(int(ids[i]))}, bool(ok[i]), name == "tof", "identifier passes its own detector's check and no other")


def defined_mask(det, words):
    if det == "mdc":
        return np.full(len(words), 0xFFFF, dtype=np.uint64)
    if det == "emc":
        return np.full(len(words), 0xF3FFF, dtype=np.uint64)
    if det == "muc":
        return np.full(len(words), 0xFFFFF, dtype=np.uint64)
    if det == "cgem":
        return np.full(len(words), 0x7FFFF, dtype=np.uint64)
    if det == "tof":
        return np.where((words >> np.uint64(14)) & np.uint64(3) == 3, np.uint64(0xCFFF), np.uint64(0xC1FF))


def oracle_words(chk: core.Check, d, low: np.ndarray, as_dtype="uint32"):
    """word -> fields -> word reproduces all defined bits, for words with each detector tag."""
    for det, tag in TAGS.items():
        words64 = (np.uint64(tag) << np.uint64(24)) | low.astype(np.uint64)
        words = words64.astype(np.uint32).view(np.int32) if as_dtype == "int32" else words64.astype(as_dtype)
        if det == "tof":
            re = d.get_tof_digi_id(d.tof_id_to_part(words), d.tof_id_to_layer_or_module(words),
                                   d.tof_id_to_phi_or_strip(words), d.tof_id_to_end(words))
        elif det == "mdc":
            re = d.get_mdc_digi_id(d.mdc_id_to_wire(words), d.mdc_id_to_layer(words), d.mdc_id_to_is_stereo(words))
        else:
            re = impl_encode(det, d)(*[dec(words) for dec in impl_decoders(det, d)])
        exp = (words64 & defined_mask(det, words64)) | (np.uint64(tag) << np.uint64(24))
        chk.count(len(low), key=f"words-{det}-{as_dtype}")
        bad = np.nonzero(np.asarray(re).astype(np.uint64) != exp)[0]
        if len(bad):
            i = int(bad[0])
            chk.failing_input(f"{det} word re-composed from its decoded fields", {"word": hex(int(words64[i])), "dtype": as_dtype},
                              hex(int(re[i])), hex(int(exp[i])), "decode then encode reproduces every defined bit of the word")
        ok = np.asarray(checks(d)[det](words))
        if not np.all(ok):
            i = int(np.nonzero(~ok)[0][0])
            chk.failing_input(f"check_{det}_id on a word carrying the {det} tag", {"word": hex(int(words64[i])), "dtype": as_dtype}, False, True, "tag comparison")


def oracle_foreign_tags(chk, d, rng):
    """validity: for every tag byte 0..255 exactly the matching detector accepts."""
    tags = np.repeat(np.arange(256, dtype=np.uint64), 64)
    low = rng.integers(0, 1 << 24, size=len(tags), dtype=np.uint64)
    words = ((tags << np.uint64(24)) | low).astype(np.uint32)
    for name, fn in checks(d).items():
        ok = np.asarray(fn(words))
        want = tags == TAGS[name]
        chk.count(len(words), key=f"tags-{name}")
        if not np.all(ok == want):
            i = int(np.nonzero(ok != want)[0][0])
            chk.failing_input(f"check_{name}_id", {"word": hex(int(words[i]))}, bool(ok[i]), bool(want[i]), "tag byte comparison")


def oracle_wiring(chk, d):
    """python-level glue around the kernels (re-exports and aliases)."""
    import pybes3
    import pybes3.detectors as det
    for n in ["get_mdc_digi_id", "get_tof_digi_id", "get_emc_digi_id", "get_muc_digi_id", "get_cgem_digi_id"]:
        if getattr(det, n) is not getattr(d, n):
            chk.failing_input("re-export", {"name": n}, "different object", "pybes3.detectors." + n + " is digi_id." + n, "same function object")
    w = np.array([0x40012345, 0x400FFFFF, 0x40000000], dtype=np.uint32)
    if not (np.array_equal(d.muc_id_to_gap(w), d.muc_id_to_layer(w)) and np.array_equal(d.muc_id_to_strip(w), d.muc_id_to_channel(w))):
        chk.failing_input("muc aliases", {"words": [hex(int(x)) for x in w]}, "differ", "gap==layer, strip==channel", "documented aliases")
    chk.count(1, key="wiring")


def oracle_histories_and_mixtures(chk: core.Check, d):
    """(a) one field given as a Python int (its largest in-range value), the others as arrays of the narrowest dtype that holds them -
    as when a scalar is broadcast against columns returned by the decoders; (b) one buffer object decoded, refilled in place with identifiers
    of another class (TOF scintillator <-> MRPC, other detector fields), decoded again: results follow the content"""
    maxima = {"mdc": [511, 42, 1], "emc": [2, 43, 119], "muc": [2, 7, 8, 111], "cgem": [2, 1, 1500, 1]}
    for det, mx in maxima.items():
        enc, decs = impl_encode(det, d), impl_decoders(det, d)
        cols = [np.arange(0, m + 1, max(1, (m + 1) // 7)) for m in mx]
        n = min(len(c) for c in cols)
        cols = [c[:n] for c in cols]
        for j, m in enumerate(mx):
            args = [int(m) if k == j else cols[k].astype(np.min_scalar_type(int(cols[k].max()))) for k in range(len(mx))]
            try:
                ids = np.asarray(enc(*args))
            except Exception as ex:
                chk.coverage.setdefault("mixed_representation_unsupported", {})[f"{det}-arg{j}"] = f"{type(ex).__name__}: {str(ex)[:80]}"
                continue
            chk.count(n, key=f"mixed-{det}-{j}")
            for k, dec in enumerate(decs):
                got = np.asarray(dec(ids)).astype(np.int64)
                want = np.full(n, int(m)) if k == j else cols[k].astype(np.int64)
                if not np.array_equal(got, want):
                    i = int(np.nonzero(got != want)[0][0])
                    chk.failing_input(f"{det} identifier composed from a Python int and narrow arrays", {"detector": det, "python_int_field": j, "python_int_value": int(m), "other_fields": [int(c[i]) for c in cols], "dtypes": [str(a.dtype) if hasattr(a, "dtype") else "int" for a in args]},
                                      {"decoded_field": k, "value": int(got[i])}, int(want[i]), "composing an identifier from in-range field values and decomposing it returns the same field values (for every integer input type able to hold the values)")
                    return
    # (b) buffer histories
    sc = np.asarray(d.get_tof_digi_id(np.array([0, 1, 2, 1], dtype=np.uint32), np.array([0, 1, 0, 0], dtype=np.uint32), np.array([5, 87, 47, 3], dtype=np.uint32), np.array([0, 1, 1, 0], dtype=np.uint32)), dtype=np.uint32)
    mr = np.asarray(d.get_tof_digi_id(np.array([3, 4, 3, 4], dtype=np.uint32), np.array([35, 17, 2, 9], dtype=np.uint32), np.array([11, 3, 0, 7], dtype=np.uint32), np.array([0, 1, 1, 0], dtype=np.uint32)), dtype=np.uint32)
    fns = [d.tof_id_to_part, d.tof_id_to_layer_or_module, d.tof_id_to_phi_or_strip, d.tof_id_to_end]
    fresh = {"sc": [np.asarray(f(sc.copy())).tolist() for f in fns], "mr": [np.asarray(f(mr.copy())).tolist() for f in fns]}
    for first, second in (("sc", "mr"), ("mr", "sc")):
        buf = np.array(sc if first == "sc" else mr, dtype=np.uint32)
        r1 = [np.asarray(f(buf)).tolist() for f in fns]
        buf[:] = mr if second == "mr" else sc
        r2 = [np.asarray(f(buf)).tolist() for f in fns]
        chk.count(8, key=f"tof-buffer-history-{first}-{second}")
        if r1 != fresh[first] or r2 != fresh[second]:
            chk.failing_input("TOF decoders on one buffer object refilled in place", {"first_content": [hex(int(x)) for x in (sc if first == "sc" else mr)], "second_content": [hex(int(x)) for x in (mr if second == "mr" else sc)]},
                              {"second_call": dict(zip(["part", "layer_or_module", "phi_or_strip", "end"], r2))}, dict(zip(["part", "layer_or_module", "phi_or_strip", "end"], fresh[second])),
                              "decomposing an identifier returns its field values (whatever was decoded from the same array object before)")
            return
    for det in ("mdc", "emc", "muc", "cgem"):
        enc, decs = impl_encode(det, d), impl_decoders(det, d)
        mx = maxima[det]
        a = np.asarray(enc(*[np.array([0, 1, m // 2, m], dtype=np.uint32) for m in mx]), dtype=np.uint32)
        b = np.asarray(enc(*[np.array([m, m // 3, 1, 0], dtype=np.uint32) for m in mx]), dtype=np.uint32)
        buf = a.copy()
        _ = [np.asarray(f(buf)) for f in decs]
        buf[:] = b
        r2 = [np.asarray(f(buf)).astype(np.int64).tolist() for f in decs]
        want = [np.asarray(f(b.copy())).astype(np.int64).tolist() for f in decs]
        chk.count(4, key=f"{det}-buffer-history")
        if r2 != want:
            chk.failing_input(f"{det} decoders on one buffer object refilled in place", {"first_content": [hex(int(x)) for x in a], "second_content": [hex(int(x)) for x in b]}, r2, want,
                              "decomposing an identifier returns its field values (whatever was decoded from the same array object before)")
            return


DISPATCH_CHILD = r"""
import sys, json
import numpy as np
import pybes3.detectors.digi_id as d
mode = sys.argv[1]
lay = np.array([40, 41], dtype=np.uint8); flg = np.array([1, 0], dtype=np.uint8)
out = {}
if mode == "narrow-first":
    d.get_mdc_digi_id(np.array([5, 6], dtype=np.uint8), lay, flg)          # the only loop compiled so far: (uint8, uint8, uint8)
try:
    ids = d.get_mdc_digi_id(300, lay, flg)                                   # wire 300 is in range (9 bits) and given as a Python int
    out["result"] = [int(x) for x in np.asarray(ids)]
    out["wire"] = [int(x) for x in np.asarray(d.mdc_id_to_wire(ids))]
except Exception as ex:
    out["error"] = f"{type(ex).__name__}: {ex}"
print(json.dumps(out))
"""


def dispatch_history(chk: core.Check):
    """the same in-range call `get_mdc_digi_id(300, uint8 layers, uint8 flags)` in two fresh processes with an empty private numba cache:
    (A) after a first call with uint8 arrays only, (B) as the first call.  Both must return identifiers that decode to wire 300."""
    import shutil
    import subprocess
    import tempfile
    res = {}
    for mode in ("narrow-first", "cold"):
        cache = tempfile.mkdtemp(prefix="c05-dispatch-")
        try:
            p = subprocess.run([core.PY, "-c", DISPATCH_CHILD, mode], capture_output=True, text=True, timeout=900, env=dict(__import__("os").environ, NUMBA_CACHE_DIR=cache))
            res[mode] = json.loads(p.stdout.strip().splitlines()[-1]) if p.returncode == 0 and p.stdout.strip() else {"error": "child failed: " + p.stderr[-300:]}
        finally:
            shutil.rmtree(cache, ignore_errors=True)
    chk.count(2, key="dispatch-history")
    chk.coverage["dispatch_history"] = res
    for mode, r in res.items():
        ok = r.get("wire") == [300, 300]
        if not ok:
            fk = None
            if mode == "narrow-first" and "OverflowError" in str(r.get("error", "")) and res.get("cold", {}).get("wire") == [300, 300]:
                fk = {"key": "python-int-with-narrow-arrays-after-narrow-loop"}
            chk.failing_input("get_mdc_digi_id(300, uint8 layers, uint8 flags) in a fresh process" + (" whose only earlier call used uint8 arrays" if mode == "narrow-first" else " as its first call"),
                              {"call": "get_mdc_digi_id(300, np.array([40, 41], dtype=np.uint8), np.array([1, 0], dtype=np.uint8))", "history": mode}, r, {"wire": [300, 300]},
                              "composing an identifier from in-range field values and decomposing it returns the same field values, for every integer input type able to hold the values", finding_key=fk)


def run_oracles(chk: core.Check, thorough: bool):
    d = _digi()
    rng = np.random.default_rng(chk.seed + 5)
    lim = None if thorough else 1 << 16
    for dt in (["uint32", "int64", "uint64", "int32"] if thorough else ["uint32", "int64"]):
        oracle_fields(chk, d, overwide=False, dtype=dt, limit=lim, rng=rng)
    oracle_fields(chk, d, overwide=True, limit=lim, rng=rng)
    oracle_tof(chk, d, "uint32")
    oracle_tof(chk, d, "int64")
    if thorough:
        for lo in range(0, 1 << 24, 1 << 22):
            low = np.arange(lo, lo + (1 << 22), dtype=np.uint64)
            oracle_words(chk, d, low, "uint32")
        oracle_words(chk, d, rng.integers(0, 1 << 24, size=1 << 20, dtype=np.uint64), "int32")
        oracle_words(chk, d, rng.integers(0, 1 << 24, size=1 << 20, dtype=np.uint64), "int64")
    else:
        low = np.concatenate([rng.integers(0, 1 << 24, size=1 << 18, dtype=np.uint64), np.array([0, (1 << 24) - 1], dtype=np.uint64)])
        oracle_words(chk, d, low, "uint32")
        oracle_words(chk, d, low[: 1 << 14], "int32")
    oracle_foreign_tags(chk, d, rng)
    oracle_wiring(chk, d)
    oracle_histories_and_mixtures(chk, d)
    dispatch_history(chk)


# ------------------------------------------------------------------------------------------------
# correspondence: Lean kernels vs numba kernels
# ------------------------------------------------------------------------------------------------
def correspond(chk: core.Check, info, thorough: bool):
    d = _digi()
    rng = np.random.default_rng(chk.seed)
    kd = KernelDiff(chk)
    n = 1024 if thorough else 192
    interesting = [0x10000000, 0x20000000, 0x30000000, 0x40000000, 0x60000000, 0xFFFFFFFF, 0x2000C800, 0x8000, 0x7E00, 0x1FF, 0xC000, 0x800]
    for name, k in info["kernels"].items():
        fn = getattr(d, name)
        nargs = len(k["params"])
        for dt in INT_DTYPES:
            args = [structured_values(rng, dt, n, interesting) for _ in range(nargs)]
            if nargs == 1 and np.dtype(dt).itemsize >= 4:
                # tagged words: make most inputs carry a real tag
                tags = rng.choice([0x10, 0x20, 0x30, 0x40, 0x60, 0x50, 0x70, 0x00, 0xFF], size=n).astype(np.uint64)
                low = rng.integers(0, 1 << 24, size=n, dtype=np.uint64)
                w = ((tags << np.uint64(24)) | low)
                w32 = w.astype(np.uint32)
                tagged = w32.view(np.int32).astype(dt) if np.dtype(dt).kind == "i" else w32.astype(dt)
                args[0][: n * 3 // 4] = tagged[: n * 3 // 4]
            elif nargs > 1:
                # mostly small field-like values
                for a in args:
                    small = rng.integers(0, 300, size=n)
                    info_ = np.iinfo(dt)
                    small = np.clip(small, int(info_.min), int(info_.max)).astype(dt)
                    pick = rng.random(n) < 0.6
                    a[pick] = small[pick]
            kd.add_call(name, fn, k["ordered"], dt, args)
        # python ints / bools (scalar calls)
        for _ in range(8):
            vals = [int(rng.integers(-5, 70000)) for _ in range(nargs)]
            try:
                r = fn(*vals)
            except Exception:
                continue
            kd.add_call(name, lambda *a: np.asarray([fn(*[int(x[0]) for x in a])]), k["ordered"], "pyint",
                        [np.array([v], dtype=np.int64) for v in vals])
    # booleans for the flag-valued arguments
    b = np.array([True, False] * 8)
    st = np.arange(16, dtype=np.uint32)
    kd.add_call("get_cgem_digi_id", lambda l, s, t, x: d.get_cgem_digi_id(l, s, t, x.astype(bool)), False, "uint32",
                [st % 3, st % 2, st * 100, b.astype(np.uint32)])
    kd.add_call("get_mdc_digi_id", lambda w, l, x: d.get_mdc_digi_id(w, l, x.astype(bool)), False, "uint32",
                [st * 17, st * 2, b.astype(np.uint32)])
    # complete MDC / TOF field spaces through the Lean model too (thorough)
    if thorough:
        w, l, t = np.meshgrid(np.arange(512), np.arange(64), np.arange(2), indexing="ij")
        kd.add_call("get_mdc_digi_id", d.get_mdc_digi_id, False, "uint32", [a.ravel().astype(np.uint32) for a in (w, l, t)])
        p, l, f, e = np.meshgrid(np.arange(5), np.arange(64), np.arange(128), np.arange(2), indexing="ij")
        kd.add_call("get_tof_digi_id", d.get_tof_digi_id, True, "uint32", [a.ravel().astype(np.uint32) for a in (p, l, f, e)])
    diffs = kd.run()
    chk.coverage["dtype_skips"] = kd.skipped
    for s in kd.lines[:3] + kd.lines[len(kd.lines) // 2: len(kd.lines) // 2 + 2]:
        chk.sample({"lean_driver_call": s})
    return diffs


def main(chk: core.Check) -> int:
    thorough = chk.tier == "thorough"
    chk.coverage["rule"] = ("evaluations = kernel calls compared Lean<->numba plus identifiers/words pushed through the real "
                            "kernels and judged by the documented layout; distinct_nontrivial counts distinct "
                            "(oracle, detector, dtype) classes exercised")
    chk.assumptions += [
        "numba widens every integer operand to 64-bit two's complement (validated by the differential pass on 8 dtypes + Python ints + bools)",
        "translator tools/translate/kernels.py (hash %s)" % core.sha(core.VERIF / "tools/translate/kernels.py"),
        "bv_decide: one <theorem>._native.bv_decide.ax_* axiom per theorem (LRAT certificate checked by compiled code)",
    ]
    g = gen.gen_digi()
    if not g["ok"]:
        chk.obligation_broken("translator", "translate digi_id.py", g["error"])
    else:
        chk.prove(extra_allowed=bv_axiom_ok)
        try:
            diffs = correspond(chk, g["info"], thorough)
            chk.coverage["traces_validated_against_impl"] = chk.evals
            if diffs:
                chk.obligation_broken("correspondence", "Lean kernel vs numba kernel", str(diffs[:5]))
                chk.coverage["first_disagreements"] = diffs[:5]
        except core.DriverError as ex:
            chk.obligation_broken("correspondence", "Lean kernel driver", str(ex))
    # the property's own oracle on the real kernels (cheap, so it always runs; it is also the search)
    def search():
        run_oracles(chk, True)
    try:
        run_oracles(chk, thorough)
    except Exception as ex:  # the implementation itself failing (e.g. a kernel no longer compiles) is a finding
        chk.obligation_broken("correspondence", "oracle run on implementation", f"{type(ex).__name__}: {ex}")
    return chk.finish(search if not thorough else None)


def replay(payload) -> int:
    import json
    print(json.dumps(payload, indent=1))
    d = _digi()
    inp = payload.get("input", {})
    if "fields" in inp and "detector" in inp:
        ids = impl_encode(inp["detector"], d)(*[np.int64(v) for v in inp["fields"].values()])
        print("implementation now returns", hex(int(ids)), "expected", payload.get("expected"))
    elif "word" in inp:
        w = np.uint32(int(inp["word"], 16) & 0xFFFFFFFF)
        print({n: bool(f(w)) for n, f in checks(d).items()})
    return 0
