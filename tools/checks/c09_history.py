"""Child process of the C09 check (private NUMBA_CACHE_DIR): histories of table retrieval, in-place modification by
the caller and lookups, on the real module.  Prints one JSON object."""
import json
import sys

import numpy as np

import pybes3
import pybes3.detectors.geometry.mdc as mdc
import pybes3.detectors.geometry.emc as emc

out = {"failures": [], "steps": 0}
gdir = __import__("pathlib").Path(mdc.__file__).parent
npz_m = dict(np.load(gdir / "mdc_geom.npz"))
npz_e = dict(np.load(gdir / "emc_geom.npz"))
G = np.arange(6796)
C = np.arange(6240)


def snapshot(dt, group=None):
    """lookups of every accessor (group None) or of every second one (group 0 / 1), with index dtype `dt`"""
    full = _snapshot_all(dt, group)
    return full


def _in(group, counter):
    counter[0] += 1
    return group is None or counter[0] % 2 == group


def _snapshot_all(dt, group):
    s = {}
    c = [0]
    for k in ["superlayer", "layer", "wire", "stereo", "is_stereo", "west_x", "west_y", "west_z", "east_x", "east_y", "east_z"]:
        if _in(group, c):
            s["mdc." + k] = np.asarray(getattr(pybes3, "mdc_gid_to_" + k)(G.astype(dt)))
    for k in ["part", "theta", "phi", "center_x", "center_y", "center_z", "front_center_x", "front_center_y", "front_center_z"]:
        if _in(group, c):
            s["emc." + k] = np.asarray(getattr(pybes3, "emc_gid_to_" + k)(C.astype(dt)))
    for ax in "xyz":
        if _in(group, c):
            for p in range(8):
                s[f"emc.points_{ax}_{p}"] = np.asarray(getattr(pybes3, "emc_gid_to_point_" + ax)(C.astype(dt), np.full(len(C), p, dtype=dt)))
    if _in(group, c):
        s["mdc.z_to_x"] = np.asarray(pybes3.mdc_gid_z_to_x(G.astype(dt), np.full(len(G), 12.5)))
    return s


def published():
    s = {"mdc." + k: npz_m[k] for k in ["superlayer", "layer", "wire", "stereo", "is_stereo", "west_x", "west_y", "west_z", "east_x", "east_y", "east_z"]}
    s.update({"emc." + k: npz_e[k] for k in ["part", "theta", "phi", "center_x", "center_y", "center_z", "front_center_x", "front_center_y", "front_center_z"]})
    for ax in "xyz":
        for p in range(8):
            s[f"emc.points_{ax}_{p}"] = npz_e["points_" + ax][:, p]
    return s


def compare(tag, snap, ref):
    for k, v in ref.items():
        if k not in snap:
            continue
        out["steps"] += 1
        a = np.asarray(snap[k])
        if a.shape != v.shape or not np.array_equal(a.astype(np.float64), v.astype(np.float64)):
            i = int(np.nonzero(a.astype(np.float64) != v.astype(np.float64))[0][0]) if a.shape == v.shape else -1
            out["failures"].append({"history": tag, "lookup": k, "element": i, "got": float(a[i]) if i >= 0 else str(a.shape), "published": float(v[i]) if i >= 0 else str(v.shape)})
            return False
    return True


ref = published()
# numba reuses a compiled loop for every dtype that casts safely to it (int32 -> int64 ...): a kernel is compiled *after* a table was handed
# out only if it has not been called at all before (group 1 below), or if it is called with uint64 (no safe cast to the int64 loop)
first = snapshot("int64", group=0)          # half of the kernels compiled (int64) BEFORE any table is handed out
ref["mdc.z_to_x"] = np.asarray(npz_m["west_x"] + (npz_m["east_x"] - npz_m["west_x"]) / (npz_m["east_z"] - npz_m["west_z"]) * (12.5 - npz_m["west_z"]))
compare("initial lookups (int64)", first, {k: v for k, v in ref.items() if k != "mdc.z_to_x"})


def mutate(tbl, lib):
    """modify every returned column in place"""
    if lib == "np":
        for k, v in tbl.items():
            v += np.asarray(7).astype(v.dtype)
    elif lib == "ak":
        import awkward as ak
        for k in tbl.fields:
            arr = np.asarray(ak.to_numpy(tbl[k], allow_missing=False))
            try:
                arr += np.asarray(7).astype(arr.dtype)
            except ValueError:
                pass          # read-only view: nothing to modify
    else:
        for k in tbl.columns:
            a = tbl[k].to_numpy(copy=False)
            try:
                a += np.asarray(7).astype(a.dtype)
            except ValueError:
                pass


libs = ["np", "ak"]
try:
    import pandas  # noqa: F401
    libs.append("pd")
except ImportError:
    pass
def columns_of(tbl, lib):
    if lib == "np":
        return {k: np.asarray(v) for k, v in tbl.items()}
    if lib == "ak":
        import awkward as ak
        return {k: np.asarray(ak.to_numpy(tbl[k], allow_missing=False)) for k in tbl.fields}
    return {k: tbl[k].to_numpy() for k in tbl.columns}


def table_vs_published(lib, t_mdc, t_emc):
    """every column of the handed-out tables (any library) is the published column, same names, same order, nothing missing"""
    cm, ce = columns_of(t_mdc, lib), columns_of(t_emc, lib)
    want_m = {k: npz_m[k] for k in npz_m}
    want_e = {k: npz_e[k] for k in ["gid", "center_x", "center_y", "center_z", "front_center_x", "front_center_y", "front_center_z"]}
    for i in range(8):
        for ax in "xyz":
            want_e[f"points_{ax}_{i}"] = npz_e["points_" + ax][:, i]
    for name, got, want in (("get_mdc_wire_position", cm, want_m), ("get_emc_crystal_position", ce, want_e)):
        out["steps"] += 1
        if name == "get_emc_crystal_position" and list(got) != list(want):
            out["failures"].append({"history": f"{name}(library={lib!r})", "lookup": "column names", "element": -1, "got": str(list(got))[:300], "published": str(list(want))[:300]})
            continue
        for k, v in want.items():
            out["steps"] += 1
            if k not in got:
                out["failures"].append({"history": f"{name}(library={lib!r})", "lookup": f"column {k!r}", "element": -1, "got": "missing", "published": "present"})
                break
            a = np.asarray(got[k])
            if a.shape != v.shape or not np.array_equal(a.astype(np.float64), np.asarray(v).astype(np.float64)):
                i = int(np.nonzero(a.astype(np.float64) != np.asarray(v).astype(np.float64))[0][0]) if a.shape == v.shape else -1
                out["failures"].append({"history": f"{name}(library={lib!r})", "lookup": f"column {k!r}", "element": i, "got": float(a[i]) if i >= 0 else str(a.shape), "published": float(v[i]) if i >= 0 else str(v.shape)})
                break


for lib in libs:
    t1 = pybes3.get_mdc_wire_position(library=lib)
    t2 = pybes3.get_emc_crystal_position(library=lib)
    table_vs_published(lib, t1, t2)
    mutate(t1, lib)
    mutate(t2, lib)
    compare(f"get tables ({lib}); modify every column in place; lookups with already compiled kernels (int32 input)", snapshot("int32", group=0), ref)
    late = {"np": ("int64", 1), "ak": ("uint64", 0), "pd": ("uint64", 1)}.get(lib, ("uint64", None))
    compare(f"get tables ({lib}); modify every column in place; lookups with kernels compiled only now ({late[0]}, accessor group {late[1]})", snapshot(late[0], group=late[1]), ref)
    # a second retrieval must hand out published values again
    again_m = pybes3.get_mdc_wire_position(library="np")
    again_e = pybes3.get_emc_crystal_position(library="np")
    for k in ["west_x", "layer", "stereo", "east_z"]:
        out["steps"] += 1
        if not np.array_equal(again_m[k], npz_m[k]):
            out["failures"].append({"history": f"get tables ({lib}); modify; get again", "lookup": "get_mdc_wire_position()[%r]" % k, "element": 0, "got": float(again_m[k][0]), "published": float(npz_m[k][0])})
    for ax in "xyz":
        for p in range(8):
            out["steps"] += 1
            if not np.array_equal(again_e[f"points_{ax}_{p}"], npz_e["points_" + ax][:, p]):
                out["failures"].append({"history": f"get tables ({lib}); modify; get again", "lookup": f"get_emc_crystal_position()['points_{ax}_{p}']", "element": 0, "got": float(again_e[f'points_{ax}_{p}'][0]), "published": float(npz_e['points_' + ax][0, p])})
    for k in ["center_x", "front_center_z", "gid"]:
        out["steps"] += 1
        if not np.array_equal(again_e[k], npz_e[k]):
            out["failures"].append({"history": f"get tables ({lib}); modify; get again", "lookup": "get_emc_crystal_position()[%r]" % k, "element": 0, "got": float(again_e[k][0]), "published": float(npz_e[k][0])})
print(json.dumps(out))
