/- Line protocol driver for the TObjArray stream model (bytes as hex, two digits each).
   TOA <kind-spec> <n_entries> <len_0> ... <hex>  -> `OK offsets=0,.. values=<leaf values in reading order>` | `ERROR`
   FRAME <n_entries> <len_0> ... <hex>            -> `OK counts=c0,c1,...` | `ERROR`   (skips each object body by its byte count)
   CGEM <n_entries> <len_0> ... <hex>             -> `OK offsets=.. ints=.. doubles=.. flags=.. strips=.. version=v` | `ERROR`
   DIGI <field names, TRawData(sub1,sub2) for the nested record>  -> resulting field names after process_digi_subbranch
   kind-spec: b h i l f d T A<n>(<kind>) C(<kinds>)  (as in native/root_native.cc) -/
import Pybes3Verif.Model.TObjArray
open Pybes3Verif.Root

partial def parseKind (cs : List Char) : Option (Kind × List Char) :=
  match cs with
  | 'b' :: r => some (.i8, r)
  | 'h' :: r => some (.i16, r)
  | 'i' :: r => some (.i32, r)
  | 'f' :: r => some (.f32, r)
  | 'l' :: r => some (.i64, r)
  | 'd' :: r => some (.f64, r)
  | 'T' :: r => some (.tobject, r)
  | 'A' :: r =>
    let ds := r.takeWhile Char.isDigit
    match (String.ofList ds).toNat?, r.drop ds.length with
    | some n, '(' :: r2 =>
      match parseKind r2 with
      | some (k, ')' :: r3) => some (.arr n k, r3)
      | _ => none
    | _, _ => none
  | 'C' :: '(' :: r =>
    let rec go (cs : List Char) (acc : List Kind) : Option (List Kind × List Char) :=
      match cs with
      | ')' :: r => some (acc.reverse, r)
      | _ => match parseKind cs with
        | some (k, r) => go r (k :: acc)
        | none => none
    match go r [] with
    | some (ks, r2) => some (.cls ks, r2)
    | none => none
  | _ => none

partial def leaves : Val → List Nat
  | .bits v => [v]
  | .unit => []
  | .list vs => vs.flatMap leaves

def hexVal (c : Char) : Nat :=
  if c.isDigit then c.toNat - '0'.toNat else if 'a' ≤ c ∧ c ≤ 'f' then c.toNat - 'a'.toNat + 10 else c.toNat - 'A'.toNat + 10

partial def unhex (cs : List Char) : List Nat :=
  match cs with
  | a :: b :: r => (hexVal a * 16 + hexVal b) :: unhex r
  | _ => []

def splitEntries (bytes : List Nat) (lens : List Nat) : List (List Nat) :=
  (lens.foldl (fun (acc : List (List Nat) × List Nat) l => (acc.1 ++ [acc.2.take l], acc.2.drop l)) ([], bytes)).1

def csv (xs : List Nat) : String := ",".intercalate (xs.map toString)

def offsetsOf (counts : List Nat) : List Nat := counts.foldl (fun acc c => acc ++ [acc.getLast! + c]) [0]

/-- framing mode: an object is its header plus a body that is skipped by the byte count found at its start
(AnyClassReader layout: fNBytes | body) -/
def frameElem : P Unit := do
  let nb ← readNBytes
  skip nb

/-- fields of a record given as `a b TRawData(x,y) c` -/
def parseFields (toks : List String) : List (String × Col Unit) :=
  toks.map (fun t =>
    if t.startsWith "TRawData(" then
      let inner := (t.drop 9).dropEnd 1 |>.toString
      ("TRawData", Col.record ((inner.splitOn ",").filter (· ≠ "") |>.map (fun n => (n, Col.leaf ()))))
    else (t, Col.leaf ()))

def step (line : String) : String :=
  match (line.splitOn " ").filter (· ≠ "") with
  | "TOA" :: spec :: n :: rest =>
    match parseKind spec.toList, n.toNat? with
    | some (k, []), some n =>
      match (rest.take n).mapM (fun s => s.toNat?) with
      | some lens =>
        let bytes := unhex ((rest.drop n).headD "").toList
        match readEntries (readTObjArray (readKind k)) (splitEntries bytes lens) with
        | some evs => "OK offsets=" ++ csv (offsetsOf (evs.map List.length)) ++ " values=" ++ csv (evs.flatMap (fun e => e.flatMap leaves))
        | none => "ERROR"
      | none => "BAD"
    | _, _ => "BAD"
  | "FRAME" :: n :: rest =>
    match n.toNat? with
    | some n =>
      match (rest.take n).mapM (fun s => s.toNat?) with
      | some lens =>
        let bytes := unhex ((rest.drop n).headD "").toList
        match readEntries (readTObjArray frameElem) (splitEntries bytes lens) with
        | some evs => "OK counts=" ++ csv (evs.map List.length)
        | none => "ERROR"
      | none => "BAD"
    | none => "BAD"
  | "CGEM" :: n :: rest =>
    match n.toNat? with
    | some n =>
      match (rest.take n).mapM (fun s => s.toNat?) with
      | some lens =>
        let bytes := unhex ((rest.drop n).headD "").toList
        let r := (splitEntries bytes lens).foldl (fun (acc : Option (List (List Cluster) × Option Nat)) bs =>
          match acc with
          | none => none
          | some (evs, v) =>
            match (readCgemCol v).run bs with
            | some ((cs, v'), []) => some (evs ++ [cs], v')
            | _ => none) (some ([], none))
        match r with
        | some (evs, v) =>
          let cs := evs.flatten
          "OK offsets=" ++ csv (offsetsOf (evs.map List.length)) ++ " ints=" ++ csv (cs.flatMap (·.ints)) ++ " doubles=" ++ csv (cs.flatMap (·.doubles))
            ++ " flags=" ++ csv (cs.flatMap (·.clusterFlag)) ++ " strips=" ++ csv (cs.flatMap (·.stripID)) ++ " version=" ++ toString (v.getD 99)
        | none => "ERROR"
      | none => "BAD"
    | none => "BAD"
  | "DIGI" :: toks => " ".intercalate ((processDigi (parseFields toks)).map (·.1))
  | _ => "BAD"

partial def loop (h : IO.FS.Stream) (out : IO.FS.Stream) : IO Unit := do
  let line ← h.getLine
  if line.isEmpty then return ()
  out.putStrLn (step (line.trimAscii.toString))
  loop h out

def main : IO Unit := do loop (← IO.getStdin) (← IO.getStdout)
