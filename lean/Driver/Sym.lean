/- Line protocol driver for the symmetric-matrix reader model.
   SYM <flat> <dim> <n_objects> <n_objects*flat values>  -> `OK v v v ...` | `REJECT` (constructor throws) | `OOB`
   DIM <flat>                                           -> fullDim flat -/
import Pybes3Verif.Model.SymMatrix
import Pybes3Verif.Gen.SymIndex
open Pybes3Verif.SymMatrix Pybes3Verif.Gen.SymIndex

def step (line : String) : String :=
  match (line.splitOn " ").filter (· ≠ "") with
  | "SYM" :: args =>
    match args.mapM (fun s => s.toNat?) with
    | some (flat :: dim :: n :: vals) =>
      if !(accepts idx flat dim) then "REJECT"
      else match expandMany idx flat dim vals n with
        | some m => "OK " ++ " ".intercalate (m.map toString)
        | none => "OOB"
    | _ => "BAD"
  | ["DIM", f] => match f.toNat? with | some f => toString (fullDim f) | none => "BAD"
  | _ => "BAD"

partial def loop (h : IO.FS.Stream) (out : IO.FS.Stream) : IO Unit := do
  let line ← h.getLine
  if line.isEmpty then return ()
  out.putStrLn (step (line.trimAscii.toString))
  loop h out

def main : IO Unit := do loop (← IO.getStdin) (← IO.getStdout)
