/- Line protocol driver for generated integer kernels.
   input : `<kernel-name> <u64> <u64> ...` one call per line (decimal, already sign/zero-extended to 64 bit)
   output: `<u64>` or `ERR` -/
import Pybes3Verif.Gen.DigiId
import Pybes3Verif.Gen.Mdc
import Pybes3Verif.Gen.Emc

open Pybes3Verif.Gen

def dispatchAll (name : String) (a : List (BitVec 64)) : Option (BitVec 64) :=
  (DigiId.dispatch name a) <|> (Mdc.dispatch name a) <|> (Emc.dispatch name a)

def step (line : String) : String :=
  match (line.splitOn " ").filter (· ≠ "") with
  | [] => "ERR"
  | name :: args =>
    match args.mapM (fun s => s.toNat?) with
    | none => "ERR"
    | some ns =>
      match dispatchAll name (ns.map (BitVec.ofNat 64)) with
      | some r => toString r.toNat
      | none => "ERR"

partial def loop (h : IO.FS.Stream) (out : IO.FS.Stream) : IO Unit := do
  let line ← h.getLine
  if line.isEmpty then return ()
  out.putStrLn (step (line.trimAscii.toString))
  loop h out

def main : IO Unit := do
  let out ← IO.getStdout
  loop (← IO.getStdin) out
