/- Line protocol driver for the reader-loop model (blocks are numbered 0..N-1; decoding a batch = its block numbers).
   `<N> <perBatch> <nBlocks or -1> <startCursor> <sched...>` -> `batches=<sizes,...> result=<block ids,...> cursor=<final>` | `FUEL` -/
import Pybes3Verif.Model.RawReader
open Pybes3Verif.RawReader

def step (line : String) : String :=
  match ((line.splitOn " ").filter (· ≠ "")) with
  | n :: pb :: nb :: c :: sched =>
    match n.toNat?, pb.toNat?, c.toNat?, sched.mapM (fun s => s.toNat?) with
    | some n, some pb, some c, some sched =>
      let nBlocks : Option Nat := if nb == "-1" then none else nb.toNat?
      let r : Reader Nat := { blocks := List.range n, cursor := c }
      let r0 : Reader Nat := { r with cursor := 0 }
      match submitLoop pb nBlocks (n + 2) r0 0, arrays (fun b => b) pb nBlocks sched (n + 2) r with
      | some (bs, _), some (out, r') =>
        "batches=" ++ ",".intercalate (bs.map (fun b => toString b.length)) ++ " result=" ++ ",".intercalate (out.map toString) ++
          " cursor=" ++ toString r'.cursor
      | _, _ => "FUEL"
    | _, _, _, _ => "BAD"
  | _ => "BAD"

partial def loop (h : IO.FS.Stream) (out : IO.FS.Stream) : IO Unit := do
  let line ← h.getLine
  if line.isEmpty then return ()
  out.putStrLn (step (line.trimAscii.toString))
  loop h out

def main : IO Unit := do loop (← IO.getStdin) (← IO.getStdout)
