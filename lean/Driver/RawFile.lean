/- Line protocol driver for the file-level model (Python framing + batch loop + C++ parser model).
   input : `<sel_mask> <perBatch> <nBlocks or -1> <sched,comma-separated or -> <file bytes as hex>`
   or    : `C <sel_mask> <perBatch> <sched> <file 1 hex> <file 2 hex> ...`  (concatenate of several files)
   output: `OK <nblocks found> {json}` | `NONE-FRAMING` (an assertion of the framing fails) | `NONE-PARSE` -/
import Pybes3Verif.Model.RawFile
import Pybes3Verif.Model.RawConcat
import Pybes3Verif.Util.RawRender
open Pybes3Verif.Raw Pybes3Verif.Raw.Render Pybes3Verif.RawFile

def hexVal (c : Char) : Nat :=
  if '0' ≤ c ∧ c ≤ '9' then c.toNat - 48 else if 'a' ≤ c ∧ c ≤ 'f' then c.toNat - 87 else 0

def hexBytes : List Char → List Nat
  | a :: b :: rest => (16 * hexVal a + hexVal b) :: hexBytes rest
  | _ => []

def step (line : String) : String :=
  match ((line.splitOn " ").filter (· ≠ "")) with
  | "C" :: m :: pb :: sched :: hexes =>
    -- concatenate(files): `C <sel_mask> <perBatch> <sched> <hex of file 1> <hex of file 2> ...`
    match m.toNat?, pb.toNat?, (if sched == "-" then some [] else (sched.splitOn ",").mapM (fun s => s.toNat?)) with
    | some m, some pb, some sched =>
      let sel := selOfMask m
      match concatModel sel pb sched (hexes.map (fun h => hexBytes h.toList)) with
      | none => "NONE"
      | some evs => "OK " ++ toString evs.length ++ " " ++ render (effectiveSel sel) evs
    | _, _, _ => "BAD"
  | [m, pb, nb, sched, hex] =>
    match m.toNat?, pb.toNat?, (if sched == "-" then some [] else (sched.splitOn ",").mapM (fun s => s.toNat?)) with
    | some m, some pb, some sched =>
      let nBlocks : Option Nat := if nb == "-1" then none else nb.toNat?
      let file := hexBytes hex.toList
      let sel := selOfMask m
      match fileBlocks file with
      | none => "NONE-FRAMING"
      | some blocks =>
        match arraysModel sel pb nBlocks sched file with
        | none => "NONE-PARSE"
        | some evs => "OK " ++ toString blocks.length ++ " " ++ render (effectiveSel sel) evs
    | _, _, _ => "BAD"
  | _ => "BAD"

partial def loop (h : IO.FS.Stream) (out : IO.FS.Stream) : IO Unit := do
  let line ← h.getLine
  if line.isEmpty then return ()
  out.putStrLn (step (line.trimAscii.toString))
  loop h out

def main : IO Unit := do loop (← IO.getStdin) (← IO.getStdout)
