/- Line protocol driver for the final_array model: events are numbered 0..n-1 and laid out in baskets of the given sizes.
   `FA <a> <b> <size_0> <size_1> ...`  ->  `OK i j k ...` | `NONE`
   `RO <count_0> <count_1> ... | <count_0'> ...` (two baskets of events with the given object counts)
        -> offsets and event sizes of concatOffsets (readerOut e1) (readerOut e2) -/
import Pybes3Verif.Model.FinalArray
open Pybes3Verif.FinalArray

def mkBaskets (sizes : List Nat) : List (List Nat) :=
  (sizes.foldl (fun (acc : List (List Nat) × Nat) s => (acc.1 ++ [(List.range s).map (· + acc.2)], acc.2 + s)) ([], 0)).1

def mkEvents (counts : List Nat) (base : Nat) : List (List Nat) :=
  (counts.foldl (fun (acc : List (List Nat) × Nat) c => (acc.1 ++ [(List.range c).map (· + acc.2)], acc.2 + c)) ([], base)).1

def step (line : String) : String :=
  match (line.splitOn " ").filter (· ≠ "") with
  | "FA" :: a :: b :: sizes =>
    match a.toNat?, b.toNat?, sizes.mapM (fun s => s.toNat?) with
    | some a, some b, some sizes =>
      match finalArray (mkBaskets sizes) a b with
      | some l => "OK " ++ " ".intercalate (l.map toString)
      | none => "NONE"
    | _, _, _ => "BAD"
  | "RO" :: rest =>
    let parts := rest.splitOn "|"
    match parts with
    | [p1, p2] =>
      match p1.mapM (fun s => s.toNat?), p2.mapM (fun s => s.toNat?) with
      | some c1, some c2 =>
        let e1 := mkEvents c1 0
        let e2 := mkEvents c2 (c1.foldl (· + ·) 0)
        let r := concatOffsets (readerOut e1) (readerOut e2)
        "offsets=" ++ ",".intercalate (r.1.map toString) ++ " events=" ++ ";".intercalate ((toEvents r).map (fun e => ",".intercalate (e.map toString)))
      | _, _ => "BAD"
    | _ => "BAD"
  | _ => "BAD"

partial def loop (h : IO.FS.Stream) (out : IO.FS.Stream) : IO Unit := do
  let line ← h.getLine
  if line.isEmpty then return ()
  out.putStrLn (step (line.trimAscii.toString))
  loop h out

def main : IO Unit := do loop (← IO.getStdin) (← IO.getStdout)
