/- Line protocol driver for the numba-cache model. One operation per line; after every operation the
   driver prints the surviving cache files as `t:kernel:sig` (`i` for the index file) in list (= glob) order, and flags:
     touch t | spawn | load p t | use p t kernel sig | check | check k | force
   output: `files=<t:name,...> mtimefresh=<0|1> contentfresh=<0|1>` -/
import Pybes3Verif.Model.Cache
open Pybes3Verif.Cache

def parseOp (ws : List String) : Option Op :=
  match ws with
  | ["touch", t] => t.toNat?.map Op.touchTable
  | ["spawn"] => some .spawn
  | ["load", p, t] => do let p ← p.toNat?; let t ← t.toNat?; pure (.load p t)
  | ["use", p, t, k, sg] => do let p ← p.toNat?; let t ← t.toNat?; let k ← k.toNat?; let sg ← sg.toNat?; pure (.firstUse p t k sg)
  | ["check"] => some (.importCheck none)
  | ["check", k] => k.toNat?.map (fun k => Op.importCheck (some k))
  | ["force"] => some .forceClear
  | _ => none

def decMtimeFresh (s : St) : Bool := s.files.all (fun f => decide (s.tableMtime f.table ≤ f.mtime))
def decContentFresh (s : St) : Bool := s.files.all (fun f => !f.isData || decide (f.builtFrom = s.tableVersion f.table))

def render (s : St) : String :=
  "files=" ++ ",".intercalate (s.files.map (fun f => toString f.table ++ ":" ++ toString f.kernel ++ ":" ++
      (match f.sig with | none => "i" | some g => toString g) ++ "@" ++ toString f.mtime)) ++
    " mtimefresh=" ++ (if decMtimeFresh s then "1" else "0") ++ " contentfresh=" ++ (if decContentFresh s then "1" else "0")

partial def loop (h : IO.FS.Stream) (out : IO.FS.Stream) (s : St) : IO Unit := do
  let line ← h.getLine
  if line.isEmpty then return ()
  let ws := (line.trimAscii.toString.splitOn " ").filter (· ≠ "")
  if ws == ["reset"] then
    out.putStrLn "reset"
    loop h out init
  else
    match parseOp ws with
    | none => out.putStrLn "BAD"; loop h out s
    | some op =>
      let s' := step s op
      out.putStrLn (render s')
      loop h out s'

def main : IO Unit := do loop (← IO.getStdin) (← IO.getStdout) init
