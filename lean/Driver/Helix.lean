/- Line protocol driver for the helix model on `Float`.
   All numbers are IEEE-754 bit patterns (decimal uint64) in and out.
   cp  dr phi0 kappa dz tanl x y z x' y' z'  -> dr' phi0' dz' dphi J00 J01 J02 J10 J11 J12 J30 J31 J32 J34
   pos dr phi0 kappa dz tanl x y z           -> x y z
   mom dr phi0 kappa dz tanl                 -> pt phi pz charge radius
   fp  px py pz  pt phi pz  q  x0 y0 z0      -> dr phi0 kappa dz tanl
   prop <25 J entries row-major> <25 E entries> -> 25 entries of J E J^T  -/
import Pybes3Verif.Model.Helix
open Pybes3Verif.Helix

def fl (n : Nat) : Float := Float.ofBits n.toUInt64
def bits (x : Float) : String := toString x.toBits.toNat

def outList (xs : List Float) : String := " ".intercalate (xs.map bits)

def step (line : String) : String :=
  match (line.splitOn " ").filter (· ≠ "") with
  | [] => "BAD"
  | cmd :: args =>
    match args.mapM (fun s => s.toNat?) with
    | none => "BAD"
    | some ns =>
      let a := ns.map fl
      let R := floatOps
      match cmd, a with
      | "cp", [dr, ph, ka, dz, tl, x, y, z, x', y', z'] =>
        let h : Params Float := ⟨dr, ph, ka, dz, tl⟩
        let p : Vec3 Float := ⟨x, y, z⟩
        let p' : Vec3 Float := ⟨x', y', z'⟩
        let n := changePivot R h p p'
        let J := jacobian R h p p'
        outList [n.dr, n.phi0, n.dz, dphiOf R h p p', J 0 0, J 0 1, J 0 2, J 1 0, J 1 1, J 1 2, J 3 0, J 3 1, J 3 2, J 3 4]
      | "pos", [dr, ph, ka, dz, tl, x, y, z] =>
        let q := position R ⟨dr, ph, ka, dz, tl⟩ ⟨x, y, z⟩
        outList [q.x, q.y, q.z]
      | "mom", [dr, ph, ka, dz, tl] =>
        let h : Params Float := ⟨dr, ph, ka, dz, tl⟩
        let m := momentum R h
        outList [m.1, m.2.1, m.2.2, charge R h, radius R ka]
      | "fp", [px, py, pz, pt, phi, pz', q, x0, y0, z0] =>
        let h := fromPhysics R ⟨px, py, pz⟩ (pt, phi, pz') q ⟨x0, y0, z0⟩
        outList [h.dr, h.phi0, h.kappa, h.dz, h.tanl]
      | "prop", xs =>
        if xs.length ≠ 50 then "BAD" else
        let J := fun (i j : Nat) => xs.getD (5 * i + j) 0.0
        let E := fun (i j : Nat) => xs.getD (25 + 5 * i + j) 0.0
        let N := propagate R J E
        outList ((List.range 25).map (fun k => N (k / 5) (k % 5)))
      | _, _ => "BAD"

partial def loop (h : IO.FS.Stream) (out : IO.FS.Stream) : IO Unit := do
  let line ← h.getLine
  if line.isEmpty then return ()
  out.putStrLn (step (line.trimAscii.toString))
  loop h out

def main : IO Unit := do loop (← IO.getStdin) (← IO.getStdout)
