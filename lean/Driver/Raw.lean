/- Line protocol driver for the raw parser model.
   input : `<sel_mask> <w0> <w1> ...` (decimal; sel_mask bit0..5 = mdc tof emc muc trg ef)
   output: `OK {json}` | `ERR <kind>` | `OOB` | `FUEL`  -/
import Pybes3Verif.Util.RawRender
open Pybes3Verif.Raw Pybes3Verif.Raw.Render

def step (line : String) : String :=
  match ((line.splitOn " ").filter (· ≠ "")).mapM (fun s => s.toNat?) with
  | none => "BAD-LINE"
  | some [] => "BAD-LINE"
  | some (m :: ws) =>
    let sel := selOfMask m
    match parse sel ws with
    | .ok evs _ => "OK " ++ render (effectiveSel sel) evs
    | .err e => "ERR " ++ reprStr e
    | .oob => "OOB"
    | .fuel => "FUEL"

partial def loop (h : IO.FS.Stream) (out : IO.FS.Stream) : IO Unit := do
  let line ← h.getLine
  if line.isEmpty then return ()
  out.putStrLn (step (line.trimAscii.toString))
  loop h out

def main : IO Unit := do loop (← IO.getStdin) (← IO.getStdout)
