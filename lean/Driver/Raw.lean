/- Line protocol driver for the raw parser model.
   input : `<sel_mask> <w0> <w1> ...` (decimal; sel_mask bit0..5 = mdc tof emc muc trg ef)
   output: `OK {json}` | `ERR <kind>` | `OOB` | `FUEL`  -/
import Pybes3Verif.Model.RawParser
open Pybes3Verif.Raw

def detOfBit : List (Nat × Nat × String × List String) :=
  [(0, MDC, "mdc", ["id", "tdc", "adc", "overflow"]), (1, TOF, "tof", ["id", "tdc", "adc", "overflow"]),
   (2, EMC, "emc", ["id", "tdc", "adc", "measure"]), (3, MUC, "muc", ["id", "fec"]),
   (4, TRG, "trg", ["data"]), (5, EF, "ef", ["data"])]

def selOfMask (m : Nat) : List Nat :=
  detOfBit.filterMap (fun (b, id, _, _) => if (m >>> b) &&& 1 = 1 then some id else none)

def jlist (xs : List Nat) : String := "[" ++ ",".intercalate (xs.map toString) ++ "]"

def column (rows : List Row) (i : Nat) : List Nat := rows.map (fun r => r.getD i 0)

def render (sel : List Nat) (evs : List EventRec) : String :=
  let hdrNames := ["evt_time", "evt_no", "run_no", "l1_id", "evt_tag1", "evt_tag2", "evt_tag3", "evt_tag4"]
  let hdr := ",".intercalate (hdrNames.mapIdx (fun i n => "\"" ++ n ++ "\":" ++ jlist (evs.map (fun e => e.header.getD i 0))))
  let dets := detOfBit.filterMap (fun (_, id, name, cols) =>
    if sel.contains id then
      let rows := flatRowsOf id evs
      some ("\"" ++ name ++ "\":{\"offsets\":" ++ jlist (offsetsOf id evs) ++ "," ++
        ",".intercalate (cols.mapIdx (fun i c => "\"" ++ c ++ "\":" ++ jlist (column rows i))) ++ "}")
    else none)
  "{\"evt_header\":{" ++ hdr ++ "}" ++ (if dets.isEmpty then "" else "," ++ ",".intercalate dets) ++ "}"

def step (line : String) : String :=
  match ((line.splitOn " ").filter (· ≠ "")).mapM (fun s => s.toNat?) with
  | none => "BAD-LINE"
  | some [] => "BAD-LINE"
  | some (m :: ws) =>
    let sel := selOfMask m
    match parse sel ws with
    | .ok evs _ => "OK " ++ render (effectiveSel sel) evs
    | .err e => "ERR " ++ reprStr e
    | .oob => "OOB"
    | .fuel => "FUEL"

partial def loop (h : IO.FS.Stream) (out : IO.FS.Stream) : IO Unit := do
  let line ← h.getLine
  if line.isEmpty then return ()
  out.putStrLn (step (line.trimAscii.toString))
  loop h out

def main : IO Unit := do loop (← IO.getStdin) (← IO.getStdout)
