/- Line protocol driver for the nested-array model.  Input: a uniform-depth nested list of naturals in bracket syntax,
   e.g. `[[1,2],[],[3]]` (depth 2).  Output: `depth=<d> levels=<l1>;<l2>... flat=<...> roundtrip=<0|1>` -/
import Pybes3Verif.Model.Nested
open Pybes3Verif.Nested

inductive T | leaf (n : Nat) | node (xs : List T)

partial def parseT (cs : List Char) : Option (T × List Char) :=
  match cs with
  | '[' :: r =>
    let rec items (cs : List Char) (acc : List T) : Option (List T × List Char) :=
      match cs with
      | ']' :: r => some (acc.reverse, r)
      | ',' :: r => items r acc
      | _ => match parseT cs with
        | some (t, r) => items r (t :: acc)
        | none => none
    match items r [] with
    | some (xs, r) => some (.node xs, r)
    | none => none
  | c :: _ =>
    if c.isDigit then
      let ds := cs.takeWhile Char.isDigit
      some (.leaf ((String.ofList ds).toNat!), cs.drop ds.length)
    else none
  | [] => none

partial def depthT : T → Nat
  | .leaf _ => 0
  | .node [] => 1
  | .node (x :: _) => 1 + depthT x

/-- convert to `Nested Nat d` (ill-shaped input gives `none`) -/
def toNested : (d : Nat) → T → Option (Nested Nat d)
  | 0, .leaf n => some n
  | 0, .node _ => none
  | _ + 1, .leaf _ => none
  | d + 1, .node xs => xs.mapM (toNested d)

def csv (xs : List Nat) : String := ",".intercalate (xs.map toString)

def eqNested : (d : Nat) → Nested Nat d → Nested Nat d → Bool
  | 0, a, b => let a' : Nat := a; let b' : Nat := b; a' == b'
  | d + 1, a, b =>
    let a' : List (Nested Nat d) := a
    let b' : List (Nested Nat d) := b
    a'.length == b'.length && (List.zipWith (eqNested d) a' b').all id

def step (line : String) (dhint : Nat) : String :=
  match parseT (line.toList.filter (· ≠ ' ')) with
  | some (t, []) =>
    let d := dhint
    match d with
    | 0 => "BAD depth"
    | d + 1 =>
      match toNested (d + 1) t with
      | some nt =>
        let lv := levels d nt
        let fl := flat d nt
        let rb := rebuild d lv fl
        "depth=" ++ toString (d + 1) ++ " levels=" ++ ";".intercalate (lv.map csv) ++ " flat=" ++ csv fl ++ " roundtrip=" ++ (if eqNested (d + 1) rb nt then "1" else "0")
      | none => "ILL-SHAPED"
  | _ => "BAD"

partial def loop (h : IO.FS.Stream) (out : IO.FS.Stream) : IO Unit := do
  let line ← h.getLine
  if line.isEmpty then return ()
  -- line format: `<depth> <nested list>`
  let l := line.trimAscii.toString
  match l.splitOn " " with
  | d :: rest => out.putStrLn (step (" ".intercalate rest) (d.toNat?.getD 0))
  | _ => out.putStrLn "BAD"
  loop h out

def main : IO Unit := do loop (← IO.getStdin) (← IO.getStdout)
