-- This module serves as the root of the `Pybes3Verif` library.
-- Import modules here that should be built as part of the library.
import Pybes3Verif.Basic
