-- Root of the `Pybes3Verif` library: imports every module so that `lake build` checks everything.
import Pybes3Verif.Gen.Prelude
import Pybes3Verif.Gen.DigiId
import Pybes3Verif.Props.C05
