import Pybes3Verif.Model.RawParser
/-!
Helper lemmas for `Props/C15.lean`: the raw parser model never yields `oob`, never runs out of fuel
when the fuel exceeds the number of remaining words, and a successful whole-buffer decode leaves
nothing behind.

`Bd k r n` : the outcome `r` is an error, or a success whose remaining input `rest` satisfies
`rest.length + k ≤ n`; it is neither `oob` nor `fuel`.
`G k F p`  : on every input `ws` with `ws.length < F`, `Bd k (p.run ws) ws.length`.
-/
namespace Pybes3Verif.Raw.Safe
open Pybes3Verif.Raw

/-- outcome is an error or a success that left at most `n - k` words; neither `oob` nor `fuel` -/
def Bd {α : Type} (k : Nat) (r : Res α) (n : Nat) : Prop :=
  match r with
  | .ok _ rest => rest.length + k ≤ n
  | .err _ => True
  | .oob => False
  | .fuel => False

theorem Bd_ok {α : Type} {k : Nat} {a : α} {rest : List Nat} {n : Nat} :
    Bd k (Res.ok a rest) n ↔ rest.length + k ≤ n := Iff.rfl
theorem Bd_err {α : Type} {k : Nat} {e : Err} {n : Nat} : Bd k (Res.err e : Res α) n := trivial

theorem Bd.ne_oob {α : Type} {k n : Nat} {r : Res α} (h : Bd k r n) : r ≠ .oob := by
  intro e; subst e; exact h
theorem Bd.ne_fuel {α : Type} {k n : Nat} {r : Res α} (h : Bd k r n) : r ≠ .fuel := by
  intro e; subst e; exact h

theorem Bd.mono {α : Type} {k k' n n' : Nat} {r : Res α} (h : Bd k r n) (hk : k' ≤ k) (hn : n ≤ n') :
    Bd k' r n' := by
  cases r with
  | ok a rest => exact Bd_ok.2 (by have := Bd_ok.1 h; omega)
  | err e => trivial
  | oob => exact h
  | fuel => exact h

theorem run_bind {α β : Type} (p : P α) (f : α → P β) (ws : List Nat) :
    (p >>= f).run ws =
      match p.run ws with
      | .ok a r => (f a).run r
      | .err e => .err e
      | .oob => .oob
      | .fuel => .fuel := rfl

theorem bind_ok {α β : Type} (p : P α) (f : α → P β) (ws : List Nat) (a : α) (ws' : List Nat)
    (h : p.run ws = .ok a ws') : (p >>= f).run ws = (f a).run ws' := by
  rw [run_bind, h]

theorem bind_ok_inv {α β : Type} (p : P α) (f : α → P β) (ws : List Nat) (b : β) (r : List Nat)
    (h : (p >>= f).run ws = .ok b r) : ∃ a ws', p.run ws = .ok a ws' ∧ (f a).run ws' = .ok b r := by
  rw [run_bind] at h
  cases hp : p.run ws with
  | ok a ws' => rw [hp] at h; exact ⟨a, ws', rfl, h⟩
  | err e => rw [hp] at h; cases h
  | oob => rw [hp] at h; cases h
  | fuel => rw [hp] at h; cases h

theorem run_pure {α : Type} (a : α) (ws : List Nat) : (pure a : P α).run ws = .ok a ws := rfl

/-- pointwise sequencing -/
theorem Bd_bind {α β : Type} {k k' : Nat} (p : P α) (f : α → P β) (ws : List Nat) (n : Nat)
    (hp : Bd k (p.run ws) n)
    (hf : ∀ a r, p.run ws = .ok a r → r.length + k ≤ n → Bd k' ((f a).run r) r.length) :
    Bd k ((p >>= f).run ws) n := by
  cases h : p.run ws with
  | ok a r =>
    rw [h] at hp
    have h1 := Bd_ok.1 hp
    have h0 := hf a r h h1
    rw [bind_ok p f ws a r h]
    cases h2 : (f a).run r with
    | ok b r' => rw [h2] at h0; exact Bd_ok.2 (by have := Bd_ok.1 h0; omega)
    | err e => trivial
    | oob => rw [h2] at h0; exact h0
    | fuel => rw [h2] at h0; exact h0
  | err e => rw [run_bind, h]; trivial
  | oob => rw [h] at hp; exact hp.elim
  | fuel => rw [h] at hp; exact hp.elim

/-- on every input shorter than `F` the parser is safe, fuel-free and consumes at least `k` words -/
def G {α : Type} (k F : Nat) (p : P α) : Prop := ∀ ws : List Nat, ws.length < F → Bd k (p.run ws) ws.length

theorem G.weaken {α : Type} {k F : Nat} {p : P α} (h : G k F p) {k' F' : Nat} (hk : k' ≤ k) (hF : F' ≤ F) :
    G k' F' p := fun ws hw => (h ws (by omega)).mono hk (Nat.le_refl _)

theorem G_bind {α β : Type} {k F : Nat} {p : P α} {f : α → P β} (hp : G k F p) (hf : ∀ a, G 0 F (f a)) :
    G k F (p >>= f) := fun ws hw =>
  Bd_bind p f ws ws.length (hp ws hw) (fun a r _ hr => hf a r (by omega))

theorem G_pure {α : Type} {F : Nat} (a : α) : G 0 F (pure a : P α) := fun _ _ => Bd_ok.2 (Nat.le_refl _)
theorem G_fail {α : Type} {k F : Nat} (e : Err) : G k F (fail e : P α) := fun _ _ => trivial

theorem G_ite {α : Type} {k F : Nat} {c : Prop} [Decidable c] {p q : P α}
    (hp : c → G k F p) (hq : ¬ c → G k F q) : G k F (if c then p else q) := by
  by_cases h : c
  · rw [if_pos h]; exact hp h
  · rw [if_neg h]; exact hq h

/-! ### primitives -/

theorem read_nil : read.run [] = .err .eof := rfl
theorem read_cons (w : Nat) (ws : List Nat) : read.run (w :: ws) = .ok w ws := rfl

theorem G_read {F : Nat} : G 1 F read := by
  intro ws _
  cases ws with
  | nil => rw [read_nil]; trivial
  | cons w ws => rw [read_cons]; exact Bd_ok.2 (by simp)

theorem G_read0 {F : Nat} : G 0 F read := G_read.weaken (Nat.zero_le _) (Nat.le_refl _)

theorem run_require (n : Nat) (ws : List Nat) :
    (require n).run ws = if n ≤ ws.length then .ok () ws else .err .eof := rfl
theorem run_rawSkip (n : Nat) (ws : List Nat) :
    (rawSkip n).run ws = if n ≤ ws.length then .ok () (ws.drop n) else .oob := rfl
theorem run_rawReadN (n : Nat) (ws : List Nat) :
    (rawReadN n).run ws = if n ≤ ws.length then .ok (ws.take n) (ws.drop n) else .oob := rfl

theorem run_skip (n : Nat) (ws : List Nat) :
    (skip n).run ws = if n ≤ ws.length then .ok () (ws.drop n) else .err .eof := by
  show (require n >>= fun _ => rawSkip n).run ws = _
  rw [run_bind, run_require]
  by_cases h : n ≤ ws.length
  · rw [if_pos h, if_pos h]; show (rawSkip n).run ws = _; rw [run_rawSkip, if_pos h]
  · rw [if_neg h, if_neg h]

theorem run_readN (n : Nat) (ws : List Nat) :
    (readN n).run ws = if n ≤ ws.length then .ok (ws.take n) (ws.drop n) else .err .eof := by
  show (require n >>= fun _ => rawReadN n).run ws = _
  rw [run_bind, run_require]
  by_cases h : n ≤ ws.length
  · rw [if_pos h, if_pos h]; show (rawReadN n).run ws = _; rw [run_rawReadN, if_pos h]
  · rw [if_neg h, if_neg h]

theorem G_skip {F : Nat} (n : Nat) : G 0 F (skip n) := by
  intro ws _
  rw [run_skip]
  by_cases h : n ≤ ws.length
  · rw [if_pos h]; exact Bd_ok.2 (by rw [List.length_drop]; omega)
  · rw [if_neg h]; trivial

theorem G_readN {F : Nat} (n : Nat) : G 0 F (readN n) := by
  intro ws _
  rw [run_readN]
  by_cases h : n ≤ ws.length
  · rw [if_pos h]; exact Bd_ok.2 (by rw [List.length_drop]; omega)
  · rw [if_neg h]; trivial

theorem G_liftErase_some {F : Nat} (v : List Nat) : G 0 F (liftErase (some v)) :=
  fun _ _ => Bd_ok.2 (Nat.le_refl _)

/-- the erase guarded by the trailer validation is always within the vector -/
theorem G_erase {F : Nat} (sd : List Nat) (rns rnd pos : Nat) (h : ¬ (sd.length < rns ∨ sd.length < rnd)) :
    G 0 F (liftErase (if pos = 0 then eraseFront sd rns else eraseBack sd rnd)) := by
  have h1 : rns ≤ sd.length := by omega
  have h2 : rnd ≤ sd.length := by omega
  by_cases hp : pos = 0
  · rw [if_pos hp]; unfold eraseFront; rw [if_pos h1]; exact G_liftErase_some _
  · rw [if_neg hp]; unfold eraseBack; rw [if_pos h2]; exact G_liftErase_some _

/-! ### loops -/

theorem loopLeft_zero {α : Type} (body : P (List α × Nat)) (n : Nat) : loopLeft body 0 n = outOfFuel := rfl
theorem loopLeft_succ {α : Type} (body : P (List α × Nat)) (f n : Nat) :
    loopLeft body (f + 1) n =
      if n = 0 then pure []
      else body >>= fun x => loopLeft body f (sub32 n x.2) >>= fun more => pure (x.1 ++ more) := rfl

theorem G_loopLeft {α : Type} (body : P (List α × Nat)) :
    ∀ (f : Nat), G 1 f body → ∀ n, G 0 f (loopLeft body f n) := by
  intro f
  induction f with
  | zero => intro _ n ws hw; omega
  | succ f ih =>
    intro hb n ws hw
    rw [loopLeft_succ]
    by_cases hn : n = 0
    · rw [if_pos hn]; exact G_pure _ ws hw
    · rw [if_neg hn]
      refine (Bd_bind (k := 1) (k' := 0) _ _ ws ws.length (hb ws hw) ?_).mono (Nat.zero_le _) (Nat.le_refl _)
      intro x r _ hr
      exact G_bind (ih (hb.weaken (Nat.le_refl _) (Nat.le_succ _)) _) (fun more => G_pure _) r (by omega)

/-! ### the fragment readers -/

/-- one step of a `G 0` chain -/
syntax "g_step" : tactic
macro_rules
  | `(tactic| g_step) => `(tactic| with_reducible first
      | exact G_read0 | exact G_skip _ | exact G_readN _ | exact G_pure _ | exact G_fail _
      | exact G_erase _ _ _ _ (by assumption)
      | refine G_ite (fun _ => ?_) (fun _ => ?_)
      | refine G_bind ?_ (fun _ => ?_))

theorem G_readROB {F : Nat} (det : Nat) : G 1 F (readROB det) := by
  unfold readROB
  refine G_bind G_read (fun flag => ?_)
  repeat' g_step

theorem G_loopROB (f det n : Nat) : G 0 f (loopLeft (readROB det) f n) :=
  G_loopLeft _ f (G_readROB det) n

theorem G_readROS (f det : Nat) : G 1 f (readROS f det) := by
  unfold readROS
  refine G_bind G_read (fun flag => ?_)
  repeat' (first | exact G_loopROB _ _ _ | g_step)

theorem G_loopROS (f det n : Nat) : G 0 f (loopLeft (readROS f det) f n) :=
  G_loopLeft _ f (G_readROS f det) n

theorem G_readSubDet (f : Nat) (sel : List Nat) : G 1 f (readSubDet f sel) := by
  unfold readSubDet
  refine G_bind G_read (fun flag => ?_)
  repeat' (first | exact G_loopROS _ _ _ | g_step)

theorem G_loopSubDet (f : Nat) (sel : List Nat) (n : Nat) : G 0 f (loopLeft (readSubDet f sel) f n) :=
  G_loopLeft _ f (G_readSubDet f sel) n

theorem G_readEvent (f : Nat) (sel : List Nat) : G 1 f (readEvent f sel) := by
  unfold readEvent
  refine G_bind G_read (fun flag => ?_)
  repeat' (first | exact G_loopSubDet _ _ _ | g_step)

theorem readEvents_zero (sel : List Nat) : readEvents sel 0 = outOfFuel := rfl
theorem readEvents_nil (sel : List Nat) (f : Nat) : (readEvents sel (f + 1)).run [] = .ok [] [] := rfl
theorem readEvents_cons (sel : List Nat) (f w : Nat) (ws : List Nat) :
    (readEvents sel (f + 1)).run (w :: ws) =
      (readEvent (f + 1) sel >>= fun ev => readEvents sel f >>= fun more => pure (ev :: more)).run (w :: ws) := rfl

theorem G_readEvents (sel : List Nat) : ∀ f, G 0 f (readEvents sel f) := by
  intro f
  induction f with
  | zero => intro ws hw; omega
  | succ f ih =>
    intro ws hw
    cases ws with
    | nil => rw [readEvents_nil]; exact Bd_ok.2 (Nat.le_refl _)
    | cons w ws =>
      rw [readEvents_cons]
      refine (Bd_bind (k := 1) (k' := 0) _ _ _ _ (G_readEvent (f + 1) sel _ hw) ?_).mono
        (Nat.zero_le _) (Nat.le_refl _)
      intro ev r _ hr
      exact G_bind ih (fun more => G_pure _) r (by omega)

theorem readEvents_ok_nil (sel : List Nat) :
    ∀ f ws evs rest, (readEvents sel f).run ws = .ok evs rest → rest = [] := by
  intro f
  induction f with
  | zero => intro ws evs rest h; cases h
  | succ f ih =>
    intro ws evs rest h
    cases ws with
    | nil => rw [readEvents_nil] at h; cases h; rfl
    | cons w ws =>
      rw [readEvents_cons] at h
      obtain ⟨ev, r1, _, h2⟩ := bind_ok_inv _ _ _ _ _ h
      obtain ⟨more, r2, h3, h4⟩ := bind_ok_inv _ _ _ _ _ h2
      rw [run_pure] at h4
      cases h4
      exact ih _ _ _ h3

theorem parse_Bd (sel ws : List Nat) : Bd 0 (parse sel ws) ws.length :=
  G_readEvents (effectiveSel sel) (ws.length + 1) ws (Nat.lt_succ_self _)

end Pybes3Verif.Raw.Safe
