import Pybes3Verif.Util.Packed
import Pybes3Verif.Gen.Mdc
import Pybes3Verif.Gen.DigiId
import Pybes3Verif.Gen.DocGid
/-! Bool predicates evaluated over the MDC tables for C08 (definitions only; the kernel evaluations live in
`C08Mdc*.lean`, one file per group so that lake checks them in parallel). -/
namespace Pybes3Verif.C08
open Pybes3Verif.Util Pybes3Verif.Gen Pybes3Verif.Gen.Mdc Pybes3Verif.Gen.MdcTables Pybes3Verif.Gen.DigiId

abbrev B (n : Nat) : BitVec 64 := BitVec.ofNat 64 n

/-- number of wires (documented range 0~6795) -/
def nWires : Nat := 6796
def nLayers : Nat := 43

def mdcDenseOk (g : Nat) : Bool := npz_gid g == B g

/-- (layer, wire) strictly increasing lexicographically from g to g+1 -/
def mdcOrderOk (g : Nat) : Bool :=
  let l1 := (mdc_gid_to_layer (B g)).toNat; let l2 := (mdc_gid_to_layer (B (g + 1))).toNat
  let w1 := (mdc_gid_to_wire (B g)).toNat; let w2 := (mdc_gid_to_wire (B (g + 1))).toNat
  decide (l1 < l2) || (decide (l1 = l2) && decide (w1 < w2))

def mdcInvOk (g : Nat) : Bool :=
  get_mdc_gid (mdc_gid_to_layer (B g)) (mdc_gid_to_wire (B g)) == B g

/-- wires of a layer according to the loader's cumulative table -/
def wiresOf (l : Nat) : Nat := (mod_layer_start_gid (l + 1)).toNat - (mod_layer_start_gid l).toNat
def wiresLeOk (l : Nat) : Bool := decide (wiresOf l ≤ 320)

/-- index i encodes the pair (layer, wire) = (i / 320, i % 320) -/
def mdcPairOk (i : Nat) : Bool :=
  let l := i / 320; let w := i % 320
  !(decide (l < nLayers) && decide (w < wiresOf l)) ||
    (mdc_gid_to_layer (get_mdc_gid (B l) (B w)) == B l && mdc_gid_to_wire (get_mdc_gid (B l) (B w)) == B w
      && decide ((get_mdc_gid (B l) (B w)).toNat < nWires))

/-- the cumulative table brackets every wire of its layer: start(layer g) ≤ g < start(layer g + 1) -/
def mdcStartOk (g : Nat) : Bool :=
  let l := (mdc_gid_to_layer (B g)).toNat
  decide ((mod_layer_start_gid l).toNat ≤ g) && decide (g < (mod_layer_start_gid (l + 1)).toNat) && decide (l < nLayers)

/-- digi route: the identifier of wire g (built from its table fields) decodes to fields whose gid is g -/
def mdcDigiOk (g : Nat) : Bool :=
  let id := get_mdc_digi_id (mdc_gid_to_wire (B g)) (mdc_gid_to_layer (B g)) (mdc_gid_to_is_stereo (B g))
  check_mdc_id id && get_mdc_gid (mdc_id_to_layer id) (mdc_id_to_wire id) == B g &&
    (mdc_id_to_is_stereo id == (mdc_gid_to_is_stereo (B g) == 1))

end Pybes3Verif.C08
