import Pybes3Verif.Proofs.C08EmcDefs
namespace Pybes3Verif.C08E
open Pybes3Verif.Util Pybes3Verif.Gen Pybes3Verif.Gen.Emc Pybes3Verif.Gen.EmcTables Pybes3Verif.Gen.DigiId

theorem emcInv_b : ∀ g, g < nCrystals → emcInvOk g = true :=
  forall_lt_of_allBlock emcInvOk nCrystals 13 (by decide +kernel) (by decide)
theorem emcDigi_b : ∀ g, g < nCrystals → emcDigiOk g = true :=
  forall_lt_of_allBlock emcDigiOk nCrystals 13 (by decide +kernel) (by decide)

end Pybes3Verif.C08E
