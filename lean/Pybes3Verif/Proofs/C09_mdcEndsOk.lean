import Pybes3Verif.Proofs.C09Defs
namespace Pybes3Verif.C09
open Pybes3Verif.Util Pybes3Verif.IEEE Pybes3Verif.Gen
open Pybes3Verif.Gen.Mdc Pybes3Verif.Gen.MdcTables

theorem mdcEndsOk_b : ∀ g, g < 6796 → mdcEndsOk g = true :=
  forall_lt_of_allBlock mdcEndsOk 6796 13 (by decide +kernel) (by decide)

end Pybes3Verif.C09
