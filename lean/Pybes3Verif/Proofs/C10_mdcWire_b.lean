import Pybes3Verif.Proofs.C10Defs
namespace Pybes3Verif.C10
open Pybes3Verif.Util Pybes3Verif.Gen Pybes3Verif.Gen.Reid Pybes3Verif.Gen.DigiId

theorem mdcWire_b : ∀ g, g < 6796 → mdcWireOk g = true :=
  forall_lt_of_allBlock mdcWireOk 6796 13 (by decide +kernel) (by decide)

end Pybes3Verif.C10
