import Pybes3Verif.Proofs.C08MdcDefs
namespace Pybes3Verif.C08
open Pybes3Verif.Util Pybes3Verif.Gen Pybes3Verif.Gen.Mdc Pybes3Verif.Gen.MdcTables Pybes3Verif.Gen.DigiId

theorem mdcInv_b : ∀ g, g < nWires → mdcInvOk g = true :=
  forall_lt_of_allBlock mdcInvOk nWires 13 (by decide +kernel) (by decide)
theorem mdcStart_b : ∀ g, g < nWires → mdcStartOk g = true :=
  forall_lt_of_allBlock mdcStartOk nWires 13 (by decide +kernel) (by decide)
theorem mdcStartEnds : (mod_layer_start_gid 0).toNat = 0 ∧ (mod_layer_start_gid nLayers).toNat = nWires ∧
    npz_gid_len = nWires ∧ npz_layer_len = nWires ∧ npz_wire_len = nWires ∧ mod_layer_start_gid_len = nLayers + 1 ∧
    DocGid.mdcRange = (0, nWires - 1) := by decide +kernel

end Pybes3Verif.C08
