import Pybes3Verif.Proofs.C10Defs
namespace Pybes3Verif.C10
open Pybes3Verif.Util Pybes3Verif.Gen Pybes3Verif.Gen.Reid Pybes3Verif.Gen.DigiId

theorem sortedMdc_b : ∀ k, k < 10927 → sortedOk tbl_mdc_raw sorted_mdc_raw 10927 k = true :=
  forall_lt_of_allBlock (sortedOk tbl_mdc_raw sorted_mdc_raw 10927) 10927 14 (by decide +kernel) (by decide)

end Pybes3Verif.C10
