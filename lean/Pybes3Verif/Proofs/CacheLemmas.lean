import Pybes3Verif.Model.Cache
/-!
Helper lemmas for C17 (numba cache invalidation model, `Model/Cache.lean`).
-/
namespace Pybes3Verif.Cache

/-! ### `minMtime` -/

theorem foldl_min_le_init (fs : List CacheFile) (m : Nat) :
    fs.foldl (fun m f => min m f.mtime) m ≤ m := by
  induction fs generalizing m with
  | nil => exact Nat.le_refl _
  | cons a rest ih =>
    simp only [List.foldl_cons]
    exact Nat.le_trans (ih _) (Nat.min_le_left _ _)

theorem foldl_min_le_mem (fs : List CacheFile) (m : Nat) (f : CacheFile) (hf : f ∈ fs) :
    fs.foldl (fun m f => min m f.mtime) m ≤ f.mtime := by
  induction fs generalizing m with
  | nil => cases hf
  | cons a rest ih =>
    simp only [List.foldl_cons]
    rcases List.mem_cons.mp hf with h | h
    · subst h
      exact Nat.le_trans (foldl_min_le_init _ _) (Nat.min_le_right _ _)
    · exact ih _ h

theorem foldl_min_attained (fs : List CacheFile) (m : Nat) :
    fs.foldl (fun m f => min m f.mtime) m = m ∨
      ∃ f ∈ fs, f.mtime = fs.foldl (fun m f => min m f.mtime) m := by
  induction fs generalizing m with
  | nil => exact Or.inl rfl
  | cons a rest ih =>
    simp only [List.foldl_cons]
    rcases ih (min m a.mtime) with h | ⟨f, hf, h⟩
    · rw [h]
      rcases Nat.le_total m a.mtime with hm | hm
      · exact Or.inl (Nat.min_eq_left hm)
      · exact Or.inr ⟨a, List.mem_cons_self, (Nat.min_eq_right hm).symm⟩
    · exact Or.inr ⟨f, List.mem_cons_of_mem _ hf, h⟩

/-- `minMtime` is a lower bound of the mtimes -/
theorem minMtime_le (fs : List CacheFile) (f : CacheFile) (hf : f ∈ fs) : minMtime fs ≤ f.mtime :=
  foldl_min_le_mem fs _ f hf

/-- `minMtime` of a non-empty list is attained -/
theorem minMtime_attained (fs : List CacheFile) (h : fs ≠ []) : ∃ f ∈ fs, f.mtime = minMtime fs := by
  cases fs with
  | nil => exact absurd rfl h
  | cons a rest =>
    unfold minMtime
    rcases foldl_min_attained (a :: rest) ((a :: rest).headD ⟨0, 0, none, 0, 0⟩).mtime with h1 | h1
    · exact ⟨a, List.mem_cons_self, by rw [h1]; rfl⟩
    · exact h1

/-! ### `cacheAutoClear` -/

/-- whatever the budget / force flag, `cacheAutoClear` only removes files -/
theorem cac_subset (s : St) (t : Nat) (force : Bool) (files : List CacheFile) (budget : Option Nat) :
    ∀ f ∈ (cacheAutoClear s t force files budget).1, f ∈ files := by
  intro f hf
  simp only [cacheAutoClear] at hf
  split at hf
  · exact hf
  · split at hf
    · split at hf
      · exact (List.mem_filter.mp hf).1
      · exact (List.mem_filter.mp hf).1
    · exact hf

theorem cac_none_snd (s : St) (t : Nat) (force : Bool) (files : List CacheFile) :
    (cacheAutoClear s t force files none).2 = none := by
  simp only [cacheAutoClear]
  split
  · rfl
  · split <;> rfl

/-- after an uninterrupted, unforced `cacheAutoClear` of table `t` no remaining file of table `t` is older
than the table -/
theorem cac_none_fresh (s : St) (t : Nat) (files : List CacheFile) :
    ∀ f ∈ (cacheAutoClear s t false files none).1, f.table = t → s.tableMtime t ≤ f.mtime := by
  intro f hf ht
  simp only [cacheAutoClear] at hf
  split at hf
  · rename_i hempty
    have hm : f ∈ files.filter (fun f => f.table == t) := by
      rw [List.mem_filter]; exact ⟨hf, by simp [ht]⟩
    rw [List.isEmpty_iff] at hempty
    rw [hempty] at hm
    cases hm
  · split at hf
    · have := (List.mem_filter.mp hf).2
      simp [ht] at this
    · rename_i hc
      have hm : f ∈ files.filter (fun f => f.table == t) := by
        rw [List.mem_filter]; exact ⟨hf, by simp [ht]⟩
      have hle := minMtime_le _ f hm
      simp only [Bool.or_false, decide_eq_true_eq] at hc
      omega

/-- if no file of table `t` is older than the table, an unforced `cacheAutoClear` does nothing -/
theorem cac_fresh_id (s : St) (t : Nat) (files : List CacheFile) (budget : Option Nat)
    (h : ∀ f ∈ files, f.table = t → s.tableMtime t ≤ f.mtime) :
    cacheAutoClear s t false files budget = (files, budget) := by
  simp only [cacheAutoClear]
  split
  · rfl
  · rename_i hne
    split
    · rename_i hc
      exfalso
      simp only [Bool.or_false, decide_eq_true_eq] at hc
      have hne' : files.filter (fun f => f.table == t) ≠ [] := by
        intro h0; apply hne; rw [h0]; rfl
      obtain ⟨f, hf, hmin⟩ := minMtime_attained _ hne'
      have hf' := List.mem_filter.mp hf
      have ht : f.table = t := by simpa using hf'.2
      have := h f hf'.1 ht
      omega
    · rfl

/-- a forced, uninterrupted `cacheAutoClear` of table `t` leaves no file of table `t` -/
theorem cac_force_none (s : St) (t : Nat) (files : List CacheFile) :
    ∀ f ∈ (cacheAutoClear s t true files none).1, f.table ≠ t := by
  intro f hf ht
  simp only [cacheAutoClear] at hf
  split at hf
  · rename_i hempty
    have hm : f ∈ files.filter (fun f => f.table == t) := by
      rw [List.mem_filter]; exact ⟨hf, by simp [ht]⟩
    rw [List.isEmpty_iff] at hempty
    rw [hempty] at hm
    cases hm
  · split at hf
    · have := (List.mem_filter.mp hf).2
      simp [ht] at this
    · rename_i hc
      simp at hc

/-! ### `sweep` -/

theorem sweep_eq (s : St) (force : Bool) (crash : Option Nat) :
    sweep s force crash =
      (cacheAutoClear s 1 force (cacheAutoClear s 0 force s.files crash).1
        (cacheAutoClear s 0 force s.files crash).2).1 := rfl

theorem sweep_subset (s : St) (force : Bool) (crash : Option Nat) :
    ∀ f ∈ sweep s force crash, f ∈ s.files := by
  intro f hf
  rw [sweep_eq] at hf
  exact cac_subset _ _ _ _ _ _ (cac_subset _ _ _ _ _ _ hf)

theorem sweep_fresh_id (s : St) (crash : Option Nat) (h : MtimeFresh s) : sweep s false crash = s.files := by
  rw [sweep_eq]
  have h0 : cacheAutoClear s 0 false s.files crash = (s.files, crash) :=
    cac_fresh_id s 0 s.files crash (fun f hf ht => ht ▸ h f hf)
  rw [h0]
  show (cacheAutoClear s 1 false s.files crash).1 = s.files
  rw [cac_fresh_id s 1 s.files crash (fun f hf ht => ht ▸ h f hf)]

/-- an uninterrupted, unforced sweep leaves no file of table 0 or 1 older than its table -/
theorem sweep_none_fresh (s : St) :
    ∀ f ∈ sweep s false none, f.table < nTables → s.tableMtime f.table ≤ f.mtime := by
  intro f hf ht
  rw [sweep_eq, cac_none_snd] at hf
  have hf0 := cac_subset _ _ _ _ _ _ hf
  have h1 := cac_none_fresh s 1 _ f hf
  have h0 := cac_none_fresh s 0 _ f hf0
  have : f.table = 0 ∨ f.table = 1 := by unfold nTables at ht; omega
  rcases this with h | h
  · rw [h]; exact h0 h
  · rw [h]; exact h1 h

theorem sweep_force_empty (s : St) (h : ∀ f ∈ s.files, f.table < nTables) : sweep s true none = [] := by
  apply List.eq_nil_iff_forall_not_mem.mpr
  intro f hf
  have hs := sweep_subset _ _ _ f hf
  rw [sweep_eq, cac_none_snd] at hf
  have hf0 := cac_subset _ _ _ _ _ _ hf
  have h1 := cac_force_none s 1 _ f hf
  have h0 := cac_force_none s 0 _ f hf0
  have := h f hs
  unfold nTables at this
  omega

/-! ### `step`: the clock tick does not matter for `sweep` -/

theorem sweep_tick (s : St) (force : Bool) (crash : Option Nat) :
    sweep { s with clock := s.clock + 1 } force crash = sweep s force crash := rfl

theorem step_importCheck_files (s : St) (crash : Option Nat) :
    (step s (.importCheck crash)).files = sweep s false crash := rfl

theorem step_importCheck_tableMtime (s : St) (crash : Option Nat) :
    (step s (.importCheck crash)).tableMtime = s.tableMtime := rfl

theorem step_importCheck_tableVersion (s : St) (crash : Option Nat) :
    (step s (.importCheck crash)).tableVersion = s.tableVersion := rfl

theorem step_forceClear_files (s : St) : (step s .forceClear).files = sweep s true none := rfl

/-! ### Known-tables invariant

`check_numba_cache` only looks at the globs of the `nTables` known tables, so statements about *all* cache files
need every file to belong to a known table. -/

/-- every cache file belongs to one of the tables the check knows about -/
def TablesKnown (s : St) : Prop := ∀ f ∈ s.files, f.table < nTables

/-- every first use in the history is a kernel of a known table -/
def OpsKnown (ops : List Op) : Prop := ∀ p t k sg, Op.firstUse p t k sg ∈ ops → t < nTables

/-- the files after a first use: either a file that was already there, or a file of table `t` written now (the
rewritten / new index file, or the new data file, which is only written on a cache miss and holds the version
the process has in memory) -/
theorem firstUse_files_mem (s : St) (p t k sg : Nat) (f : CacheFile)
    (hf : f ∈ (step s (.firstUse p t k sg)).files) :
    f ∈ s.files ∨
      (f.table = t ∧ f.mtime = s.clock + 1 ∧
        (f.isData = true →
          s.files.any (fun f => f.table == t && f.kernel == k && f.sig == some sg) = false ∧
          ∃ pr, s.procs[p]? = some pr ∧ f.builtFrom = (lookupLoaded pr t).getD (s.tableVersion t))) := by
  simp only [step] at hf
  split at hf
  · exact Or.inl hf
  · rename_i pr hpr
    split at hf
    · exact Or.inl hf
    · rename_i hany
      rcases List.mem_append.mp hf with h | h
      · split at h
        · obtain ⟨g, hg, hgf⟩ := List.mem_map.mp h
          split at hgf
          · rename_i hidx
            subst hgf
            simp only [Bool.and_eq_true, beq_iff_eq] at hidx
            refine Or.inr ⟨hidx.1.1, rfl, ?_⟩
            intro hd
            simp [CacheFile.isData, hidx.2] at hd
          · subst hgf
            exact Or.inl hg
        · rcases List.mem_append.mp h with h | h
          · exact Or.inl h
          · simp only [List.mem_singleton] at h
            subst h
            refine Or.inr ⟨rfl, rfl, ?_⟩
            intro hd
            simp [CacheFile.isData] at hd
      · simp only [List.mem_singleton] at h
        subst h
        refine Or.inr ⟨rfl, rfl, fun _ => ⟨?_, pr, hpr, rfl⟩⟩
        simpa using hany

theorem step_files_mem (s : St) (op : Op) (f : CacheFile) (hf : f ∈ (step s op).files) :
    f ∈ s.files ∨ ∃ p k sg, op = .firstUse p f.table k sg := by
  cases op with
  | touchTable t => exact Or.inl hf
  | spawn => exact Or.inl hf
  | load p t => exact Or.inl hf
  | importCheck crash => exact Or.inl (sweep_subset _ _ _ f hf)
  | forceClear => exact Or.inl (sweep_subset _ _ _ f hf)
  | firstUse p t k sg =>
    rcases firstUse_files_mem s p t k sg f hf with h | ⟨h, _⟩
    · exact Or.inl h
    · exact Or.inr ⟨p, k, sg, by rw [h]⟩

theorem tablesKnown_foldl (ops : List Op) (s : St) (hs : TablesKnown s) (h : OpsKnown ops) :
    TablesKnown (ops.foldl step s) := by
  induction ops generalizing s with
  | nil => exact hs
  | cons op rest ih =>
    simp only [List.foldl_cons]
    apply ih
    · intro f hf
      rcases step_files_mem s op f hf with h1 | ⟨p, k, sg, h1⟩
      · exact hs f h1
      · exact h p f.table k sg (h1 ▸ List.mem_cons_self)
    · intro p t k sg hm
      exact h p t k sg (List.mem_cons_of_mem _ hm)

theorem tablesKnown_run (ops : List Op) (h : OpsKnown ops) : TablesKnown (run ops) :=
  tablesKnown_foldl ops init (fun _ hf => by cases hf) h

/-! ### Clock / staleness invariant for atomic histories -/

/-- one-step atomicity condition (the head conjunct of `AtomicFirstUse`): a first use that compiles does so from
the current table version -/
def AtomicOp (s : St) (op : Op) : Prop :=
  match op with
  | .firstUse p t k sg =>
    (s.files.any (fun f => f.table == t && f.kernel == k && f.sig == some sg)) ∨
    (∀ pr, s.procs[p]? = some pr → ∀ v, lookupLoaded pr t = some v → v = s.tableVersion t)
  | _ => True

/-- mtimes are clock values, and every stale data file is older than its table (index files carry no table values:
their `builtFrom` is meaningless and their mtime is renewed on every compilation, so nothing is claimed about them) -/
structure Inv (s : St) : Prop where
  fileClock : ∀ f ∈ s.files, f.mtime ≤ s.clock
  tableClock : ∀ t, s.tableMtime t ≤ s.clock
  stale : ∀ f ∈ s.files, f.isData = true → f.builtFrom ≠ s.tableVersion f.table → f.mtime < s.tableMtime f.table

theorem inv_init : Inv init :=
  ⟨fun _ hf => (by cases hf), fun _ => Nat.le_refl _, fun _ hf => (by cases hf)⟩

theorem inv_of_subset (s : St) (files : List CacheFile) (hi : Inv s) (hsub : ∀ f ∈ files, f ∈ s.files) :
    Inv { s with clock := s.clock + 1, files := files } :=
  ⟨fun f hf => Nat.le_succ_of_le (hi.fileClock f (hsub f hf)),
   fun t => Nat.le_succ_of_le (hi.tableClock t),
   fun f hf => hi.stale f (hsub f hf)⟩

theorem inv_procs (s : St) (procs : List Proc) (hi : Inv s) :
    Inv { s with clock := s.clock + 1, procs := procs } :=
  ⟨fun f hf => Nat.le_succ_of_le (hi.fileClock f hf),
   fun t => Nat.le_succ_of_le (hi.tableClock t),
   fun f hf => hi.stale f hf⟩

theorem step_firstUse_clock (s : St) (p t k sg : Nat) : (step s (.firstUse p t k sg)).clock = s.clock + 1 := by
  simp only [step]
  split
  · rfl
  · split <;> rfl

theorem step_firstUse_tableMtime (s : St) (p t k sg : Nat) :
    (step s (.firstUse p t k sg)).tableMtime = s.tableMtime := by
  simp only [step]
  split
  · rfl
  · split <;> rfl

theorem step_firstUse_tableVersion (s : St) (p t k sg : Nat) :
    (step s (.firstUse p t k sg)).tableVersion = s.tableVersion := by
  simp only [step]
  split
  · rfl
  · split <;> rfl

theorem inv_step (s : St) (op : Op) (hi : Inv s) (ha : AtomicOp s op) : Inv (step s op) := by
  cases op with
  | spawn => exact inv_procs s _ hi
  | load p t => exact inv_procs s _ hi
  | importCheck crash => exact inv_of_subset s _ hi (sweep_subset s false crash)
  | forceClear => exact inv_of_subset s _ hi (sweep_subset s true none)
  | touchTable t =>
    refine ⟨fun f hf => Nat.le_succ_of_le (hi.fileClock f hf), ?_, ?_⟩
    · intro x
      show (if x = t then s.clock + 1 else s.tableMtime x) ≤ s.clock + 1
      split
      · exact Nat.le_refl _
      · exact Nat.le_succ_of_le (hi.tableClock x)
    · intro f hf hd
      show f.builtFrom ≠ (if f.table = t then s.tableVersion f.table + 1 else s.tableVersion f.table) →
        f.mtime < (if f.table = t then s.clock + 1 else s.tableMtime f.table)
      have hc := hi.fileClock f hf
      by_cases h : f.table = t
      · rw [if_pos h, if_pos h]; intro _; omega
      · rw [if_neg h, if_neg h]; exact hi.stale f hf hd
  | firstUse p t k sg =>
    refine ⟨?_, ?_, ?_⟩
    · intro f hf
      rw [step_firstUse_clock]
      rcases firstUse_files_mem s p t k sg f hf with h | ⟨_, h, _⟩
      · exact Nat.le_succ_of_le (hi.fileClock f h)
      · exact Nat.le_of_eq h
    · intro x
      rw [step_firstUse_clock, step_firstUse_tableMtime]
      exact Nat.le_succ_of_le (hi.tableClock x)
    · intro f hf hd
      rw [step_firstUse_tableMtime, step_firstUse_tableVersion]
      rcases firstUse_files_mem s p t k sg f hf with h | ⟨ht, _, h⟩
      · exact hi.stale f h hd
      · obtain ⟨hany, pr, hpr, hb⟩ := h hd
        intro hne
        exfalso
        apply hne
        rw [hb, ht]
        rcases ha with ha | ha
        · rw [hany] at ha; cases ha
        · cases hl : lookupLoaded pr t with
          | none => rfl
          | some v => exact ha pr hpr v hl

/-! ### Counterexamples showing that the drafts without the known-table hypothesis are false -/

/-- a state with a cache (data) file of an unknown table (2) older than that table: the check does not look at it -/
def cexState : St :=
  { tableMtime := fun _ => 1, tableVersion := fun _ => 0, files := [⟨2, 0, some 0, 0, 0⟩], procs := [], clock := 1 }

theorem complete_check_mtime_fresh_unrestricted_false :
    ¬ (∀ s : St, MtimeFresh (step s (.importCheck none))) := by
  intro h
  have := h cexState ⟨2, 0, some 0, 0, 0⟩ (by decide)
  revert this
  decide

/-- a history reaching such a state: a kernel of unknown table 2 is first-used (index file and data file written at
time 2), then table 2 is touched (time 3) -/
def cexOps : List Op := [.spawn, .firstUse 0 2 0 0, .touchTable 2]

theorem reachable_then_check_fresh_unrestricted_false :
    ¬ (∀ ops : List Op, MtimeFresh (step (run ops) (.importCheck none))) := by
  intro h
  have := h cexOps ⟨2, 0, some 0, 2, 0⟩ (by decide)
  revert this
  decide

end Pybes3Verif.Cache
