import Pybes3Verif.Proofs.C08MdcDefs
namespace Pybes3Verif.C08
open Pybes3Verif.Util Pybes3Verif.Gen Pybes3Verif.Gen.Mdc Pybes3Verif.Gen.MdcTables Pybes3Verif.Gen.DigiId

theorem mdcDense_b : ∀ g, g < nWires → mdcDenseOk g = true :=
  forall_lt_of_allBlock mdcDenseOk nWires 13 (by decide +kernel) (by decide)
theorem mdcOrder_b : ∀ g, g < nWires - 1 → mdcOrderOk g = true :=
  forall_lt_of_allBlock mdcOrderOk (nWires - 1) 13 (by decide +kernel) (by decide)

end Pybes3Verif.C08
