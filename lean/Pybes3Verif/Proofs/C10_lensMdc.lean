import Pybes3Verif.Proofs.C10Defs
namespace Pybes3Verif.C10
open Pybes3Verif.Util Pybes3Verif.Gen Pybes3Verif.Gen.Reid Pybes3Verif.Gen.DigiId

theorem lensMdc : tbl_mdc_len = 16384 ∧ tbl_mdc_nchunks = 256 ∧ ref_mdc_nchunks = 256 ∧ sorted_mdc_len = 10927 := by decide

end Pybes3Verif.C10
