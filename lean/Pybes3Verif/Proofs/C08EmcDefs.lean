import Pybes3Verif.Util.Packed
import Pybes3Verif.Gen.Emc
import Pybes3Verif.Gen.DigiId
import Pybes3Verif.Gen.DocGid
/-! Bool predicates evaluated over the EMC tables for C08 (definitions only). -/
namespace Pybes3Verif.C08E
open Pybes3Verif.Util Pybes3Verif.Gen Pybes3Verif.Gen.Emc Pybes3Verif.Gen.EmcTables Pybes3Verif.Gen.DigiId

abbrev B (n : Nat) : BitVec 64 := BitVec.ofNat 64 n

/-- number of crystals (documented range 0~6239) -/
def nCrystals : Nat := 6240

def emcDenseOk (g : Nat) : Bool := npz_gid g == B g

/-- documented order: endcap 0 by (theta, phi), barrel by (theta, phi), endcap 1 by (-theta, phi) -/
def emcOrderOk (g : Nat) : Bool :=
  let p1 := (emc_gid_to_part (B g)).toNat; let t1 := (emc_gid_to_theta (B g)).toNat; let f1 := (emc_gid_to_phi (B g)).toNat
  let p2 := (emc_gid_to_part (B (g + 1))).toNat; let t2 := (emc_gid_to_theta (B (g + 1))).toNat
  let f2 := (emc_gid_to_phi (B (g + 1))).toNat
  decide (p1 < p2) || (decide (p1 = p2) &&
    ((if p1 = 2 then decide (t2 < t1) else decide (t1 < t2)) || (decide (t1 = t2) && decide (f1 < f2))))

def emcInvOk (g : Nat) : Bool :=
  get_emc_gid (emc_gid_to_part (B g)) (emc_gid_to_theta (B g)) (emc_gid_to_phi (B g)) == B g

/-- documented number of crystals in ring (part, theta); `none` when (part, theta) names no ring.
Endcaps: the tables of docs/user-manual/detector/global-id.md (parsed into `DocGid`); barrel: 44 rings of 120. -/
def docRing (p t : Nat) : Option Nat :=
  if p = 0 then (DocGid.emcEndcap0.find? (fun r => r.2.2.2 == t)).map (fun r => r.2.2.1)
  else if p = 2 then (DocGid.emcEndcap1.find? (fun r => r.2.2.2 == t)).map (fun r => r.2.2.1)
  else if p = 1 then (if t < 44 then some 120 else none)
  else none

/-- index i encodes (part, theta, phi) = (i / 8192, (i / 128) % 64, i % 128) -/
def emcTripleOk (i : Nat) : Bool :=
  let p := i / 8192; let t := (i / 128) % 64; let f := i % 128
  match docRing p t with
  | none => true
  | some n =>
    !(decide (f < n)) ||
      (let g := get_emc_gid (B p) (B t) (B f)
       emc_gid_to_part g == B p && emc_gid_to_theta g == B t && emc_gid_to_phi g == B f && decide (g.toNat < nCrystals))

/-- every documented ring row (first, last, n, theta) of part p starts and ends where the docs say -/
def ringRowsOk (p : Nat) (rows : List (Nat × Nat × Nat × Nat)) : Bool :=
  rows.all (fun r => get_emc_gid (B p) (B r.2.2.2) (B 0) == B r.1 && get_emc_gid (B p) (B r.2.2.2) (B (r.2.2.1 - 1)) == B r.2.1
    && decide (r.2.1 + 1 - r.1 = r.2.2.1))

def emcDigiOk (g : Nat) : Bool :=
  let id := get_emc_digi_id (emc_gid_to_part (B g)) (emc_gid_to_theta (B g)) (emc_gid_to_phi (B g))
  check_emc_id id && get_emc_gid (emc_id_to_module id) (emc_id_to_theta id) (emc_id_to_phi id) == B g

end Pybes3Verif.C08E
