import Pybes3Verif.Proofs.HelixReal
/-!
Helper lemmas for Group A (C06 + C11): geometry of `changePivot` over ℝ.
-/
namespace Pybes3Verif.Helix
open Real

local notation "R" => realOps

/-! ### projections of `realOps` (so that `realOps` itself never has to be unfolded) -/

theorem R_add (a b : ℝ) : realOps.add a b = a + b := rfl
theorem R_sub (a b : ℝ) : realOps.sub a b = a - b := rfl
theorem R_mul (a b : ℝ) : realOps.mul a b = a * b := rfl
theorem R_div (a b : ℝ) : realOps.div a b = a / b := rfl
theorem R_neg (a : ℝ) : realOps.neg a = -a := rfl
theorem R_abs (a : ℝ) : realOps.abs a = |a| := rfl
theorem R_sqrt (a : ℝ) : realOps.sqrt a = √a := rfl
theorem R_cos (a : ℝ) : realOps.cos a = cos a := rfl
theorem R_sin (a : ℝ) : realOps.sin a = sin a := rfl
theorem R_atan2 (y x : ℝ) : realOps.atan2 y x = Complex.arg ⟨x, y⟩ := rfl
theorem R_floor (a : ℝ) : realOps.floor a = (⌊a⌋ : ℝ) := rfl
theorem R_pi : realOps.pi = π := rfl
theorem R_zero : realOps.zero = 0 := rfl
theorem R_one : realOps.one = 1 := rfl
theorem R_two : realOps.two = 2 := rfl
theorem R_alpha : realOps.alpha = alpha0 := rfl
theorem R_lt (a b : ℝ) : realOps.lt a b = decide (a < b) := rfl
theorem twoPi_eq : twoPi R = 2 * π := rfl

/-! ### `pmod` and `normDphi` -/

theorem two_pi_pos' : (0 : ℝ) < 2 * π := by positivity

theorem pmod_eq (a : ℝ) : pmod R a (twoPi R) = a - 2 * π * (⌊a / (2 * π)⌋ : ℝ) := rfl

theorem pmod_nonneg (a : ℝ) : 0 ≤ pmod R a (twoPi R) := by
  rw [pmod_eq]
  have h := Int.floor_le (a / (2 * π))
  have h2 := mul_le_mul_of_nonneg_left h two_pi_pos'.le
  have h3 : 2 * π * (a / (2 * π)) = a := mul_div_cancel₀ a two_pi_pos'.ne'
  linarith

theorem pmod_lt (a : ℝ) : pmod R a (twoPi R) < 2 * π := by
  rw [pmod_eq]
  have h := Int.lt_floor_add_one (a / (2 * π))
  have h2 := mul_lt_mul_of_pos_left h two_pi_pos'
  have h3 : 2 * π * (a / (2 * π)) = a := mul_div_cancel₀ a two_pi_pos'.ne'
  linarith

theorem pmod_congr (a : ℝ) : ∃ k : ℤ, pmod R a (twoPi R) = a + k * (2 * π) :=
  ⟨-⌊a / (2 * π)⌋, by rw [pmod_eq]; push_cast; ring⟩

theorem cos_pmod (a : ℝ) : cos (pmod R a (twoPi R)) = cos a := by
  rw [pmod_eq, show 2 * π * (⌊a / (2 * π)⌋ : ℝ) = (⌊a / (2 * π)⌋ : ℝ) * (2 * π) by ring]
  exact Real.cos_sub_int_mul_two_pi a _

theorem sin_pmod (a : ℝ) : sin (pmod R a (twoPi R)) = sin a := by
  rw [pmod_eq, show 2 * π * (⌊a / (2 * π)⌋ : ℝ) = (⌊a / (2 * π)⌋ : ℝ) * (2 * π) by ring]
  exact Real.sin_sub_int_mul_two_pi a _

/-- two reals in a half-open window of length 2π that differ by a multiple of 2π are equal -/
theorem eq_of_congr_window {x y lo : ℝ} {k : ℤ} (hx1 : lo < x) (hx2 : x ≤ lo + 2 * π)
    (hy1 : lo < y) (hy2 : y ≤ lo + 2 * π) (h : x = y + k * (2 * π)) : x = y := by
  have hp := two_pi_pos'
  have h1 : (k : ℝ) < 1 := by
    by_contra hc
    push Not at hc
    have := mul_le_mul_of_nonneg_right hc hp.le
    linarith
  have h2 : (-1 : ℝ) < k := by
    by_contra hc
    push Not at hc
    have := mul_le_mul_of_nonneg_right hc hp.le
    linarith
  have h1' : k < 1 := by exact_mod_cast h1
  have h2' : -1 < k := by exact_mod_cast h2
  have : k = 0 := by omega
  subst this
  simpa using h

theorem eq_of_congr_window' {x y lo : ℝ} {k : ℤ} (hx1 : lo ≤ x) (hx2 : x < lo + 2 * π)
    (hy1 : lo ≤ y) (hy2 : y < lo + 2 * π) (h : x = y + k * (2 * π)) : x = y := by
  have hp := two_pi_pos'
  have h1 : (k : ℝ) < 1 := by
    by_contra hc
    push Not at hc
    have := mul_le_mul_of_nonneg_right hc hp.le
    linarith
  have h2 : (-1 : ℝ) < k := by
    by_contra hc
    push Not at hc
    have := mul_le_mul_of_nonneg_right hc hp.le
    linarith
  have h1' : k < 1 := by exact_mod_cast h1
  have h2' : -1 < k := by exact_mod_cast h2
  have : k = 0 := by omega
  subst this
  simpa using h

/-- two angles in [0, 2π) with equal cosine and sine are equal -/
theorem eq_of_cos_sin_eq {x y : ℝ} (hx1 : 0 ≤ x) (hx2 : x < 2 * π) (hy1 : 0 ≤ y) (hy2 : y < 2 * π)
    (hc : cos x = cos y) (hs : sin x = sin y) : x = y := by
  have h1 : cos (x - y) = 1 := by
    rw [Real.cos_sub, hc, hs]
    have := Real.sin_sq_add_cos_sq y
    nlinarith
  obtain ⟨n, hn⟩ := (Real.cos_eq_one_iff _).1 h1
  refine eq_of_congr_window' (lo := 0) (k := n) hx1 (by linarith) hy1 (by linarith) ?_
  linarith

theorem pmod_eq_of_cos_sin {a y : ℝ} (hy1 : 0 ≤ y) (hy2 : y < 2 * π)
    (hc : cos a = cos y) (hs : sin a = sin y) : pmod R a (twoPi R) = y :=
  eq_of_cos_sin_eq (pmod_nonneg a) (pmod_lt a) hy1 hy2 ((cos_pmod a).trans hc) ((sin_pmod a).trans hs)

theorem normDphi_eq (d : ℝ) : normDphi R d =
    if π < pmod R d (twoPi R) then pmod R d (twoPi R) - 2 * π else pmod R d (twoPi R) := by
  simp only [normDphi, R_lt, R_sub, R_pi, decide_eq_true_eq]
  split_ifs <;> rfl

theorem normDphi_spec (d : ℝ) :
    -π < normDphi R d ∧ normDphi R d ≤ π ∧ ∃ k : ℤ, normDphi R d = d + k * (2 * π) := by
  rw [normDphi_eq]
  have h0 := pmod_nonneg d
  have h1 := pmod_lt d
  obtain ⟨k, hk⟩ := pmod_congr d
  have hpi := Real.pi_pos
  split_ifs with h
  · refine ⟨by linarith, by linarith, k - 1, ?_⟩
    rw [hk]; push_cast; ring
  · push Not at h
    exact ⟨by linarith, h, k, hk⟩

theorem normDphi_zero : normDphi R 0 = 0 := by
  obtain ⟨h1, h2, k, hk⟩ := normDphi_spec 0
  have hpi := Real.pi_pos
  exact eq_of_congr_window (lo := -π) (k := k) h1 (by linarith) (by linarith) (by linarith) hk

/-- `normDphi` of the opposite angle, away from the branch point -/
theorem normDphi_neg {d : ℝ} (hd : normDphi R d ≠ π) : normDphi R (-d) = -normDphi R d := by
  obtain ⟨h1, h2, k, hk⟩ := normDphi_spec d
  obtain ⟨g1, g2, l, hl⟩ := normDphi_spec (-d)
  have h2' : normDphi R d < π := lt_of_le_of_ne h2 hd
  refine eq_of_congr_window (lo := -π) (k := l + k) g1 (by linarith) (by linarith) (by linarith) ?_
  rw [hl, hk]; push_cast; ring

/-! ### signed radius and centre -/

theorem alpha0_pos : 0 < alpha0 := by unfold alpha0; norm_num

theorem signedRadius_eq (k : ℝ) :
    signedRadius R k = if 0 < k then -(alpha0 / |k|) else alpha0 / |k| := by
  simp only [signedRadius, radius, R_lt, R_neg, R_div, R_abs, R_zero, R_alpha, decide_eq_true_eq]

theorem signedRadius_eq_rho' (k : ℝ) (hk : k ≠ 0) : signedRadius R k = -alpha0 / k := by
  rw [signedRadius_eq]
  split_ifs with h
  · rw [abs_of_pos h]; ring
  · push Not at h
    have h' : k < 0 := lt_of_le_of_ne h hk
    rw [abs_of_neg h', div_neg, neg_div]

theorem rho_ne_zero (h : Params ℝ) (hk : h.kappa ≠ 0) : rho h ≠ 0 := by
  unfold rho
  exact div_ne_zero (neg_ne_zero.2 alpha0_pos.ne') hk

theorem centre_eq (h : Params ℝ) (p : Vec3 ℝ) :
    centre R h p = (p.x + (h.dr + signedRadius R h.kappa) * cos h.phi0,
                    p.y + (h.dr + signedRadius R h.kappa) * sin h.phi0) := rfl

/-! ### `fromCentre` -/

theorem fromCentre_fst (c : ℝ × ℝ) (p' : Vec3 ℝ) (r : ℝ) :
    (fromCentre R c p' r).1 =
      (if r < 0 then -1 else 1) *
        √((c.1 - p'.x) * (c.1 - p'.x) + (c.2 - p'.y) * (c.2 - p'.y)) - r := by
  simp only [fromCentre, sgn, R_lt, R_neg, R_sub, R_mul, R_add, R_sqrt, R_one, R_zero, decide_eq_true_eq]

theorem fromCentre_snd (c : ℝ × ℝ) (p' : Vec3 ℝ) (r : ℝ) :
    (fromCentre R c p' r).2 =
      pmod R (Complex.arg ⟨c.1 - p'.x, c.2 - p'.y⟩ + (if r < 0 then π else 0)) (twoPi R) := by
  simp only [fromCentre, R_lt, R_sub, R_add, R_atan2, R_pi, R_zero, decide_eq_true_eq]

theorem fromCentre_phi_nonneg (c : ℝ × ℝ) (p' : Vec3 ℝ) (r : ℝ) : 0 ≤ (fromCentre R c p' r).2 := by
  rw [fromCentre_snd]; exact pmod_nonneg _

theorem fromCentre_phi_lt (c : ℝ × ℝ) (p' : Vec3 ℝ) (r : ℝ) : (fromCentre R c p' r).2 < 2 * π := by
  rw [fromCentre_snd]; exact pmod_lt _

theorem norm_mk (X Y : ℝ) : ‖(⟨X, Y⟩ : ℂ)‖ = √(X * X + Y * Y) := by
  rw [Complex.norm_def, Complex.normSq_mk]

/-- the defining property of `fromCentre`: the new `(dr, φ0)` reproduce the vector pivot → centre -/
theorem fromCentre_vec (c : ℝ × ℝ) (p' : Vec3 ℝ) (r : ℝ) :
    ((fromCentre R c p' r).1 + r) * cos (fromCentre R c p' r).2 = c.1 - p'.x ∧
    ((fromCentre R c p' r).1 + r) * sin (fromCentre R c p' r).2 = c.2 - p'.y := by
  rw [fromCentre_fst, fromCentre_snd, cos_pmod, sin_pmod]
  set X := c.1 - p'.x with hX
  set Y := c.2 - p'.y with hY
  by_cases hz : (⟨X, Y⟩ : ℂ) = 0
  · have hX0 : X = 0 := by simpa using congrArg Complex.re hz
    have hY0 : Y = 0 := by simpa using congrArg Complex.im hz
    rw [hX0, hY0]; simp
  · have hc := Complex.cos_arg hz
    have hs := Complex.sin_arg (⟨X, Y⟩ : ℂ)
    rw [norm_mk] at hc hs
    simp only [] at hc hs
    have hn : √(X * X + Y * Y) ≠ 0 := by
      rw [← norm_mk]; exact norm_ne_zero_iff.2 hz
    generalize √(X * X + Y * Y) = s at hc hs hn ⊢
    split_ifs with hr
    · rw [Real.cos_add_pi, Real.sin_add_pi, hc, hs]
      constructor <;> field_simp <;> ring
    · rw [add_zero, hc, hs]
      constructor <;> field_simp <;> ring

/-- `dr' + r = sgn r · |v|` -/
theorem fromCentre_dr_add (c : ℝ × ℝ) (p' : Vec3 ℝ) (r : ℝ) :
    (fromCentre R c p' r).1 + r =
      (if r < 0 then -1 else 1) *
        √((c.1 - p'.x) * (c.1 - p'.x) + (c.2 - p'.y) * (c.2 - p'.y)) := by
  rw [fromCentre_fst]; ring

theorem sqrt_pos_of_off {X Y : ℝ} (h : X ≠ 0 ∨ Y ≠ 0) : 0 < √(X * X + Y * Y) := by
  apply Real.sqrt_pos.2
  rcases h with h | h
  · have := mul_self_pos.2 h; nlinarith [mul_self_nonneg Y]
  · have := mul_self_pos.2 h; nlinarith [mul_self_nonneg X]

theorem fromCentre_side (c : ℝ × ℝ) (p' : Vec3 ℝ) (r : ℝ) (hr : r ≠ 0)
    (hoff : c.1 - p'.x ≠ 0 ∨ c.2 - p'.y ≠ 0) : 0 < ((fromCentre R c p' r).1 + r) / r := by
  rw [fromCentre_dr_add]
  have hs := sqrt_pos_of_off hoff
  split_ifs with h
  · rw [neg_one_mul, neg_div]
    exact neg_pos.2 (div_neg_of_pos_of_neg hs h)
  · push Not at h
    rw [one_mul]
    exact div_pos hs (lt_of_le_of_ne h (Ne.symm hr))

theorem fromCentre_abs_dr (c : ℝ × ℝ) (p' : Vec3 ℝ) (r : ℝ) :
    abs (fromCentre R c p' r).1 =
      abs (√((c.1 - p'.x) ^ 2 + (c.2 - p'.y) ^ 2) - abs r) := by
  rw [fromCentre_fst, ← sq, ← sq]
  split_ifs with h
  · rw [abs_of_neg h, neg_one_mul, ← abs_neg]; congr 1; ring
  · push Not at h
    rw [abs_of_nonneg h, one_mul]

/-- moving to the same pivot: `fromCentre` gives back `(dr, φ0)` of a helix in normal form -/
theorem fromCentre_self (dr φ r x y : ℝ) (p : Vec3 ℝ) (hr : r ≠ 0) (hs : 0 < (dr + r) / r)
    (h0 : 0 ≤ φ) (h1 : φ < 2 * π) (hx : p.x = x) (hy : p.y = y) :
    fromCentre R (x + (dr + r) * cos φ, y + (dr + r) * sin φ) p r = (dr, φ) := by
  have hv := fromCentre_vec (x + (dr + r) * cos φ, y + (dr + r) * sin φ) p r
  have hd := fromCentre_dr_add (x + (dr + r) * cos φ, y + (dr + r) * sin φ) p r
  have g0 := fromCentre_phi_nonneg (x + (dr + r) * cos φ, y + (dr + r) * sin φ) p r
  have g1 := fromCentre_phi_lt (x + (dr + r) * cos φ, y + (dr + r) * sin φ) p r
  set n := fromCentre R (x + (dr + r) * cos φ, y + (dr + r) * sin φ) p r with hn
  simp only [hx, hy, add_sub_cancel_left] at hv hd
  have hsq : ((dr + r) * cos φ) * ((dr + r) * cos φ) + ((dr + r) * sin φ) * ((dr + r) * sin φ)
      = (dr + r) ^ 2 := by
    have := Real.sin_sq_add_cos_sq φ
    linear_combination (dr + r) ^ 2 * this
  rw [hsq, Real.sqrt_sq_eq_abs] at hd
  have hne : dr + r ≠ 0 := by
    intro h; rw [h, zero_div] at hs; exact lt_irrefl _ hs
  -- n.1 + r = dr + r
  have hdr : n.1 + r = dr + r := by
    rw [hd]
    split_ifs with h
    · have : dr + r < 0 := by
        by_contra hc; push Not at hc
        have := div_nonpos_of_nonneg_of_nonpos hc h.le
        linarith
      rw [abs_of_neg this]; ring
    · push Not at h
      have hr' : 0 < r := lt_of_le_of_ne h (Ne.symm hr)
      have : 0 < dr + r := by
        by_contra hc; push Not at hc
        have := div_nonpos_of_nonpos_of_nonneg hc hr'.le
        linarith
      rw [abs_of_pos this]; ring
  rw [hdr] at hv
  have hc : cos n.2 = cos φ := mul_left_cancel₀ hne hv.1
  have hsn : sin n.2 = sin φ := mul_left_cancel₀ hne hv.2
  have hphi : n.2 = φ := eq_of_cos_sin_eq g0 g1 h0 h1 hc hsn
  exact Prod.ext (by simpa using (add_right_cancel hdr)) hphi

/-! ### `changePivot` field by field -/

theorem cp_dr (h : Params ℝ) (p p' : Vec3 ℝ) :
    (changePivot R h p p').dr = (fromCentre R (centre R h p) p' (signedRadius R h.kappa)).1 := rfl
theorem cp_phi0 (h : Params ℝ) (p p' : Vec3 ℝ) :
    (changePivot R h p p').phi0 = (fromCentre R (centre R h p) p' (signedRadius R h.kappa)).2 := rfl
theorem cp_kappa (h : Params ℝ) (p p' : Vec3 ℝ) : (changePivot R h p p').kappa = h.kappa := rfl
theorem cp_tanl (h : Params ℝ) (p p' : Vec3 ℝ) : (changePivot R h p p').tanl = h.tanl := rfl
theorem cp_rho (h : Params ℝ) (p p' : Vec3 ℝ) : rho (changePivot R h p p') = rho h := rfl
theorem cp_dz (h : Params ℝ) (p p' : Vec3 ℝ) :
    (changePivot R h p p').dz =
      p.z + h.dz - signedRadius R h.kappa * h.tanl * dphiOf R h p p' - p'.z := rfl
theorem dphiOf_eq (h : Params ℝ) (p p' : Vec3 ℝ) :
    dphiOf R h p p' = normDphi R ((changePivot R h p p').phi0 - h.phi0) := rfl

theorem params_ext {a b : Params ℝ} (h1 : a.dr = b.dr) (h2 : a.phi0 = b.phi0) (h3 : a.kappa = b.kappa)
    (h4 : a.dz = b.dz) (h5 : a.tanl = b.tanl) : a = b := by
  cases a; cases b; simp only [Params.mk.injEq]; exact ⟨h1, h2, h3, h4, h5⟩

theorem centre_eq_specCentre' (h : Params ℝ) (p : Vec3 ℝ) (hk : h.kappa ≠ 0) :
    centre R h p = specCentre h p := by
  rw [centre_eq, signedRadius_eq_rho' _ hk]; rfl

theorem cp_dr_phi (h : Params ℝ) (p p' : Vec3 ℝ) (hk : h.kappa ≠ 0) :
    ((changePivot R h p p').dr, (changePivot R h p p').phi0) =
      fromCentre R (specCentre h p) p' (rho h) := by
  rw [cp_dr, cp_phi0, centre_eq_specCentre' h p hk, signedRadius_eq_rho' _ hk]; rfl

/-- centre preserved (no off-centre hypothesis needed) -/
theorem cp_centre (h : Params ℝ) (p p' : Vec3 ℝ) (hk : h.kappa ≠ 0) :
    specCentre (changePivot R h p p') p' = specCentre h p := by
  have e := cp_dr_phi h p p' hk
  have hv := fromCentre_vec (specCentre h p) p' (rho h)
  rw [← e] at hv
  simp only at hv
  unfold specCentre
  rw [cp_rho]
  refine Prod.ext ?_ ?_
  · simp only; rw [hv.1]; unfold specCentre; ring
  · simp only; rw [hv.2]; unfold specCentre; ring

/-- two steps give the same transverse parameters as one -/
theorem cp_cp_dr_phi (h : Params ℝ) (p p₁ p₂ : Vec3 ℝ) (hk : h.kappa ≠ 0) :
    (changePivot R (changePivot R h p p₁) p₁ p₂).dr = (changePivot R h p p₂).dr ∧
    (changePivot R (changePivot R h p p₁) p₁ p₂).phi0 = (changePivot R h p p₂).phi0 := by
  have e1 := cp_dr_phi (changePivot R h p p₁) p₁ p₂ hk
  have e2 := cp_dr_phi h p p₂ hk
  rw [cp_centre h p p₁ hk, cp_rho, ← e2] at e1
  exact ⟨congrArg Prod.fst e1, congrArg Prod.snd e1⟩

/-- dz after two steps, in terms of the two turning angles -/
theorem cp_cp_dz (h : Params ℝ) (p p₁ p₂ : Vec3 ℝ) :
    (changePivot R (changePivot R h p p₁) p₁ p₂).dz =
      p.z + h.dz - signedRadius R h.kappa * h.tanl *
        (dphiOf R h p p₁ + dphiOf R (changePivot R h p p₁) p₁ p₂) - p₂.z := by
  rw [cp_dz (changePivot R h p p₁) p₁ p₂, cp_dz h p p₁, cp_kappa, cp_tanl]; ring

/-- the accumulated turning angle is congruent to the direct one -/
theorem dphi_sum_congr (h : Params ℝ) (p p₁ p₂ : Vec3 ℝ) (hk : h.kappa ≠ 0) :
    ∃ k : ℤ, dphiOf R h p p₁ + dphiOf R (changePivot R h p p₁) p₁ p₂ =
      dphiOf R h p p₂ + k * (2 * π) := by
  obtain ⟨-, -, k1, e1⟩ := normDphi_spec ((changePivot R h p p₁).phi0 - h.phi0)
  obtain ⟨-, -, k2, e2⟩ := normDphi_spec
    ((changePivot R (changePivot R h p p₁) p₁ p₂).phi0 - (changePivot R h p p₁).phi0)
  obtain ⟨-, -, k3, e3⟩ := normDphi_spec ((changePivot R h p p₂).phi0 - h.phi0)
  rw [← dphiOf_eq] at e1 e2 e3
  rw [(cp_cp_dr_phi h p p₁ p₂ hk).2] at e2
  refine ⟨k1 + k2 - k3, ?_⟩
  rw [e1, e2, e3]; push_cast; ring

theorem cp_path_dz (h : Params ℝ) (p p₁ p₂ : Vec3 ℝ) (hk : h.kappa ≠ 0) :
    ∃ k : ℤ, (changePivot R (changePivot R h p p₁) p₁ p₂).dz =
      (changePivot R h p p₂).dz + k * (2 * π * rho h * h.tanl) := by
  obtain ⟨k, e⟩ := dphi_sum_congr h p p₁ p₂ hk
  refine ⟨-k, ?_⟩
  rw [cp_cp_dz, e, cp_dz h p p₂, signedRadius_eq_rho' _ hk]
  unfold rho; push_cast; ring

theorem cp_path_dz_exact (h : Params ℝ) (p p₁ p₂ : Vec3 ℝ) (hk : h.kappa ≠ 0)
    (hs : -π < dphiOf R h p p₁ + dphiOf R (changePivot R h p p₁) p₁ p₂ ∧
          dphiOf R h p p₁ + dphiOf R (changePivot R h p p₁) p₁ p₂ ≤ π) :
    (changePivot R (changePivot R h p p₁) p₁ p₂).dz = (changePivot R h p p₂).dz := by
  obtain ⟨k, e⟩ := dphi_sum_congr h p p₁ p₂ hk
  obtain ⟨g1, g2, -⟩ := normDphi_spec ((changePivot R h p p₂).phi0 - h.phi0)
  rw [← dphiOf_eq] at g1 g2
  have := eq_of_congr_window (lo := -π) (k := k) hs.1 (by linarith [hs.2]) g1 (by linarith) e
  rw [cp_cp_dz, this, cp_dz h p p₂]

theorem cp_self (h : Params ℝ) (p : Vec3 ℝ) (hv : Valid h) : changePivot R h p p = h := by
  have hk := hv.kappa_ne
  have e := cp_dr_phi h p p hk
  have hs := fromCentre_self h.dr h.phi0 (rho h) p.x p.y p (rho_ne_zero h hk) hv.side hv.phi_lo
    hv.phi_hi rfl rfl
  have e' : ((changePivot R h p p).dr, (changePivot R h p p).phi0) = (h.dr, h.phi0) := e.trans hs
  have e1 : (changePivot R h p p).dr = h.dr := congrArg Prod.fst e'
  have e2 : (changePivot R h p p).phi0 = h.phi0 := congrArg Prod.snd e'
  refine params_ext e1 e2 rfl ?_ rfl
  rw [cp_dz, dphiOf_eq, e2, sub_self, normDphi_zero]; ring

/-! ### concrete helices for the satisfiability examples -/

/-- a concrete helix in normal form (κ = −1, so ρ = α₀ > 0; dr = 1, φ0 = 1) used in the satisfiability examples of `Props/C06.lean` -/
noncomputable def exHelix : Params ℝ := { dr := 1, phi0 := 1, kappa := -1, dz := 2, tanl := 1 / 2 }

theorem exHelix_rho : rho exHelix = alpha0 := by
  simp [rho, exHelix]

/-- a concrete helix in normal form: κ = 1 (so ρ = −α₀ < 0), dr = −1, φ0 = 3 -/
noncomputable def exHelixPos : Params ℝ := { dr := -1, phi0 := 3, kappa := 1, dz := 0, tanl := -2 }

theorem exHelixPos_rho : rho exHelixPos = -alpha0 := by
  simp [rho, exHelixPos]

theorem exHelixPos_valid : Valid exHelixPos := by
  refine ⟨by simp [exHelixPos], by simp [exHelixPos], ?_, ?_⟩
  · have := Real.two_le_pi
    simp only [exHelixPos]; linarith
  · rw [exHelixPos_rho]
    have := alpha0_pos
    simp only [exHelixPos]
    rw [show (-1 + -alpha0) / -alpha0 = (1 + alpha0) / alpha0 by field_simp; ring]
    positivity

/-- a helix in normal form is never centred on its own pivot -/
theorem offCentre_self (h : Params ℝ) (p : Vec3 ℝ) (hv : Valid h) : OffCentre h p p := by
  have hne : h.dr + rho h ≠ 0 := by
    intro e; have := hv.side; rw [e, zero_div] at this; exact lt_irrefl _ this
  unfold OffCentre specCentre
  simp only [add_sub_cancel_left]
  by_contra hc
  push Not at hc
  have h1 : cos h.phi0 = 0 := (mul_eq_zero.1 hc.1).resolve_left hne
  have h2 : sin h.phi0 = 0 := (mul_eq_zero.1 hc.2).resolve_left hne
  have := Real.sin_sq_add_cos_sq h.phi0
  rw [h1, h2] at this
  norm_num at this

/-- the circle of `exHelix` about the pivot `(0, 0, 0)` has centre `(1 + α₀)(cos 1, sin 1)`, which is not
the new pivot `(0, 0, 7)`: `hk` and `hoff` of the theorems above hold for a non-trivial move -/
theorem exHelix_off : OffCentre exHelix ⟨0, 0, 0⟩ ⟨0, 0, 7⟩ := by
  unfold OffCentre specCentre
  rw [exHelix_rho]
  have h1 : 0 < cos 1 := Real.cos_one_pos
  have := alpha0_pos
  left
  simp only [exHelix]
  have : 0 < (1 + alpha0) * cos 1 := by positivity
  linarith

end Pybes3Verif.Helix
