import Pybes3Verif.Proofs.C08MdcDefs
namespace Pybes3Verif.C08
open Pybes3Verif.Util Pybes3Verif.Gen Pybes3Verif.Gen.Mdc Pybes3Verif.Gen.MdcTables Pybes3Verif.Gen.DigiId

theorem mdcPair_b : ∀ i, i < 13760 → mdcPairOk i = true :=
  forall_lt_of_allBlock mdcPairOk 13760 14 (by decide +kernel) (by decide)
theorem wiresLe_b : ∀ l, l < nLayers → wiresLeOk l = true :=
  forall_lt_of_allBlock wiresLeOk nLayers 6 (by decide +kernel) (by decide)

end Pybes3Verif.C08
