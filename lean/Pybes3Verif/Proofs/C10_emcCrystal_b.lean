import Pybes3Verif.Proofs.C10Defs
namespace Pybes3Verif.C10
open Pybes3Verif.Util Pybes3Verif.Gen Pybes3Verif.Gen.Reid Pybes3Verif.Gen.DigiId

theorem emcCrystal_b : ∀ g, g < 6240 → emcCrystalOk g = true :=
  forall_lt_of_allBlock emcCrystalOk 6240 13 (by decide +kernel) (by decide)

end Pybes3Verif.C10
