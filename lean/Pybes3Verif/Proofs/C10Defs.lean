import Pybes3Verif.Util.Packed
import Pybes3Verif.Gen.Reid
import Pybes3Verif.Gen.DigiId
import Pybes3Verif.Gen.Mdc
import Pybes3Verif.Gen.Emc
import Pybes3Verif.Gen.RawConsts
/-! Bool predicates evaluated over the electronics-id tables for C10, and the certificate lemma for injectivity. -/
namespace Pybes3Verif.C10
open Pybes3Verif.Util Pybes3Verif.Gen Pybes3Verif.Gen.Reid Pybes3Verif.Gen.DigiId

def INVALID : Nat := 0xFFFFFFFF
abbrev B (n : Nat) : BitVec 64 := BitVec.ofNat 64 n

/-- injectivity from a sorting certificate: `sorted` lists the mapped indices with strictly increasing values
and `rank` locates every mapped index in it -/
theorem inj_of_cert (vals sorted rank : Nat → Nat) (n m : Nat) (mapped : Nat → Prop)
    (h1 : ∀ k, k + 1 < m → vals (sorted k) < vals (sorted (k + 1)))
    (h2 : ∀ i, i < n → mapped i → rank i < m ∧ sorted (rank i) = i) :
    ∀ i j, i < n → j < n → mapped i → mapped j → vals i = vals j → i = j := by
  have mono : ∀ b a, a < b → b < m → vals (sorted a) < vals (sorted b) := by
    intro b
    induction b with
    | zero => intro a h; omega
    | succ b ih =>
      intro a hab hb
      have hlast := h1 b hb
      by_cases h : a = b
      · subst h; exact hlast
      · exact Nat.lt_trans (ih a (by omega) (by omega)) hlast
  intro i j hi hj mi mj hv
  obtain ⟨ri, si⟩ := h2 i hi mi
  obtain ⟨rj, sj⟩ := h2 j hj mj
  rcases Nat.lt_trichotomy (rank i) (rank j) with h | h | h
  · have := mono _ _ h rj; rw [si, sj] at this; omega
  · rw [← si, ← sj, h]
  · have := mono _ _ h ri; rw [si, sj] at this; omega

/-! ### per-table predicates (`raw` = table entry as Nat, `len`, certificate tables) -/

def eqRefMdc (j : Nat) : Bool := tbl_mdc_chunk j == ref_mdc_chunk j
def eqRefTof (j : Nat) : Bool := tbl_tof_chunk j == ref_tof_chunk j
def eqRefEmc (j : Nat) : Bool := tbl_emc_chunk j == ref_emc_chunk j
def eqRefMuc (j : Nat) : Bool := tbl_muc_chunk j == ref_muc_chunk j

/-- unmapped, or carries the detector's tag -/
def totalMdc (i : Nat) : Bool := tbl_mdc_raw i == INVALID || check_mdc_id (tbl_mdc i)
def totalTof (i : Nat) : Bool := tbl_tof_raw i == INVALID || check_tof_id (tbl_tof i)
def totalEmc (i : Nat) : Bool := tbl_emc_raw i == INVALID || check_emc_id (tbl_emc i)
def totalMuc (i : Nat) : Bool := tbl_muc_raw i == INVALID || check_muc_id (tbl_muc i)

def rankOk (raw rank sorted : Nat → Nat) (m i : Nat) : Bool :=
  raw i == INVALID || (decide (rank i < m) && sorted (rank i) == i)
def sortedOk (raw sorted : Nat → Nat) (m k : Nat) : Bool :=
  (decide (m ≤ k) || raw (sorted k) != INVALID) && (decide (m ≤ k + 1) || decide (raw (sorted k) < raw (sorted (k + 1))))

/-- MDC: a mapped identifier names a layer 0..42 and its wire-type bit is the stereo class of that layer in
the geometry table -/
def mdcFieldsOk (i : Nat) : Bool :=
  tbl_mdc_raw i == INVALID ||
    (decide ((mdc_id_to_layer (tbl_mdc i)).toNat < 43) &&
      (mdc_id_to_is_stereo (tbl_mdc i) == (Mdc.mdc_layer_to_is_stereo (mdc_id_to_layer (tbl_mdc i)) == 1)))

/-- every real MDC wire g is the image of the electronics id `inv_mdc g` -/
def mdcWireOk (g : Nat) : Bool :=
  decide (inv_mdc_raw g < tbl_mdc_len) &&
    (tbl_mdc (inv_mdc_raw g) == get_mdc_digi_id (Mdc.mdc_gid_to_wire (B g)) (Mdc.mdc_gid_to_layer (B g)) (Mdc.mdc_gid_to_is_stereo (B g)))

/-- EMC: a mapped identifier names a real crystal, and every crystal is the image of `inv_emc g` -/
def emcFieldsOk (i : Nat) : Bool :=
  tbl_emc_raw i == INVALID ||
    decide ((Emc.get_emc_gid (emc_id_to_module (tbl_emc i)) (emc_id_to_theta (tbl_emc i)) (emc_id_to_phi (tbl_emc i))).toNat < 6240)
def emcCrystalOk (g : Nat) : Bool :=
  decide (inv_emc_raw g < tbl_emc_len) &&
    (tbl_emc (inv_emc_raw g) == get_emc_digi_id (Emc.emc_gid_to_part (B g)) (Emc.emc_gid_to_theta (B g)) (Emc.emc_gid_to_phi (B g)))

/-- TOF: mapped identifiers are scintillator counters (part 0..2) with the documented field ranges -/
def tofFieldsOk (i : Nat) : Bool :=
  tbl_tof_raw i == INVALID ||
    (let id := tbl_tof i
     decide ((tof_id_to_part id).toNat < 3) && decide ((_tof_id_to_layer_or_module_1_u id).toNat < 2) &&
       decide ((_tof_id_to_phi_or_strip_1_u id).toNat < 96) && decide ((tof_id_to_end id).toNat < 2))

/-- MUC: mapped identifiers are FEC base identifiers: first strip a multiple of 16, part 0..2, segment 0..7, layer 0..8 -/
def mucFieldsOk (i : Nat) : Bool :=
  tbl_muc_raw i == INVALID ||
    (let id := tbl_muc i
     decide ((muc_id_to_part id).toNat < 3) && decide ((muc_id_to_segment id).toNat < 8) &&
       decide ((muc_id_to_layer id).toNat < 9) && decide ((muc_id_to_channel id).toNat % 16 = 0))

end Pybes3Verif.C10
