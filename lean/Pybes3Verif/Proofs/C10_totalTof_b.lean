import Pybes3Verif.Proofs.C10Defs
namespace Pybes3Verif.C10
open Pybes3Verif.Util Pybes3Verif.Gen Pybes3Verif.Gen.Reid Pybes3Verif.Gen.DigiId

theorem totalTof_b : ∀ i, i < 16384 → totalTof i = true :=
  forall_lt_of_allBlock totalTof 16384 14 (by decide +kernel) (by decide)

end Pybes3Verif.C10
