import Pybes3Verif.Proofs.C08MdcDefs
namespace Pybes3Verif.C08
open Pybes3Verif.Util Pybes3Verif.Gen Pybes3Verif.Gen.Mdc Pybes3Verif.Gen.MdcTables Pybes3Verif.Gen.DigiId

theorem mdcDigi_b : ∀ g, g < nWires → mdcDigiOk g = true :=
  forall_lt_of_allBlock mdcDigiOk nWires 13 (by decide +kernel) (by decide)

end Pybes3Verif.C08
