import Pybes3Verif.Model.Nested
/-!
Helper lemmas for Group N (C07 / C14): `unflat`, `rebuild`, `levels`, `flat`, `mapN`.  Core Lean only.
-/
namespace Pybes3Verif.Nested
variable {α β : Type}

/-! ### unfolding equations (stated on `List`s so that rewriting does not get stuck on `Nested`) -/

theorem flat_zero (xs : List α) : flat (α := α) 0 xs = xs := rfl
theorem flat_succ (d : Nat) (xs : List (List (Nested α d))) :
    flat (α := α) (d + 1) xs = flat d (List.flatten xs) := rfl
theorem levels_zero (xs : List α) : levels (α := α) 0 xs = [] := rfl
theorem levels_succ (d : Nat) (xs : List (List (Nested α d))) :
    levels (α := α) (d + 1) xs = List.map List.length xs :: levels d (List.flatten xs) := rfl
theorem rebuild_zero (ls : List (List Nat)) (l : List α) : rebuild 0 ls l = l := rfl
theorem rebuild_succ_cons (d : Nat) (c : List Nat) (cs : List (List Nat)) (l : List α) :
    rebuild (d + 1) (c :: cs) l = unflat c (rebuild d cs l) := rfl
theorem mapN_succ (f : α → β) (d : Nat) (xs : List (Nested α d)) :
    mapN f (d + 1) xs = List.map (mapN f d) xs := rfl

/-! ### `unflat` -/

theorem unflat_nil (l : List β) : unflat [] l = [] := rfl
theorem unflat_cons (c : Nat) (cs : List Nat) (l : List β) :
    unflat (c :: cs) l = l.take c :: unflat cs (l.drop c) := rfl

theorem unflat_flatten' (xs : List (List β)) : unflat (xs.map List.length) xs.flatten = xs := by
  induction xs with
  | nil => rfl
  | cons x xs ih =>
    rw [List.map_cons, List.flatten_cons, unflat_cons, List.take_left, List.drop_left, ih]

theorem length_unflat (cs : List Nat) (l : List β) : (unflat cs l).length = cs.length := by
  induction cs generalizing l with
  | nil => rfl
  | cons c cs ih => rw [unflat_cons, List.length_cons, List.length_cons, ih]

/-- the counts are recovered when they do not exceed the data -/
theorem map_length_unflat (cs : List Nat) (l : List β) (h : cs.sum ≤ l.length) :
    (unflat cs l).map List.length = cs := by
  induction cs generalizing l with
  | nil => rfl
  | cons c cs ih =>
    rw [List.sum_cons] at h
    rw [unflat_cons, List.map_cons, List.length_take, ih _ (by rw [List.length_drop]; omega)]
    congr 1; omega

/-- the data is recovered when the counts consume it exactly -/
theorem flatten_unflat (cs : List Nat) (l : List β) (h : cs.sum = l.length) :
    (unflat cs l).flatten = l := by
  induction cs generalizing l with
  | nil =>
    rw [List.sum_nil] at h
    rw [unflat_nil, List.flatten_nil]; exact (List.length_eq_zero_iff.mp h.symm).symm
  | cons c cs ih =>
    rw [List.sum_cons] at h
    rw [unflat_cons, List.flatten_cons, ih _ (by rw [List.length_drop]; omega), List.take_append_drop]

theorem sum_map_length (xs : List (List β)) : (xs.map List.length).sum = xs.flatten.length := by
  rw [List.length_flatten]

/-! ### the general rebuild specification -/

/-- successor step of `rebuild_spec`, stated on an explicit list of lists -/
theorem rebuild_spec_step (d : Nat) (t : List (List (Nested α d)))
    (r : List (Nested β d))
    (hr : r.length = t.flatten.length) :
    (unflat (t.map List.length) r).length = t.length ∧
    (unflat (t.map List.length) r).map List.length = t.map List.length ∧
    (unflat (t.map List.length) r).flatten = r := by
  have hs : (t.map List.length).sum = r.length := by rw [sum_map_length, hr]
  refine ⟨?_, ?_, ?_⟩
  · rw [length_unflat, List.length_map]
  · exact map_length_unflat _ _ (by omega)
  · exact flatten_unflat _ _ hs

/-- rebuilding ANY flat list of the right length with the levels of `t` gives an array with the nesting of
`t` whose leaves are that list -/
theorem rebuild_spec (d : Nat) (t : Nested α (d + 1)) (l : List β) (hl : l.length = (flat d t).length) :
    List.length (α := Nested β d) (rebuild d (levels d t) l) = List.length (α := Nested α d) t ∧
    levels d (rebuild d (levels d t) l) = levels d t ∧
    flat d (rebuild d (levels d t) l) = l := by
  induction d generalizing l with
  | zero => exact ⟨hl, rfl, rfl⟩
  | succ d ih =>
    obtain ⟨h1, h2, h3⟩ := ih (List.flatten (α := Nested α d) t) l hl
    obtain ⟨k1, k2, k3⟩ := rebuild_spec_step d t (rebuild d (levels d (List.flatten (α := Nested α d) t)) l) h1
    refine ⟨?_, ?_, ?_⟩
    · exact k1
    · show List.map List.length (unflat _ _) :: levels d (List.flatten (unflat _ _)) = _ :: _
      rw [k2, k3, h2]
    · show flat d (List.flatten (unflat _ _)) = l
      rw [k3, h3]

theorem rebuild_levels_flat_step (d : Nat) (t : List (List (Nested α d)))
    (ih : rebuild d (levels d t.flatten) (flat d t.flatten) = t.flatten) :
    rebuild (d + 1) (levels (d + 1) t) (flat (d + 1) t) = t := by
  rw [levels_succ, flat_succ, rebuild_succ_cons, ih, unflat_flatten']

theorem rebuild_levels_flat' : (d : Nat) → (t : Nested α (d + 1)) →
    rebuild d (levels d t) (flat d t) = t
  | 0, _ => rfl
  | d + 1, t => rebuild_levels_flat_step d t (rebuild_levels_flat' d (List.flatten (α := Nested α d) t))

theorem levels_mapN_step (f : α → β) (d : Nat) (t : List (List (Nested α d)))
    (ih : levels d (mapN f (d + 1) t.flatten) = levels d t.flatten) :
    levels (d + 1) (mapN f (d + 2) t) = levels (d + 1) t := by
  rw [mapN_succ] at ih
  have e : mapN f (d + 2) t = List.map (List.map (mapN f d)) t := rfl
  rw [e, levels_succ, levels_succ, ← List.map_flatten, ih, List.map_map]
  congr 1
  apply List.map_congr_left; intro x _; exact List.length_map _

theorem levels_mapN' (f : α → β) : (d : Nat) → (t : Nested α (d + 1)) →
    levels d (mapN f (d + 1) t) = levels d t
  | 0, _ => rfl
  | d + 1, t => levels_mapN_step f d t (levels_mapN' f d (List.flatten (α := Nested α d) t))

theorem flat_mapN_step (f : α → β) (d : Nat) (t : List (List (Nested α d)))
    (ih : flat d (mapN f (d + 1) t.flatten) = (flat d t.flatten).map f) :
    flat (d + 1) (mapN f (d + 2) t) = (flat (d + 1) t).map f := by
  rw [mapN_succ] at ih
  have e : mapN f (d + 2) t = List.map (List.map (mapN f d)) t := rfl
  rw [e, flat_succ, flat_succ, ← List.map_flatten, ih]

theorem flat_mapN' (f : α → β) : (d : Nat) → (t : Nested α (d + 1)) →
    flat d (mapN f (d + 1) t) = (flat d t).map f
  | 0, _ => rfl
  | d + 1, t => flat_mapN_step f d t (flat_mapN' f d (List.flatten (α := Nested α d) t))

theorem mapN_flatten1' (f : α → β) (d : Nat) (t : List (List (Nested α d))) :
    mapN f (d + 1) (flatten1 d t) = flatten1 d (mapN f (d + 2) t) := by
  have e : mapN f (d + 2) t = List.map (List.map (mapN f d)) t := rfl
  have e1 : ∀ u : List (List (Nested α d)), flatten1 d u = u.flatten := fun _ => rfl
  have e2 : ∀ u : List (List (Nested β d)), flatten1 d u = u.flatten := fun _ => rfl
  rw [e, e1, e2, mapN_succ, List.map_flatten]

end Pybes3Verif.Nested
