import Pybes3Verif.Model.SymMatrix
import Pybes3Verif.Gen.SymIndex
/-!
Helper lemmas for Group X (C16): triangular numbers, the packed index `idx`, `Nat.sqrt` of `1 + 8·tri n`,
and list lemmas for `accepts` / `expand`.  Core Lean only (no Mathlib).
-/
namespace Pybes3Verif.SymMatrix
open Pybes3Verif.Gen.SymIndex

/-! ### triangular numbers `k (k+1) / 2` -/

theorem mul_succ_mod_two (k : Nat) : k * (k + 1) % 2 = 0 := by
  rw [Nat.mul_mod]
  have h : k % 2 = 0 ∨ k % 2 = 1 := by omega
  rcases h with h | h
  · rw [h, Nat.zero_mul]
  · have h' : (k + 1) % 2 = 0 := by omega
    rw [h', Nat.mul_zero]

theorem tri_two (k : Nat) : 2 * (k * (k + 1) / 2) = k * (k + 1) := by
  have := mul_succ_mod_two k
  omega

theorem succ_mul_expand (k : Nat) : (k + 1) * (k + 1 + 1) = k * (k + 1) + 2 * (k + 1) := by
  rw [Nat.add_mul k 1 (k + 1 + 1), Nat.mul_add k (k + 1) 1]
  omega

theorem tri_succ (k : Nat) : (k + 1) * (k + 1 + 1) / 2 = k * (k + 1) / 2 + (k + 1) := by
  rw [succ_mul_expand, Nat.add_mul_div_left _ _ (by decide : 0 < 2)]

theorem tri_mono {a b : Nat} (h : a ≤ b) : a * (a + 1) / 2 ≤ b * (b + 1) / 2 :=
  Nat.div_le_div_right (Nat.mul_le_mul h (by omega))

/-- `tri a + a < tri b` whenever `a < b` -/
theorem tri_add_lt {a b : Nat} (h : a < b) : a * (a + 1) / 2 + a < b * (b + 1) / 2 := by
  have h1 : (a + 1) * (a + 1 + 1) / 2 ≤ b * (b + 1) / 2 := tri_mono (a := a + 1) h
  have h2 := tri_succ a
  omega

/-! ### the index -/

theorem idx_of_le {i j : Nat} (h : j ≤ i) : idx i j = i * (i + 1) / 2 + j := by
  unfold idx; rw [if_neg (by omega)]

theorem idx_of_lt {i j : Nat} (h : i < j) : idx i j = j * (j + 1) / 2 + i := by
  unfold idx; rw [if_pos h]

theorem idx_eq' (i j : Nat) : idx i j = max i j * (max i j + 1) / 2 + min i j := by
  by_cases h : i < j
  · rw [idx_of_lt h, Nat.max_eq_right (Nat.le_of_lt h), Nat.min_eq_left (Nat.le_of_lt h)]
  · have h' : j ≤ i := by omega
    rw [idx_of_le h', Nat.max_eq_left h', Nat.min_eq_right h']

theorem idx_symm' (i j : Nat) : idx i j = idx j i := by
  rw [idx_eq', idx_eq', Nat.max_comm, Nat.min_comm]

theorem idx_lt' (n i j : Nat) (hi : i < n) (hj : j < n) : idx i j < n * (n + 1) / 2 := by
  by_cases h : i < j
  · rw [idx_of_lt h]
    have := tri_add_lt hj
    omega
  · rw [idx_of_le (by omega)]
    have := tri_add_lt hi
    omega

theorem idx_diag_pred (n : Nat) : idx n n + 1 = (n + 1) * (n + 1 + 1) / 2 := by
  rw [idx_of_le (Nat.le_refl n), tri_succ]; omega

theorem idx_inj' (i j i' j' : Nat) (hji : j ≤ i) (hji' : j' ≤ i') (h : idx i j = idx i' j') :
    i = i' ∧ j = j' := by
  rw [idx_of_le hji, idx_of_le hji'] at h
  have hii : i = i' := by
    rcases Nat.lt_trichotomy i i' with hlt | heq | hgt
    · have := tri_add_lt hlt; omega
    · exact heq
    · have := tri_add_lt hgt; omega
  subst hii
  exact ⟨rfl, by omega⟩

theorem idx_surj' (n k : Nat) (hk : k < n * (n + 1) / 2) : ∃ i j, j ≤ i ∧ i < n ∧ idx i j = k := by
  induction n with
  | zero => simp at hk
  | succ n ih =>
    by_cases h : k < n * (n + 1) / 2
    · obtain ⟨i, j, h1, h2, h3⟩ := ih h
      exact ⟨i, j, h1, by omega, h3⟩
    · rw [tri_succ] at hk
      refine ⟨n, k - n * (n + 1) / 2, by omega, by omega, ?_⟩
      rw [idx_of_le (by omega)]; omega

/-! ### `accepts` -/

theorem accepts_iff_forall (f : Nat → Nat → Nat) (flat n : Nat) :
    accepts f flat n = true ↔ ∀ i, i < n → ∀ j, j < n → f i j < flat := by
  unfold accepts
  simp only [List.all_eq_true, List.mem_range, decide_eq_true_eq]

theorem accepts_iff' (flat n : Nat) : accepts idx flat n = true ↔ n * (n + 1) / 2 ≤ flat ∨ n = 0 := by
  rw [accepts_iff_forall]
  constructor
  · intro h
    cases n with
    | zero => exact Or.inr rfl
    | succ n =>
      left
      have h1 := h n (by omega) n (by omega)
      have h2 := idx_diag_pred n
      omega
  · rintro (h | h) i hi j hj
    · exact Nat.lt_of_lt_of_le (idx_lt' n i j hi hj) h
    · omega

/-! ### `Nat.sqrt` and `fullDim` -/

theorem sqrt_unique {a n : Nat} (h1 : a * a ≤ n) (h2 : n < (a + 1) * (a + 1)) : Nat.sqrt n = a := by
  have l1 := Nat.sqrt_le n
  have l2 := Nat.lt_succ_sqrt n
  rcases Nat.lt_trichotomy (Nat.sqrt n) a with h | h | h
  · have : (Nat.sqrt n).succ * (Nat.sqrt n).succ ≤ a * a := Nat.mul_le_mul h h
    omega
  · exact h
  · have : (a + 1) * (a + 1) ≤ Nat.sqrt n * Nat.sqrt n := Nat.mul_le_mul h h
    omega

theorem one_add_eight_tri (n : Nat) : 1 + 8 * (n * (n + 1) / 2) = (2 * n + 1) * (2 * n + 1) := by
  have h := tri_two n
  have e : (2 * n + 1) * (2 * n + 1) = 4 * (n * (n + 1)) + 1 := by
    rw [Nat.mul_add n n 1, Nat.add_mul (2 * n) 1, Nat.mul_add (2 * n) (2 * n) 1, Nat.mul_assoc 2 n (2 * n),
      Nat.mul_left_comm n 2 n]
    omega
  omega

theorem fullDim_tri' (n : Nat) : fullDim (n * (n + 1) / 2) = n := by
  unfold fullDim
  have hs : Nat.sqrt (1 + 8 * (n * (n + 1) / 2)) = 2 * n + 1 := by
    apply sqrt_unique
    · rw [one_add_eight_tri]; exact Nat.le_refl _
    · rw [one_add_eight_tri]
      exact Nat.mul_lt_mul'' (by omega) (by omega)
  rw [hs]; omega

theorem fullDim_tri_le (flat : Nat) : fullDim flat * (fullDim flat + 1) / 2 ≤ flat := by
  have l1 := Nat.sqrt_le (1 + 8 * flat)
  have hpos : 1 ≤ Nat.sqrt (1 + 8 * flat) := by
    rcases Nat.eq_zero_or_pos (Nat.sqrt (1 + 8 * flat)) with h | h
    · have l2 := Nat.lt_succ_sqrt (1 + 8 * flat)
      rw [h] at l2; omega
    · exact h
  have hm : 2 * fullDim flat + 1 ≤ Nat.sqrt (1 + 8 * flat) := by unfold fullDim; omega
  have h3 : (2 * fullDim flat + 1) * (2 * fullDim flat + 1) ≤ 1 + 8 * flat :=
    Nat.le_trans (Nat.mul_le_mul hm hm) l1
  rw [← one_add_eight_tri] at h3
  omega

/-! ### `expand` -/

theorem mapM_id_some {α : Type} (l : List (Option α)) (h : ∀ x ∈ l, x.isSome = true) :
    ∃ m, l.mapM id = some m ∧ m.map some = l := by
  induction l with
  | nil => exact ⟨[], rfl, rfl⟩
  | cons x l ih =>
    obtain ⟨m, hm1, hm2⟩ := ih (fun y hy => h y (List.mem_cons_of_mem _ hy))
    have hx := h x List.mem_cons_self
    cases x with
    | none => simp at hx
    | some a =>
      refine ⟨a :: m, ?_, ?_⟩
      · simp [List.mapM_cons, hm1]
      · simp [hm2]

theorem length_grid {β : Type} (f : Nat → Nat → β) (n n' : Nat) :
    ((List.range n).flatMap (fun i => (List.range n').map (f i))).length = n' * n := by
  induction n with
  | zero => simp
  | succ n ih =>
    rw [List.range_succ, List.flatMap_append, List.length_append, ih]
    simp [Nat.mul_succ]

theorem getElem?_grid {β : Type} (f : Nat → Nat → β) (n n' i j : Nat) (hi : i < n) (hj : j < n') :
    ((List.range n).flatMap (fun i => (List.range n').map (f i)))[n' * i + j]? = some (f i j) := by
  induction n with
  | zero => omega
  | succ n ih =>
    rw [List.range_succ, List.flatMap_append]
    by_cases h : i < n
    · have hlt : n' * i + j < n' * n := by
        have : n' * (i + 1) ≤ n' * n := Nat.mul_le_mul_left _ h
        rw [Nat.mul_succ] at this; omega
      rw [List.getElem?_append_left (by rw [length_grid]; exact hlt)]
      exact ih h
    · have hin : i = n := by omega
      subst hin
      rw [List.getElem?_append_right (by rw [length_grid]; omega), length_grid]
      simp [hj]

end Pybes3Verif.SymMatrix
