import Pybes3Verif.Proofs.C10Defs
namespace Pybes3Verif.C10
open Pybes3Verif.Util Pybes3Verif.Gen Pybes3Verif.Gen.Reid Pybes3Verif.Gen.DigiId

theorem eqRefEmc_b : ∀ j, j < 128 → eqRefEmc j = true :=
  forall_lt_of_allBlock eqRefEmc 128 7 (by decide +kernel) (by decide)

end Pybes3Verif.C10
