import Pybes3Verif.Proofs.C10Defs
namespace Pybes3Verif.C10
open Pybes3Verif.Util Pybes3Verif.Gen Pybes3Verif.Gen.Reid Pybes3Verif.Gen.DigiId

theorem sortedTof_b : ∀ k, k < 450 → sortedOk tbl_tof_raw sorted_tof_raw 450 k = true :=
  forall_lt_of_allBlock (sortedOk tbl_tof_raw sorted_tof_raw 450) 450 9 (by decide +kernel) (by decide)

end Pybes3Verif.C10
