import Pybes3Verif.Util.Packed
import Pybes3Verif.Util.IEEE
import Pybes3Verif.Gen.Mdc
import Pybes3Verif.Gen.Emc
/-! Bool predicates evaluated over the geometry tables for C09 (exact arithmetic on decoded IEEE bit patterns). -/
namespace Pybes3Verif.C09
open Pybes3Verif.Util Pybes3Verif.IEEE Pybes3Verif.Gen

abbrev B (n : Nat) : BitVec 64 := BitVec.ofNat 64 n

section MDC
open Pybes3Verif.Gen.Mdc Pybes3Verif.Gen.MdcTables

/-- every coordinate of wire g is a finite number -/
def mdcFitsOk (g : Nat) : Bool :=
  isFinite (npz_west_x_raw g) && isFinite (npz_west_y_raw g) && isFinite (npz_west_z_raw g) &&
  isFinite (npz_east_x_raw g) && isFinite (npz_east_y_raw g) && isFinite (npz_east_z_raw g)

/-- the two wire ends are at different z, so the straight line through them is parametrised by z -/
def mdcEndsOk (g : Nat) : Bool := valuesDiffer (npz_east_z_raw g) (npz_west_z_raw g)

/-- sign (0 neg / 1 zero / 2 pos) of the z-component of west × east, exactly: positive iff the azimuth increases from
the west end to the east end -/
def cross (g : Nat) : Nat :=
  crossSign (npz_west_x_raw g) (npz_east_y_raw g) (npz_west_y_raw g) (npz_east_x_raw g)

/-- stereo = -1 (stored 255) for phi_west < phi_east, +1 for phi_west > phi_east, 0 for axial (documented convention);
is_stereo = (stereo ≠ 0); axial wires have exactly equal end points in (x, y) -/
def mdcStereoOk (g : Nat) : Bool :=
  (npz_stereo_raw g == (if cross g = 2 then 255 else if cross g = 1 then 0 else 1)) &&
  ((npz_is_stereo_raw g == 1) == (npz_stereo_raw g != 0)) &&
  (npz_is_stereo_raw g == 1 || (npz_west_x_raw g == npz_east_x_raw g && npz_west_y_raw g == npz_east_y_raw g))

/-- stereo sign and flag are uniform within a layer and agree with the per-layer table of the loader -/
def mdcLayerUniformOk (g : Nat) : Bool :=
  let l := npz_layer_raw g
  let first := (mod_layer_start_gid l).toNat
  npz_stereo_raw g == npz_stereo_raw first && npz_is_stereo_raw g == npz_is_stereo_raw first &&
    (mdc_layer_to_is_stereo (B l) == B (npz_is_stereo_raw g))

/-- superlayer-by-layer equals superlayer-by-wire -/
def mdcSuperlayerOk (g : Nat) : Bool :=
  mdc_layer_to_superlayer_u (mdc_gid_to_layer (B g)) == mdc_gid_to_superlayer (B g) &&
  mdc_layer_to_superlayer_s (mdc_gid_to_layer (B g)) == mdc_gid_to_superlayer (B g)
end MDC

end Pybes3Verif.C09
