import Pybes3Verif.Proofs.C10Defs
namespace Pybes3Verif.C10
open Pybes3Verif.Util Pybes3Verif.Gen Pybes3Verif.Gen.Reid Pybes3Verif.Gen.DigiId

theorem rankMuc_b : ∀ i, i < 2048 → rankOk tbl_muc_raw rank_muc_raw sorted_muc_raw 572 i = true :=
  forall_lt_of_allBlock (rankOk tbl_muc_raw rank_muc_raw sorted_muc_raw 572) 2048 11 (by decide +kernel) (by decide)

end Pybes3Verif.C10
