import Pybes3Verif.Model.FinalArray
/-!
Helper lemmas for C02 (`Pybes3Verif.FinalArray`): closed form of the offset fold (prefix sums),
specifications of `lastIdx` / `firstIdx`, slicing lemmas on lists, chunk arithmetic.  Mathlib-free.
-/
namespace Pybes3Verif.FinalArray
variable {ε α : Type}

/-- prefix sum: number of entries in the first `i` baskets -/
def pre (bs : List (List α)) (i : Nat) : Nat := (bs.take i).flatten.length

theorem pre_zero (bs : List (List α)) : pre bs 0 = 0 := by simp [pre]

theorem pre_cons_succ (b : List α) (bs : List (List α)) (i : Nat) :
    pre (b :: bs) (i + 1) = b.length + pre bs i := by
  simp [pre]

theorem pre_length (bs : List (List α)) : pre bs bs.length = bs.flatten.length := by
  simp [pre]

/-- the offsets fold, for any non-empty accumulator whose last element is `L` -/
theorem foldl_offs (bs : List (List α)) (acc : List Nat) (L : Nat) (hne : acc ≠ [])
    (hL : acc.getLast! = L) :
    bs.foldl (fun acc b => acc ++ [acc.getLast! + b.length]) acc
      = acc ++ (List.range bs.length).map (fun i => L + pre bs (i + 1)) := by
  induction bs generalizing acc L with
  | nil => simp
  | cons b bs ih =>
    rw [List.foldl_cons, ih (acc ++ [acc.getLast! + b.length]) (L + b.length) (by simp)
      (by subst hL; simp)]
    rw [List.length_cons, List.range_succ_eq_map, List.map_cons, List.map_map]
    have h1 : pre (b :: bs) (0 + 1) = b.length := by simp [pre]
    rw [h1, List.append_assoc]
    congr 2
    simp only [List.singleton_append, List.cons.injEq]
    refine ⟨by omega, ?_⟩
    apply List.map_congr_left
    intro i _
    simp only [Function.comp, Nat.succ_eq_add_one, pre_cons_succ]
    omega

theorem range_succ_map_eq (f : Nat → Nat) (n : Nat) :
    (List.range (n + 1)).map f = f 0 :: (List.range n).map (fun i => f (i + 1)) := by
  rw [List.range_succ_eq_map, List.map_cons, List.map_map]
  rfl

/-- `entryOffsets` is the list of prefix sums -/
theorem entryOffsets_eq (bs : List (List α)) :
    entryOffsets bs = (List.range (bs.length + 1)).map (pre bs) := by
  unfold entryOffsets
  rw [foldl_offs bs [0] 0 (by simp) rfl, range_succ_map_eq, pre_zero]
  simp

theorem readerOut_fst (es : List (List α)) : (readerOut es).1 = entryOffsets es := rfl
theorem readerOut_snd (es : List (List α)) : (readerOut es).2 = es.flatten := rfl

theorem entryOffsets_length (bs : List (List α)) : (entryOffsets bs).length = bs.length + 1 := by
  simp [entryOffsets_eq]

theorem entryOffsets_getD (bs : List (List α)) (i : Nat) (hi : i ≤ bs.length) :
    (entryOffsets bs).getD i 0 = pre bs i := by
  have hi' : i < bs.length + 1 := by omega
  simp [entryOffsets_eq, List.getD_eq_getElem?_getD, List.getElem?_range hi']

theorem starts_eq (bs : List (List α)) :
    (entryOffsets bs).dropLast = (List.range bs.length).map (pre bs) := by
  rw [entryOffsets_eq, List.range_succ, List.map_append]
  simp

theorem stops_eq (bs : List (List α)) :
    (entryOffsets bs).tail = (List.range bs.length).map (fun i => pre bs (i + 1)) := by
  rw [entryOffsets_eq, range_succ_map_eq]
  rfl

theorem starts_getD (bs : List (List α)) (i : Nat) (hi : i < bs.length) :
    (entryOffsets bs).dropLast.getD i 0 = pre bs i := by
  simp [starts_eq, List.getD_eq_getElem?_getD, List.getElem?_range hi]

theorem stops_getD (bs : List (List α)) (i : Nat) (hi : i < bs.length) :
    (entryOffsets bs).tail.getD i 0 = pre bs (i + 1) := by
  simp [stops_eq, List.getD_eq_getElem?_getD, List.getElem?_range hi]

/-! ### lastIdx / firstIdx -/

theorem lastIdx_fold_some (p : Nat → Bool) (xs : List Nat) (is : List Nat) (acc : Option Nat) (i : Nat)
    (h : is.foldl (fun acc i => if p (xs.getD i 0) then some i else acc) acc = some i) :
    acc = some i ∨ (i ∈ is ∧ p (xs.getD i 0) = true) := by
  induction is generalizing acc with
  | nil => left; simpa using h
  | cons j is ih =>
    rw [List.foldl_cons] at h
    rcases ih _ h with h' | ⟨h1, h2⟩
    · by_cases hp : p (xs.getD j 0) = true
      · rw [if_pos hp] at h'
        cases h'
        right; exact ⟨by simp, hp⟩
      · rw [if_neg hp] at h'
        left; exact h'
    · right; exact ⟨List.mem_cons_of_mem _ h1, h2⟩

theorem lastIdx_fold_none (p : Nat → Bool) (xs : List Nat) (is : List Nat) (acc : Option Nat)
    (h : is.foldl (fun acc i => if p (xs.getD i 0) then some i else acc) acc = none) :
    acc = none ∧ ∀ i ∈ is, p (xs.getD i 0) = false := by
  induction is generalizing acc with
  | nil => exact ⟨by simpa using h, by simp⟩
  | cons j is ih =>
    rw [List.foldl_cons] at h
    obtain ⟨h1, h2⟩ := ih _ h
    by_cases hp : p (xs.getD j 0) = true
    · rw [if_pos hp] at h1; cases h1
    · rw [if_neg hp] at h1
      refine ⟨h1, ?_⟩
      intro i hi
      rcases List.mem_cons.1 hi with rfl | hi
      · simpa using hp
      · exact h2 i hi

theorem lastIdx_some (p : Nat → Bool) (xs : List Nat) (i : Nat) (h : lastIdx p xs = some i) :
    i < xs.length ∧ p (xs.getD i 0) = true := by
  rcases lastIdx_fold_some p xs _ _ _ h with h' | ⟨h1, h2⟩
  · cases h'
  · exact ⟨List.mem_range.1 h1, h2⟩

theorem lastIdx_none (p : Nat → Bool) (xs : List Nat) (h : lastIdx p xs = none) :
    ∀ i, i < xs.length → p (xs.getD i 0) = false :=
  fun i hi => (lastIdx_fold_none p xs _ _ h).2 i (List.mem_range.2 hi)

theorem firstIdx_some (p : Nat → Bool) (xs : List Nat) (i : Nat) (h : firstIdx p xs = some i) :
    i < xs.length ∧ p (xs.getD i 0) = true :=
  ⟨List.mem_range.1 (List.mem_of_find?_eq_some h), List.find?_some (p := fun i => p (xs.getD i 0)) h⟩

theorem firstIdx_none (p : Nat → Bool) (xs : List Nat) (h : firstIdx p xs = none) :
    ∀ i, i < xs.length → p (xs.getD i 0) = false := by
  intro i hi
  have := List.find?_eq_none.1 h i (List.mem_range.2 hi)
  simpa using this

/-! ### slicing -/

theorem slice_mid (A M R : List α) (a b : Nat) (h1 : A.length ≤ a) (hab : a ≤ b)
    (h2 : b ≤ A.length + M.length) :
    ((A ++ M ++ R).drop a).take (b - a) = (M.drop (a - A.length)).take (b - a) := by
  obtain ⟨c, rfl⟩ : ∃ c, a = A.length + c := ⟨a - A.length, by omega⟩
  rw [List.append_assoc, List.drop_length_add_append,
    List.drop_append_of_le_length (by omega),
    List.take_append_of_le_length (by simp; omega)]
  congr 2
  omega

/-- a basket range `[i, j)` splits the flat content in three -/
theorem flatten_split (bs : List (List α)) (i j : Nat) (hij : i ≤ j) :
    bs.flatten = (bs.take i).flatten ++ ((bs.drop i).take (j - i)).flatten ++ (bs.drop j).flatten := by
  have h : bs.take j = bs.take i ++ (bs.drop i).take (j - i) := by
    rw [← List.take_add]; congr 1; omega
  rw [← List.flatten_append, ← h, ← List.flatten_append, List.take_append_drop]

theorem pre_split (bs : List (List α)) (i j : Nat) (hij : i ≤ j) :
    pre bs j = pre bs i + ((bs.drop i).take (j - i)).flatten.length := by
  have h : bs.take j = bs.take i ++ (bs.drop i).take (j - i) := by
    rw [← List.take_add]; congr 1; omega
  unfold pre
  rw [h, List.flatten_append, List.length_append]

/-- the events are the consecutive slices of the flat content at the prefix sums -/
theorem slices_eq (bs : List (List α)) :
    (List.range bs.length).map
      (fun i => (bs.flatten.drop (pre bs i)).take (pre bs (i + 1) - pre bs i)) = bs := by
  induction bs with
  | nil => rfl
  | cons b bs ih =>
    rw [List.length_cons, List.range_succ_eq_map, List.map_cons, List.map_map]
    have h0 : pre (b :: bs) 0 = 0 := pre_zero _
    have h1 : pre (b :: bs) (0 + 1) = b.length := by simp [pre]
    rw [h0, h1]
    congr 1
    · simp
    · conv => rhs; rw [← ih]
      apply List.map_congr_left
      intro i _
      simp only [Function.comp, Nat.succ_eq_add_one, pre_cons_succ, List.flatten_cons]
      rw [List.drop_length_add_append]
      congr 1
      omega

/-! ### chunk arithmetic -/

theorem div_mul_ge (n k : Nat) (hk : 1 ≤ k) : n ≤ (n + k - 1) / k * k := by
  have h1 := Nat.div_add_mod (n + k - 1) k
  have h2 := Nat.mod_lt (n + k - 1) (show k > 0 by omega)
  rw [Nat.mul_comm] at h1
  omega

theorem chunk_take (l : List α) (k m : Nat) :
    ((List.range m).map
        (fun i => (l.drop (i * k)).take (min l.length ((i + 1) * k) - i * k))).flatten
      = l.take (m * k) := by
  induction m with
  | zero => simp
  | succ m ih =>
    rw [List.range_succ, List.map_append, List.flatten_append, ih]
    simp only [List.map_cons, List.map_nil, List.flatten_cons, List.flatten_nil, List.append_nil]
    rw [Nat.succ_mul]
    generalize m * k = x
    by_cases h : x + k ≤ l.length
    · rw [List.take_add]
      congr 2
      omega
    · by_cases h' : x ≤ l.length
      · have e : min l.length (x + k) - x = l.length - x := by omega
        rw [e, ← List.take_add, List.take_of_length_le (by omega), List.take_of_length_le (by omega)]
      · have e : min l.length (x + k) - x = 0 := by omega
        rw [e, List.take_zero, List.append_nil, List.take_of_length_le (by omega),
          List.take_of_length_le (by omega)]

end Pybes3Verif.FinalArray
