import Pybes3Verif.Props.C17
/-!
Refutation of the draft of `atomic_then_check_content_fresh` without the known-table hypothesis: the history
`cexOps = [.spawn, .firstUse 0 2 0 0, .touchTable 2]` is atomic, yet after a complete check the data file of the
unknown table 2 (built from version 0, table now at version 1) is still there.
-/
namespace Pybes3Verif.Cache

theorem cexOps_atomic : AtomicFirstUse init cexOps := by
  refine ⟨trivial, ?_, trivial, trivial⟩
  right
  intro pr hpr v hv
  have hpr' : pr = ⟨[]⟩ := by
    have : (step init .spawn).procs[0]? = some ⟨[]⟩ := rfl
    rw [this] at hpr
    exact (Option.some.inj hpr).symm
  subst hpr'
  cases hv

theorem atomic_then_check_content_fresh_unrestricted_false :
    ¬ (∀ ops : List Op, AtomicFirstUse init ops → ContentFresh (step (run ops) (.importCheck none))) := by
  intro h
  have := h cexOps cexOps_atomic ⟨2, 0, some 0, 2, 0⟩ (by decide) rfl
  revert this
  decide

end Pybes3Verif.Cache
