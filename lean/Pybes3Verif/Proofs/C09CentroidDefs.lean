import Pybes3Verif.Proofs.C09Defs
/-! Fixed-point evaluation of the centroid statement of C09 (Nat-only, small numbers: every barrel coordinate has a biased
exponent ≥ 960, so `mant · 2^(E − 960)` is an exact integer below 2^130 in units of 2^(960−1075) = 2^-115 cm). -/
namespace Pybes3Verif.C09
open Pybes3Verif.Util Pybes3Verif.IEEE Pybes3Verif.Gen

def fixK : Nat := 960
/-- |value| in units of 2^(fixK − 1075); exact when `fxOk` -/
def fx (b : Nat) : Nat := if mant b = 0 then 0 else mant b * 2 ^ (e2 b - fixK)
def fxOk (b : Nat) : Bool := isFinite b && (mant b == 0 || decide (fixK ≤ e2 b))
/-- positive part / negative part of the fixed-point value -/
def fxPos (b : Nat) : Nat := if isNeg b then 0 else fx b
def fxNeg (b : Nat) : Nat := if isNeg b then fx b else 0

/-- `|k·c − (pos − neg)| ≤ 2^t` in fixed-point units, all arithmetic in ℕ -/
def nearSum (k c pos neg t : Nat) : Bool :=
  decide (pos + k * fxNeg c ≤ neg + k * fxPos c + 2 ^ t) && decide (neg + k * fxPos c ≤ pos + k * fxNeg c + 2 ^ t)

/-- entry `8 g + k` (k < 8) of a column stored in 64-entry chunks of 64-bit values, read from its chunk `g / 8` -/
def ent (ch : Nat) (g k : Nat) : Nat := (ch >>> (64 * (8 * (g % 8) + k))) &&& 0xffffffffffffffff

/-- for a barrel crystal: centre = centroid of the 8 corner points and front centre = centroid of the first 4, both within
2^-30 cm (|8c − Σ₈| ≤ 2^-27, |4f − Σ₄| ≤ 2^-28), along one axis given by its columns (`ptsChunk` = the 64-entry chunks of
the corner-point column: the 8 corners of crystal g are the entries 8g … 8g+7, all in chunk g / 8) -/
def centroidOk (part : Nat → Nat) (ptsChunk : Nat → Nat) (cen fro : Nat → Nat) (g : Nat) : Bool :=
  part g != 1 ||
    (let ch := ptsChunk (g / 8)
     let p0 := ent ch g 0; let p1 := ent ch g 1; let p2 := ent ch g 2; let p3 := ent ch g 3
     let p4 := ent ch g 4; let p5 := ent ch g 5; let p6 := ent ch g 6; let p7 := ent ch g 7
     let c := cen g; let f := fro g
     fxOk p0 && fxOk p1 && fxOk p2 && fxOk p3 && fxOk p4 && fxOk p5 && fxOk p6 && fxOk p7 && fxOk c && fxOk f &&
     (let pos4 := fxPos p0 + fxPos p1 + fxPos p2 + fxPos p3
      let neg4 := fxNeg p0 + fxNeg p1 + fxNeg p2 + fxNeg p3
      nearSum 4 f pos4 neg4 87 &&
      nearSum 8 c (pos4 + fxPos p4 + fxPos p5 + fxPos p6 + fxPos p7) (neg4 + fxNeg p4 + fxNeg p5 + fxNeg p6 + fxNeg p7) 88))

end Pybes3Verif.C09
