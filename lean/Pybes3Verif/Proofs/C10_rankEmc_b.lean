import Pybes3Verif.Proofs.C10Defs
namespace Pybes3Verif.C10
open Pybes3Verif.Util Pybes3Verif.Gen Pybes3Verif.Gen.Reid Pybes3Verif.Gen.DigiId

theorem rankEmc_b : ∀ i, i < 8192 → rankOk tbl_emc_raw rank_emc_raw sorted_emc_raw 6240 i = true :=
  forall_lt_of_allBlock (rankOk tbl_emc_raw rank_emc_raw sorted_emc_raw 6240) 8192 13 (by decide +kernel) (by decide)

end Pybes3Verif.C10
