import Pybes3Verif.Proofs.C10Defs
namespace Pybes3Verif.C10
open Pybes3Verif.Util Pybes3Verif.Gen Pybes3Verif.Gen.Reid Pybes3Verif.Gen.DigiId

theorem eqRefTof_b : ∀ j, j < 256 → eqRefTof j = true :=
  forall_lt_of_allBlock eqRefTof 256 8 (by decide +kernel) (by decide)

end Pybes3Verif.C10
