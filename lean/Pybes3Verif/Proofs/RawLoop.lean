import Pybes3Verif.Model.RawReader
/-!
Helper lemmas for C04 (the reader loop): `submitLoop` with an arbitrary cursor, the pool fold, the gather.
Core Lean only.
-/
namespace Pybes3Verif.RawReader
variable {β ε : Type}

/-! ### the submit loop -/

/-- number of blocks asked for (same as `wanted` of `Props/C04.lean`, which is defined downstream) -/
def wantedAux (nBlocks : Option Nat) (N : Nat) : Nat := match nBlocks with | none => N | some n => min n N

theorem readBatch_fst (r : Reader β) (n : Nat) : (readBatch r n).1 = (r.blocks.drop r.cursor).take n := rfl

theorem readBatch_snd (r : Reader β) (n : Nat) :
    (readBatch r n).2 = { blocks := r.blocks, cursor := r.cursor + ((r.blocks.drop r.cursor).take n).length } := rfl

/-- one unfolding of the loop (`n_blocks = -1`), in a `simp`-free form -/
theorem submitLoop_succ_none (perBatch : Nat) (fuel : Nat) (r : Reader β) (nRead : Nat)
    (b : List β) (hb : b = (r.blocks.drop r.cursor).take perBatch) :
    submitLoop perBatch none (fuel + 1) r nRead =
      if ¬ r.cursor < r.blocks.length then some ([], r)
      else
        if b.length = 0 then some ([], { blocks := r.blocks, cursor := r.cursor + b.length })
        else match submitLoop perBatch none fuel { blocks := r.blocks, cursor := r.cursor + b.length }
              (nRead + b.length) with
          | none => none
          | some (rest, r'') => some (b :: rest, r'') := by
  subst hb
  rw [submitLoop]
  by_cases h : r.cursor < r.blocks.length <;> simp [h, readBatch] <;> rfl

/-- one unfolding of the loop (`n_blocks = n`) -/
theorem submitLoop_succ_some (perBatch n : Nat) (fuel : Nat) (r : Reader β) (nRead : Nat)
    (b : List β) (hb : b = (r.blocks.drop r.cursor).take (min (n - nRead) perBatch)) :
    submitLoop perBatch (some n) (fuel + 1) r nRead =
      if ¬ nRead < n then some ([], r)
      else
        if b.length = 0 then some ([], { blocks := r.blocks, cursor := r.cursor + b.length })
        else match submitLoop perBatch (some n) fuel { blocks := r.blocks, cursor := r.cursor + b.length }
              (nRead + b.length) with
          | none => none
          | some (rest, r'') => some (b :: rest, r'') := by
  subst hb
  rw [submitLoop]
  by_cases h : nRead < n <;> simp [h, readBatch] <;> rfl

theorem take_take_drop (l : List β) (c k m : Nat) (hk : k ≤ m) :
    (l.drop c).take k ++ (l.drop (c + k)).take (m - k) = (l.drop c).take m := by
  have h1 : l.drop (c + k) = (l.drop c).drop k := by rw [List.drop_drop]
  rw [h1]
  have h2 : m = k + (m - k) := by omega
  conv => rhs; rw [h2, List.take_add]

theorem flatten_step (blocks : List β) (c k w : Nat) (b : List β) (hb : b = (blocks.drop c).take k)
    (hk : b.length ≤ w - c) (bs : List (List β))
    (hflat : bs.flatten = (blocks.drop (c + b.length)).take (w - (c + b.length))) :
    (b :: bs).flatten = (blocks.drop c).take (w - c) := by
  rw [List.flatten_cons, hflat]
  have e1 : b = (blocks.drop c).take b.length := by
    subst hb
    rw [List.take_eq_take_iff]; simp [List.length_take]
  have := take_take_drop blocks c b.length (w - c) hk
  rw [← e1] at this
  rw [← this]
  congr 2
  omega

/-- the loop from an arbitrary cursor `c` (the counter advances with the cursor) -/
theorem submitLoop_gen (blocks : List β) (perBatch : Nat) (hp : 1 ≤ perBatch) (nBlocks : Option Nat) :
    ∀ (fuel c : Nat), c ≤ blocks.length → blocks.length - c + 1 ≤ fuel →
    ∃ bs r', submitLoop perBatch nBlocks fuel { blocks := blocks, cursor := c } c = some (bs, r') ∧
      bs.flatten = (blocks.drop c).take (wantedAux nBlocks blocks.length - c) ∧ (∀ b ∈ bs, b ≠ []) ∧
      r'.blocks = blocks := by
  intro fuel
  induction fuel with
  | zero => intro c _ h; omega
  | succ fuel ih =>
    intro c hc hf
    cases nBlocks with
    | none =>
      obtain ⟨b, hb⟩ : ∃ b, b = (blocks.drop c).take perBatch := ⟨_, rfl⟩
      rw [submitLoop_succ_none perBatch fuel ⟨blocks, c⟩ c b hb]
      simp only [wantedAux]
      by_cases hlt : c < blocks.length
      · rw [if_neg (not_not_intro hlt)]
        have hlen : b.length = min perBatch (blocks.length - c) := by
          rw [hb]; simp [List.length_take, List.length_drop]
        have hne : ¬ b.length = 0 := by rw [hlen]; omega
        rw [if_neg hne]
        have hk : b.length ≤ blocks.length - c := by rw [hlen]; omega
        obtain ⟨bs, r', hrun, hflat, hnon, hblk⟩ := ih (c + b.length) (by omega) (by omega)
        refine ⟨b :: bs, r', ?_, ?_, ?_, hblk⟩
        · rw [hrun]
        · exact flatten_step blocks c perBatch blocks.length b hb hk bs hflat
        · intro b' hb'
          rcases List.mem_cons.mp hb' with rfl | hb'
          · intro h0; apply hne; rw [h0]; rfl
          · exact hnon b' hb'
      · rw [if_pos hlt]
        refine ⟨[], _, rfl, ?_, by simp, rfl⟩
        have : blocks.length - c = 0 := by omega
        simp [this]
    | some n =>
      obtain ⟨b, hb⟩ : ∃ b, b = (blocks.drop c).take (min (n - c) perBatch) := ⟨_, rfl⟩
      rw [submitLoop_succ_some perBatch n fuel ⟨blocks, c⟩ c b hb]
      simp only [wantedAux]
      by_cases hlt : c < n
      · rw [if_neg (not_not_intro hlt)]
        have hlen : b.length = min (min (n - c) perBatch) (blocks.length - c) := by
          rw [hb]; simp [List.length_take, List.length_drop]
        by_cases hz : b.length = 0
        · rw [if_pos hz]
          refine ⟨[], _, rfl, ?_, by simp, rfl⟩
          have : blocks.length - c = 0 := by rw [hlen] at hz; omega
          have h2 : blocks.drop c = [] := by
            apply List.eq_nil_of_length_eq_zero; rw [List.length_drop]; exact this
          simp [h2]
        · rw [if_neg hz]
          have hk : b.length ≤ min n blocks.length - c := by rw [hlen]; omega
          obtain ⟨bs, r', hrun, hflat, hnon, hblk⟩ := ih (c + b.length) (by omega) (by omega)
          refine ⟨b :: bs, r', ?_, ?_, ?_, hblk⟩
          · rw [hrun]
          · exact flatten_step blocks c _ (min n blocks.length) b hb hk bs hflat
          · intro b' hb'
            rcases List.mem_cons.mp hb' with rfl | hb'
            · intro h0; apply hz; rw [h0]; rfl
            · exact hnon b' hb'
      · rw [if_pos hlt]
        refine ⟨[], _, rfl, ?_, by simp, rfl⟩
        have : min n blocks.length - c = 0 := by omega
        simp [this]

/-! ### the pool -/

/-- one completion -/
def poolStep (tasks : List (List β)) (decode : List β → List ε) (slots : List (Option (List ε))) (i : Nat) :
    List (Option (List ε)) :=
  match tasks[i]? with
  | some t => slots.set i (some (decode t))
  | none => slots

theorem runPool_def (tasks : List (List β)) (decode : List β → List ε) (sched : List Nat) :
    runPool tasks decode sched =
      (sched ++ List.range tasks.length).foldl (poolStep tasks decode) (List.replicate tasks.length none) := rfl

/-- every slot is empty or holds its own task's value -/
def PoolInv (tasks : List (List β)) (decode : List β → List ε) (slots : List (Option (List ε))) : Prop :=
  slots.length = tasks.length ∧
    ∀ (i : Nat) (t : List β), tasks[i]? = some t → slots[i]? = some none ∨ slots[i]? = some (some (decode t))

/-- the first `k` slots hold their values -/
def PoolDone (tasks : List (List β)) (decode : List β → List ε) (k : Nat) (slots : List (Option (List ε))) : Prop :=
  ∀ (i : Nat) (t : List β), i < k → tasks[i]? = some t → slots[i]? = some (some (decode t))

theorem poolInv_init (tasks : List (List β)) (decode : List β → List ε) :
    PoolInv tasks decode (List.replicate tasks.length none) := by
  refine ⟨by simp, ?_⟩
  intro i t h
  left
  have hi : i < tasks.length := by
    rcases List.getElem?_eq_some_iff.mp h with ⟨hi, _⟩; exact hi
  simp [hi]

theorem poolInv_step (tasks : List (List β)) (decode : List β → List ε) (slots) (j : Nat)
    (h : PoolInv tasks decode slots) : PoolInv tasks decode (poolStep tasks decode slots j) := by
  unfold poolStep
  cases hj : tasks[j]? with
  | none => exact h
  | some tj =>
    refine ⟨by simp [h.1], ?_⟩
    intro i t hi
    rw [List.getElem?_set]
    by_cases hji : j = i
    · subst hji
      have : t = tj := by rw [hj] at hi; exact (Option.some.inj hi).symm
      subst this
      have hlt : j < slots.length := by
        rw [h.1]; exact (List.getElem?_eq_some_iff.mp hj).1
      right; simp [hlt]
    · simp only [if_neg hji]; exact h.2 i t hi

theorem poolDone_step (tasks : List (List β)) (decode : List β → List ε) (slots) (j k : Nat)
    (hinv : PoolInv tasks decode slots)
    (h : PoolDone tasks decode k slots) : PoolDone tasks decode k (poolStep tasks decode slots j) := by
  unfold poolStep
  cases hj : tasks[j]? with
  | none => exact h
  | some tj =>
    intro i t hik hi
    rw [List.getElem?_set]
    by_cases hji : j = i
    · subst hji
      have : t = tj := by rw [hj] at hi; exact (Option.some.inj hi).symm
      subst this
      have hlt : j < slots.length := by
        rw [hinv.1]; exact (List.getElem?_eq_some_iff.mp hj).1
      simp [hlt]
    · simp only [if_neg hji]; exact h i t hik hi

theorem poolDone_step_self (tasks : List (List β)) (decode : List β → List ε) (slots) (k : Nat)
    (hinv : PoolInv tasks decode slots)
    (h : PoolDone tasks decode k slots) : PoolDone tasks decode (k + 1) (poolStep tasks decode slots k) := by
  intro i t hik hi
  by_cases hlt : i < k
  · exact poolDone_step tasks decode slots k k hinv h i t hlt hi
  · have : i = k := by omega
    subst this
    unfold poolStep
    rw [hi]
    have hlt : i < slots.length := by
      rw [hinv.1]; exact (List.getElem?_eq_some_iff.mp hi).1
    simp [hlt]

theorem poolInv_foldl (tasks : List (List β)) (decode : List β → List ε) (l : List Nat) :
    ∀ slots, PoolInv tasks decode slots → PoolInv tasks decode (l.foldl (poolStep tasks decode) slots) := by
  induction l with
  | nil => intro s h; exact h
  | cons a l ih => intro s h; exact ih _ (poolInv_step tasks decode s a h)

theorem pool_range (tasks : List (List β)) (decode : List β → List ε) (slots) (hinv : PoolInv tasks decode slots) :
    ∀ k, PoolInv tasks decode ((List.range k).foldl (poolStep tasks decode) slots) ∧
      PoolDone tasks decode k ((List.range k).foldl (poolStep tasks decode) slots) := by
  intro k
  induction k with
  | zero => exact ⟨hinv, fun i t h _ => absurd h (Nat.not_lt_zero i)⟩
  | succ k ih =>
    rw [List.range_succ, List.foldl_append]
    exact ⟨poolInv_step _ _ _ _ ih.1, poolDone_step_self _ _ _ _ ih.1 ih.2⟩

theorem runPool_eq_map (tasks : List (List β)) (decode : List β → List ε) (sched : List Nat) :
    runPool tasks decode sched = tasks.map (fun t => some (decode t)) := by
  rw [runPool_def, List.foldl_append]
  have h0 := poolInv_foldl tasks decode sched _ (poolInv_init tasks decode)
  obtain ⟨hinv, hdone⟩ := pool_range tasks decode _ h0 tasks.length
  apply List.ext_getElem?
  intro i
  by_cases hi : i < tasks.length
  · have ht : tasks[i]? = some tasks[i] := List.getElem?_eq_getElem hi
    rw [hdone i _ hi ht, List.getElem?_map, ht]; rfl
  · have h1 : tasks.length ≤ i := by omega
    rw [List.getElem?_eq_none (by rw [hinv.1]; exact h1), List.getElem?_eq_none (by simpa using h1)]

/-! ### the gather -/

theorem decode_nil (decode : List β → List ε) (hd : ∀ a b, decode (a ++ b) = decode a ++ decode b) :
    decode [] = [] := by
  have h := congrArg List.length (hd [] [])
  simp only [List.append_nil, List.length_append] at h
  exact List.eq_nil_of_length_eq_zero (by omega)

theorem gather_map (decode : List β → List ε) (hd : ∀ a b, decode (a ++ b) = decode a ++ decode b)
    (bs : List (List β)) : gather (bs.map (fun t => some (decode t))) = decode bs.flatten := by
  unfold gather
  induction bs with
  | nil => simp [decode_nil decode hd]
  | cons b bs ih =>
    simp only [List.map_cons, List.flatten_cons, Option.getD_some, hd]
    rw [← ih]

/-- `arrays` from any reader state -/
theorem arrays_gen (decode : List β → List ε) (hd : ∀ a b, decode (a ++ b) = decode a ++ decode b)
    (perBatch : Nat) (hp : 1 ≤ perBatch) (nBlocks : Option Nat) (sched : List Nat) (r : Reader β) :
    ∃ r', arrays decode perBatch nBlocks sched (r.blocks.length + 2) r
        = some (decode (r.blocks.take (wantedAux nBlocks r.blocks.length)), r')
      ∧ r'.blocks = r.blocks := by
  obtain ⟨bs, r', hrun, hflat, _, hblk⟩ :=
    submitLoop_gen r.blocks perBatch hp nBlocks (r.blocks.length + 2) 0 (Nat.zero_le _) (by omega)
  refine ⟨r', ?_, hblk⟩
  unfold arrays
  simp only [hrun, runPool_eq_map]
  simp only [List.drop_zero, Nat.sub_zero] at hflat
  cases bs with
  | nil =>
    simp only [List.isEmpty_nil, if_true]
    rw [gather_map decode hd, ← hflat]
    simp
  | cons b bs =>
    simp only [List.isEmpty_cons, Bool.false_eq_true, if_false]
    rw [gather_map decode hd, hflat]

end Pybes3Verif.RawReader
