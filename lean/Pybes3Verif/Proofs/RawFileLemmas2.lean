import Pybes3Verif.Proofs.RawFileLemmas
import Pybes3Verif.Props.C03b
import Pybes3Verif.Props.C04
/-!
Helper lemmas for `Props/C03File.lean` (part 2): the batch loop and the per-batch decode of `arraysModel`
on a file whose blocks are encoded well-formed blocks.
-/
namespace Pybes3Verif.RawFile
open Pybes3Verif.Raw Pybes3Verif.Raw.Spec Pybes3Verif.RawFile.Spec Pybes3Verif.RawReader

/-- the per-batch decode of `arraysModel` -/
def decodeBatch (sel : List Nat) (batch : List (List Nat)) : List (Option EventRec) :=
  match parse sel batch.flatten with
  | .ok evs _ => evs.map some
  | _ => [none]

/-- batches of a mapped list are mapped batches -/
theorem lift_batches {α β : Type} (g : α → β) (bb : List (List β)) :
    ∀ xs : List α, bb.flatten = xs.map g → ∃ xss : List (List α), bb = xss.map (List.map g) ∧ xss.flatten = xs := by
  induction bb with
  | nil =>
    intro xs h
    rw [List.flatten_nil] at h
    exact ⟨[], rfl, (List.map_eq_nil_iff.mp h.symm).symm⟩
  | cons b bb ih =>
    intro xs h
    rw [List.flatten_cons] at h
    obtain ⟨x1, x2, hx, h1, h2⟩ := List.append_eq_map_iff.mp h
    obtain ⟨xss, hbb, hfl⟩ := ih x2 h2.symm
    refine ⟨x1 :: xss, ?_, ?_⟩
    · rw [List.map_cons, h1, hbb]
    · rw [List.flatten_cons, hfl, hx]

theorem decodeBatch_enc (sel : List Nat) (batch : List Block) (h : ∀ b ∈ batch, b.wf = true) :
    decodeBatch sel (batch.map encBlock) = (expected sel batch).map some := by
  unfold decodeBatch
  have e : (batch.map encBlock).flatten = encBlocks batch := rfl
  rw [e, parse_encode sel batch (List.all_eq_true.mpr h)]

theorem gather_some {β ε : Type} (decode : List β → List ε) (tasks : List (List β)) :
    gather (tasks.map (fun t => some (decode t))) = (tasks.map decode).flatten := by
  unfold gather
  rw [List.map_map]
  rfl

theorem decode_batches (sel : List Nat) (xss : List (List Block)) (h : ∀ b ∈ xss.flatten, b.wf = true) :
    ((xss.map (List.map encBlock)).map (decodeBatch sel)).flatten = (expected sel xss.flatten).map some := by
  induction xss with
  | nil => rfl
  | cons x xss ih =>
    rw [List.flatten_cons] at h
    rw [List.map_cons, List.map_cons, List.flatten_cons, List.flatten_cons, expected_append, List.map_append,
      decodeBatch_enc sel x (fun b hb => h b (List.mem_append_left _ hb)),
      ih (fun b hb => h b (List.mem_append_right _ hb))]

theorem mapM_id_some {α : Type} (l : List α) : (l.map some).mapM id = some l := by
  induction l with
  | nil => rfl
  | cons a l ih =>
    rw [List.map_cons, List.mapM_cons, ih]
    rfl

/-- the reader on a file whose blocks are encoded well-formed blocks -/
theorem arraysModel_blocks (sel : List Nat) (perBatch : Nat) (hp : 1 ≤ perBatch) (nBlocks : Option Nat)
    (sched : List Nat) (file : List Nat) (bs : List Block) (hwf : ∀ b ∈ bs, b.wf = true)
    (hfb : fileBlocks file = some (bs.map encBlock)) :
    arraysModel sel perBatch nBlocks sched file = some (expected sel (bs.take (wanted nBlocks bs.length))) := by
  obtain ⟨bb, r', hrun, hflat, _, _⟩ := submitLoop_spec (bs.map encBlock) perBatch hp nBlocks
  rw [List.length_map, ← List.map_take] at hflat
  obtain ⟨xss, hbb, hfl⟩ := lift_batches encBlock bb _ hflat
  have hrun' : submitLoop perBatch nBlocks ((bs.map encBlock).length + 2)
      { ({ blocks := bs.map encBlock, cursor := 0 } : Reader (List Nat)) with cursor := 0 } 0 = some (bb, r') := hrun
  have hwf' : ∀ b ∈ xss.flatten, b.wf = true := by
    intro b hb
    rw [hfl] at hb
    exact hwf b (List.mem_of_mem_take hb)
  have key : arraysModel sel perBatch nBlocks sched file =
      (gather (runPool (if bb.isEmpty then [[]] else bb) (decodeBatch sel) sched)).mapM id := by
    unfold arraysModel
    rw [hfb]
    show (match RawReader.arrays (decodeBatch sel) perBatch nBlocks sched ((bs.map encBlock).length + 2)
      { blocks := bs.map encBlock, cursor := 0 } with
      | none => none
      | some (out, _) => out.mapM id) = _
    unfold RawReader.arrays
    simp only [hrun']
  rw [key, runPool_eq, gather_some]
  cases xss with
  | nil =>
    rw [hbb]
    rw [← hfl]
    rfl
  | cons x xss =>
    rw [hbb, List.map_cons, List.isEmpty_cons, if_neg (by simp), ← List.map_cons, decode_batches sel _ hwf',
      mapM_id_some, hfl]

end Pybes3Verif.RawFile
