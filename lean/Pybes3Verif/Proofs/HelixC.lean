import Mathlib.Algebra.Order.Floor.Ring
import Pybes3Verif.Proofs.HelixReal
/-!
Helper lemmas for Group C (C13): Python `%` over ℝ, the azimuth round trip, the sign recovery of `dr`.
-/
namespace Pybes3Verif.Helix
open Real

local notation "R" => realOps

theorem twoPi_pos : (0 : ℝ) < 2 * π := by positivity

/-- the model's `%` by 2π over ℝ -/
theorem pmod_twoPi_eq (a : ℝ) : pmod R a (twoPi R) = a - 2 * π * (⌊a / (2 * π)⌋ : ℝ) := by
  simp only [pmod, twoPi, realOps]

theorem pmod_twoPi_nonneg (a : ℝ) : 0 ≤ pmod R a (twoPi R) := by
  rw [pmod_twoPi_eq]
  have h := Int.floor_le (a / (2 * π))
  have h2 : (⌊a / (2 * π)⌋ : ℝ) * (2 * π) ≤ a := (le_div_iff₀ twoPi_pos).1 h
  linarith

theorem pmod_twoPi_lt (a : ℝ) : pmod R a (twoPi R) < 2 * π := by
  rw [pmod_twoPi_eq]
  have h := Int.lt_floor_add_one (a / (2 * π))
  have h2 : a < ((⌊a / (2 * π)⌋ : ℝ) + 1) * (2 * π) := (div_lt_iff₀ twoPi_pos).1 h
  linarith

theorem pmod_twoPi_congr (a : ℝ) : ∃ k : ℤ, pmod R a (twoPi R) = a + k * (2 * π) := by
  refine ⟨-⌊a / (2 * π)⌋, ?_⟩
  rw [pmod_twoPi_eq]
  push_cast
  ring

/-- `%` by 2π is the identity on [0, 2π) -/
theorem pmod_twoPi_of_mem (a : ℝ) (h0 : 0 ≤ a) (h1 : a < 2 * π) : pmod R a (twoPi R) = a := by
  rw [pmod_twoPi_eq]
  have hf : ⌊a / (2 * π)⌋ = 0 := by
    rw [Int.floor_eq_iff]
    constructor
    · simpa using div_nonneg h0 twoPi_pos.le
    · simpa using (div_lt_one twoPi_pos).2 h1
  rw [hf]
  simp

/-- `%` by 2π ignores whole turns -/
theorem pmod_twoPi_add_int (a : ℝ) (k : ℤ) : pmod R (a + k * (2 * π)) (twoPi R) = pmod R a (twoPi R) := by
  rw [pmod_twoPi_eq, pmod_twoPi_eq]
  have hne : (2 * π : ℝ) ≠ 0 := twoPi_pos.ne'
  have : (a + k * (2 * π)) / (2 * π) = a / (2 * π) + k := by
    field_simp
  rw [this, Int.floor_add_intCast]
  push_cast
  ring

/-- azimuth round trip: `((φ0 + π/2) % 2π − π/2) % 2π = φ0` for φ0 ∈ [0, 2π) -/
theorem phi_roundtrip (φ : ℝ) (h0 : 0 ≤ φ) (h1 : φ < 2 * π) :
    pmod R (pmod R (φ + π / 2) (twoPi R) - π / 2) (twoPi R) = φ := by
  obtain ⟨k, hk⟩ := pmod_twoPi_congr (φ + π / 2)
  have : pmod R (φ + π / 2) (twoPi R) - π / 2 = φ + k * (2 * π) := by rw [hk]; ring
  rw [this, pmod_twoPi_add_int, pmod_twoPi_of_mem φ h0 h1]

/-- the sign test of `fromPhysics` recovers the sign of `dr` -/
theorem dr_roundtrip (d φ : ℝ) :
    (if cos (Complex.arg ⟨d * cos φ, d * sin φ⟩ - φ) < 0
      then -Real.sqrt (d * cos φ * (d * cos φ) + d * sin φ * (d * sin φ))
      else Real.sqrt (d * cos φ * (d * cos φ) + d * sin φ * (d * sin φ))) = d := by
  have hsq : d * cos φ * (d * cos φ) + d * sin φ * (d * sin φ) = d ^ 2 := by
    have := sin_sq_add_cos_sq φ
    linear_combination d ^ 2 * this
  rw [hsq, Real.sqrt_sq_eq_abs]
  rcases eq_or_ne d 0 with rfl | hd
  · simp
  set z : ℂ := ⟨d * cos φ, d * sin φ⟩ with hz
  have hnorm : ‖z‖ = |d| := by
    rw [Complex.norm_def, Complex.normSq_mk, hsq, Real.sqrt_sq_eq_abs]
  have hz0 : z ≠ 0 := by
    rw [← norm_ne_zero_iff, hnorm]; exact abs_ne_zero.2 hd
  have hc : cos (Complex.arg z) = d * cos φ / |d| := by
    rw [Complex.cos_arg hz0, hnorm]
  have hs : sin (Complex.arg z) = d * sin φ / |d| := by
    rw [Complex.sin_arg, hnorm]
  have habs : |d| ≠ 0 := abs_ne_zero.2 hd
  have hcos : cos (Complex.arg z - φ) = d / |d| := by
    rw [cos_sub, hc, hs]
    have := sin_sq_add_cos_sq φ
    have e : d * cos φ / |d| * cos φ + d * sin φ / |d| * sin φ
        = d * (sin φ ^ 2 + cos φ ^ 2) / |d| := by ring
    rw [e, this, mul_one]
  rw [hcos]
  rcases lt_or_gt_of_ne hd with hneg | hpos
  · rw [abs_of_neg hneg]
    have : d / -d < 0 := by
      rw [div_neg, div_self hd]; norm_num
    rw [if_pos this]; ring
  · rw [abs_of_pos hpos]
    have : ¬ d / d < 0 := by
      rw [div_self hd]; norm_num
    rw [if_neg this]

/-- the model's charge is the sign of κ outside the dead zone -/
theorem charge_eq (h : Params ℝ) (hk : 1 / 10000000000 < |h.kappa|) :
    charge R h = (if 0 < h.kappa then 1 else -1) := by
  simp only [charge, realOps, decide_eq_true_eq]
  by_cases hpos : 0 < h.kappa
  · rw [abs_of_pos hpos] at hk
    rw [if_pos hk, if_pos hpos]
  · have hle : h.kappa ≤ 0 := not_lt.1 hpos
    rw [abs_of_nonpos hle] at hk
    have h1 : ¬ (1 / 10000000000 < h.kappa) := by linarith
    have h2 : h.kappa < -(1 / 10000000000) := by linarith
    rw [if_neg h1, if_pos h2, if_neg hpos]

/-- κ is recovered from charge and pt -/
theorem kappa_roundtrip (k : ℝ) (hk : k ≠ 0) : (if 0 < k then (1 : ℝ) else -1) / (1 / |k|) = k := by
  by_cases hpos : 0 < k
  · rw [if_pos hpos, abs_of_pos hpos]; field_simp
  · have hneg : k < 0 := lt_of_le_of_ne (not_lt.1 hpos) hk
    rw [if_neg hpos, abs_of_neg hneg]; field_simp

end Pybes3Verif.Helix
