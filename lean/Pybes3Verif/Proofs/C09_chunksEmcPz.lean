import Pybes3Verif.Proofs.C09Defs
namespace Pybes3Verif.C09
open Pybes3Verif.Util Pybes3Verif.IEEE Pybes3Verif.Gen
open Pybes3Verif.Gen.Emc Pybes3Verif.Gen.EmcTables

def chunkEqE_points_z (j : Nat) : Bool := mod__points_z_chunk j == npz_points_z_chunk j
theorem chunksE_points_z : ∀ j, j < 780 → chunkEqE_points_z j = true :=
  forall_lt_of_allBlock chunkEqE_points_z 780 10 (by decide +kernel) (by decide)

end Pybes3Verif.C09
