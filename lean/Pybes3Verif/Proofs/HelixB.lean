import Mathlib.LinearAlgebra.Matrix.PosDef
import Mathlib.Algebra.Order.Star.Real
import Pybes3Verif.Proofs.HelixReal
/-!
Helper lemmas for Group B (C12): the Jacobian of `_change_pivot` and the propagation of the error matrix.
Everything lives in the sub-namespace `Pybes3Verif.Helix.B` so that the names cannot clash with the helper
files of the other groups.
-/
namespace Pybes3Verif.Helix.B
open Real

local notation "R" => realOps

/-! ### implicit differentiation -/

/-- derivative of the signed radius `ρ = −α₀/κ` along a curve: `dρ = α₀/κ² · dκ` -/
theorem hasDerivAt_rho (ka ρ : ℝ → ℝ) (t dka : ℝ) (hka : HasDerivAt ka dka t)
    (hρ : ∀ s, ρ s = -alpha0 / ka s) (hk : ka t ≠ 0) :
    HasDerivAt ρ (alpha0 / (ka t) ^ 2 * dka) t := by
  have hfun : ρ = fun s => -alpha0 / ka s := funext hρ
  rw [hfun]
  have h : HasDerivAt (fun s => -alpha0 / ka s) ((0 * ka t - -alpha0 * dka) / ka t ^ 2) t :=
    (hasDerivAt_const t (-alpha0)).div hka hk
  have he : alpha0 / (ka t) ^ 2 * dka = (0 * ka t - -alpha0 * dka) / ka t ^ 2 := by
    field_simp
    ring
  rw [he]
  exact h

/-- the two linear equations obtained by differentiating the centre equations -/
theorem centre_eqs_deriv
    (dr ph dr' ph' ρ : ℝ → ℝ) (t ddr dph ddr' dph' dρ : ℝ)
    (hdr : HasDerivAt dr ddr t) (hph : HasDerivAt ph dph t)
    (hdr' : HasDerivAt dr' ddr' t) (hph' : HasDerivAt ph' dph' t)
    (hρ : HasDerivAt ρ dρ t)
    (hx : ∀ s, (dr' s + ρ s) * cos (ph' s) = (dr s + ρ s) * cos (ph s))
    (hy : ∀ s, (dr' s + ρ s) * sin (ph' s) = (dr s + ρ s) * sin (ph s)) :
    (ddr' + dρ) * cos (ph' t) + (dr' t + ρ t) * (-sin (ph' t) * dph')
      = (ddr + dρ) * cos (ph t) + (dr t + ρ t) * (-sin (ph t) * dph) ∧
    (ddr' + dρ) * sin (ph' t) + (dr' t + ρ t) * (cos (ph' t) * dph')
      = (ddr + dρ) * sin (ph t) + (dr t + ρ t) * (cos (ph t) * dph) := by
  constructor
  · have hL := (hdr'.add hρ).mul hph'.cos
    have hR := (hdr.add hρ).mul hph.cos
    have hfun : (fun s => (dr' s + ρ s) * cos (ph' s)) = fun s => (dr s + ρ s) * cos (ph s) := funext hx
    have hL' : HasDerivAt (fun s => (dr' s + ρ s) * cos (ph' s))
        ((ddr' + dρ) * cos (ph' t) + (dr' t + ρ t) * (-sin (ph' t) * dph')) t := hL
    have hR' : HasDerivAt (fun s => (dr s + ρ s) * cos (ph s))
        ((ddr + dρ) * cos (ph t) + (dr t + ρ t) * (-sin (ph t) * dph)) t := hR
    rw [hfun] at hL'
    exact hL'.unique hR'
  · have hL := (hdr'.add hρ).mul hph'.sin
    have hR := (hdr.add hρ).mul hph.sin
    have hfun : (fun s => (dr' s + ρ s) * sin (ph' s)) = fun s => (dr s + ρ s) * sin (ph s) := funext hy
    have hL' : HasDerivAt (fun s => (dr' s + ρ s) * sin (ph' s))
        ((ddr' + dρ) * sin (ph' t) + (dr' t + ρ t) * (cos (ph' t) * dph')) t := hL
    have hR' : HasDerivAt (fun s => (dr s + ρ s) * sin (ph s))
        ((ddr + dρ) * sin (ph t) + (dr t + ρ t) * (cos (ph t) * dph)) t := hR
    rw [hfun] at hL'
    exact hL'.unique hR'

/-- solving the two linear equations for `ddr'`, `dph'` -/
theorem centre_eqs_solve (A B c' s' c s ddr dph ddr' dph' dρ : ℝ)
    (h1 : c' ^ 2 + s' ^ 2 = 1)
    (e1 : (ddr' + dρ) * c' + A * (-s' * dph') = (ddr + dρ) * c + B * (-s * dph))
    (e2 : (ddr' + dρ) * s' + A * (c' * dph') = (ddr + dρ) * s + B * (c * dph)) :
    ddr' = (c' * c + s' * s) * ddr + B * (s' * c - c' * s) * dph + (c' * c + s' * s - 1) * dρ ∧
    A * dph' = -(s' * c - c' * s) * ddr + B * (c' * c + s' * s) * dph - (s' * c - c' * s) * dρ := by
  constructor
  · linear_combination c' * e1 + s' * e2 - (ddr' + dρ) * h1
  · linear_combination (-s') * e1 + c' * e2 - A * dph' * h1

/-! ### the model's signed radius -/

theorem alpha0_pos : 0 < alpha0 := by unfold alpha0; norm_num

/-- the model's signed radius is the specification's ρ = −α₀/κ (both charges) -/
theorem signedRadius_eq_rho' (h : Params ℝ) (hk : h.kappa ≠ 0) : signedRadius R h.kappa = rho h := by
  simp only [signedRadius, radius, realOps, rho, alpha0, decide_eq_true_eq]
  rcases lt_or_gt_of_ne hk with hneg | hpos
  · rw [if_neg (not_lt.mpr hneg.le), abs_of_neg hneg]
    field_simp
  · rw [if_pos hpos, abs_of_pos hpos]
    field_simp

/-! ### `pmod` and angles -/

/-- `a mod 2π` as computed by the model -/
theorem pmod_twoPi (a : ℝ) : pmod R a (twoPi R) = a - (⌊a / (2 * π)⌋ : ℝ) * (2 * π) := by
  simp only [pmod, twoPi, realOps]
  ring

theorem pmod_twoPi_nonneg (a : ℝ) : 0 ≤ pmod R a (twoPi R) := by
  rw [pmod_twoPi]
  have h2 : (0 : ℝ) < 2 * π := by positivity
  have := Int.floor_le (a / (2 * π))
  have h3 : (⌊a / (2 * π)⌋ : ℝ) * (2 * π) ≤ a / (2 * π) * (2 * π) :=
    mul_le_mul_of_nonneg_right this h2.le
  have h4 : a / (2 * π) * (2 * π) = a := by field_simp
  linarith

theorem pmod_twoPi_lt (a : ℝ) : pmod R a (twoPi R) < 2 * π := by
  rw [pmod_twoPi]
  have h2 : (0 : ℝ) < 2 * π := by positivity
  have := Int.lt_floor_add_one (a / (2 * π))
  have h3 : a / (2 * π) * (2 * π) < ((⌊a / (2 * π)⌋ : ℝ) + 1) * (2 * π) :=
    mul_lt_mul_of_pos_right this h2
  have h4 : a / (2 * π) * (2 * π) = a := by field_simp
  linarith

theorem cos_pmod_twoPi (a : ℝ) : cos (pmod R a (twoPi R)) = cos a := by
  rw [pmod_twoPi, Real.cos_sub_int_mul_two_pi]

theorem sin_pmod_twoPi (a : ℝ) : sin (pmod R a (twoPi R)) = sin a := by
  rw [pmod_twoPi, Real.sin_sub_int_mul_two_pi]

/-- two angles of `[0, 2π)` with the same cosine and sine are equal -/
theorem angle_unique (a b : ℝ) (ha0 : 0 ≤ a) (ha1 : a < 2 * π) (hb0 : 0 ≤ b) (hb1 : b < 2 * π)
    (hc : cos a = cos b) (hs : sin a = sin b) : a = b := by
  have hA : (a : Real.Angle) = (b : Real.Angle) := Real.Angle.cos_sin_inj hc hs
  rw [Real.Angle.angle_eq_iff_two_pi_dvd_sub] at hA
  obtain ⟨k, hk⟩ := hA
  have hpi : (0 : ℝ) < 2 * π := by positivity
  have h1 : (k : ℝ) < 1 := by
    by_contra hcon
    have : (1 : ℝ) ≤ k := not_lt.mp hcon
    nlinarith
  have h2 : (-1 : ℝ) < k := by
    by_contra hcon
    have : (k : ℝ) ≤ -1 := not_lt.mp hcon
    nlinarith
  have hk0 : k = 0 := by
    have h1' : k < 1 := by exact_mod_cast h1
    have h2' : -1 < k := by exact_mod_cast h2
    omega
  rw [hk0] at hk
  simp at hk
  linarith

/-- if `a` has the cosine and sine of an angle `b ∈ [0, 2π)` then `a mod 2π = b` -/
theorem pmod_eq_of_cos_sin (a b : ℝ) (hb0 : 0 ≤ b) (hb1 : b < 2 * π)
    (hc : cos a = cos b) (hs : sin a = sin b) : pmod R a (twoPi R) = b :=
  angle_unique _ _ (pmod_twoPi_nonneg a) (pmod_twoPi_lt a) hb0 hb1
    ((cos_pmod_twoPi a).trans hc) ((sin_pmod_twoPi a).trans hs)

theorem normDphi_zero : normDphi R 0 = 0 := by
  have h0 : pmod R 0 (twoPi R) = 0 := by
    rw [pmod_twoPi]; simp
  simp only [normDphi, h0]
  have : ¬ (π < 0) := not_lt.mpr Real.pi_pos.le
  simp [realOps, this]

/-! ### a move to the same pivot -/

/-- cosine and sine of the polar angle of `m·(cos φ, sin φ)`, `m ≠ 0` -/
theorem cos_sin_arg_polar (m φ : ℝ) (hm : m ≠ 0) :
    cos (Complex.arg ⟨m * cos φ, m * sin φ⟩) = m / |m| * cos φ ∧
    sin (Complex.arg ⟨m * cos φ, m * sin φ⟩) = m / |m| * sin φ := by
  have hnorm : ‖(⟨m * cos φ, m * sin φ⟩ : ℂ)‖ = |m| := by
    rw [Complex.norm_def, Complex.normSq_mk]
    have : m * cos φ * (m * cos φ) + m * sin φ * (m * sin φ) = m ^ 2 := by
      have := Real.cos_sq_add_sin_sq φ
      linear_combination m ^ 2 * this
    rw [this, Real.sqrt_sq_eq_abs]
  have hz : (⟨m * cos φ, m * sin φ⟩ : ℂ) ≠ 0 := by
    intro h0
    rw [h0, norm_zero] at hnorm
    exact hm (abs_eq_zero.mp hnorm.symm)
  constructor
  · rw [Complex.cos_arg hz, hnorm]; simp only; ring
  · rw [Complex.sin_arg, hnorm]; simp only; ring

/-- the pieces of `Valid.side` -/
theorem valid_side_cases (h : Params ℝ) (hv : Valid h) :
    (0 < rho h ∧ 0 < h.dr + rho h) ∨ (rho h < 0 ∧ h.dr + rho h < 0) := by
  have hs := hv.side
  rcases div_pos_iff.mp hs with ⟨a, b⟩ | ⟨a, b⟩
  · exact Or.inl ⟨b, a⟩
  · exact Or.inr ⟨b, a⟩

/-- `fromCentre` applied to the helix's own centre and pivot returns `(dr, φ0)` -/
theorem fromCentre_self (h : Params ℝ) (p : Vec3 ℝ) (hv : Valid h) :
    fromCentre R (centre R h p) p (signedRadius R h.kappa) = (h.dr, h.phi0) := by
  have hr := signedRadius_eq_rho' h hv.kappa_ne
  simp only [centre, hr]
  set r := rho h with hrdef
  set m := h.dr + r with hmdef
  have hvx : realOps.sub (realOps.add p.x (realOps.mul (realOps.add h.dr r) (realOps.cos h.phi0))) p.x = m * cos h.phi0 := by
    simp only [realOps]; ring
  have hvy : realOps.sub (realOps.add p.y (realOps.mul (realOps.add h.dr r) (realOps.sin h.phi0))) p.y = m * sin h.phi0 := by
    simp only [realOps]; ring
  simp only [fromCentre, hvx, hvy]
  have hsq : realOps.sqrt (realOps.add (realOps.mul (m * cos h.phi0) (m * cos h.phi0)) (realOps.mul (m * sin h.phi0) (m * sin h.phi0))) = |m| := by
    simp only [realOps]
    have : m * cos h.phi0 * (m * cos h.phi0) + m * sin h.phi0 * (m * sin h.phi0) = m ^ 2 := by
      have := Real.cos_sq_add_sin_sq h.phi0
      linear_combination m ^ 2 * this
    rw [this, Real.sqrt_sq_eq_abs]
  rw [hsq]
  have hat : realOps.atan2 (m * sin h.phi0) (m * cos h.phi0) = Complex.arg ⟨m * cos h.phi0, m * sin h.phi0⟩ := rfl
  rw [hat]
  rcases valid_side_cases h hv with ⟨hr0, hm0⟩ | ⟨hr0, hm0⟩
  · change 0 < r at hr0
    change 0 < m at hm0
    obtain ⟨hc, hs⟩ := cos_sin_arg_polar m h.phi0 hm0.ne'
    rw [abs_of_pos hm0, div_self hm0.ne', one_mul] at hc hs
    have hlt : realOps.lt r realOps.zero = false := by
      simp only [realOps, decide_eq_false_iff_not]; exact not_lt.mpr hr0.le
    simp only [sgn, hlt]
    ext
    · simp only [realOps, Bool.false_eq_true, if_false, abs_of_pos hm0]; ring
    · simp only [Bool.false_eq_true, if_false]
      apply pmod_eq_of_cos_sin _ _ hv.phi_lo hv.phi_hi
      · simp only [realOps, add_zero]; exact hc
      · simp only [realOps, add_zero]; exact hs
  · change r < 0 at hr0
    change m < 0 at hm0
    obtain ⟨hc, hs⟩ := cos_sin_arg_polar m h.phi0 hm0.ne
    rw [abs_of_neg hm0, div_neg, div_self hm0.ne, neg_one_mul] at hc hs
    have hlt : realOps.lt r realOps.zero = true := by
      simp only [realOps, decide_eq_true_eq]; exact hr0
    simp only [sgn, hlt]
    ext
    · simp only [realOps, if_true, abs_of_neg hm0]; ring
    · simp only [if_true]
      apply pmod_eq_of_cos_sin _ _ hv.phi_lo hv.phi_hi
      · simp only [realOps, Real.cos_add_pi, hc, neg_neg]
      · simp only [realOps, Real.sin_add_pi, hs, neg_neg]

/-- a move to the same pivot has turning angle 0 -/
theorem dphiOf_self (h : Params ℝ) (p : Vec3 ℝ) (hv : Valid h) : dphiOf R h p p = 0 := by
  simp only [dphiOf, fromCentre_self h p hv]
  have : realOps.sub h.phi0 h.phi0 = 0 := by simp [realOps]
  rw [this, normDphi_zero]

/-- a move to the same pivot keeps `dr` -/
theorem changePivot_self_dr (h : Params ℝ) (p : Vec3 ℝ) (hv : Valid h) : (changePivot R h p p).dr = h.dr := by
  simp only [changePivot, fromCentre_self h p hv]

/-! ### the Jacobian as a function of the six numbers it depends on -/

/-- `Model.Helix.jacobian` over ℝ with the signed radius `r`, `κ`, `dr`, `dr'`, `tanλ` and the turning
angle `Δ` made explicit -/
noncomputable def jacobianWith (r ka dr dr' tl Δ : ℝ) : Nat → Nat → ℝ :=
  fun i j =>
    match i, j with
    | 0, 0 => cos Δ
    | 0, 1 => (r + dr) * sin Δ
    | 0, 2 => r / ka * (1 - cos Δ)
    | 1, 0 => -(1 / (r + dr') * sin Δ)
    | 1, 1 => (r + dr) * (1 / (r + dr')) * cos Δ
    | 1, 2 => r / ka * (1 / (r + dr')) * sin Δ
    | 2, 2 => 1
    | 3, 0 => r * (1 / (r + dr')) * tl * sin Δ
    | 3, 1 => r * tl * (1 - (r + dr) * (1 / (r + dr')) * cos Δ)
    | 3, 2 => r / ka * tl * (Δ - r * (1 / (r + dr')) * sin Δ)
    | 3, 3 => 1
    | 3, 4 => -(r * Δ)
    | 4, 4 => 1
    | _, _ => 0

theorem jacobian_eq_jacobianWith (h : Params ℝ) (p p' : Vec3 ℝ) :
    jacobian R h p p' = jacobianWith (signedRadius R h.kappa) h.kappa h.dr (changePivot R h p p').dr
      h.tanl (dphiOf R h p p') := rfl

theorem rho_add_dr_ne_zero (h : Params ℝ) (hv : Valid h) : rho h + h.dr ≠ 0 := by
  rcases valid_side_cases h hv with ⟨_, hm⟩ | ⟨_, hm⟩
  · rw [add_comm]; exact hm.ne'
  · rw [add_comm]; exact hm.ne

/-- turning angle 0 and `dr' = dr` give the identity matrix -/
theorem jacobianWith_zero (r ka dr tl : ℝ) (hne : r + dr ≠ 0) (i j : Fin 5) :
    jacobianWith r ka dr dr tl 0 i j = if i = j then 1 else 0 := by
  have h1 : (r + dr) * (r + dr)⁻¹ = 1 := mul_inv_cancel₀ hne
  fin_cases i <;> fin_cases j <;> simp [jacobianWith, h1]

/-! ### propagation of the error matrix -/

/-- `propagate` is the matrix product J E Jᵀ -/
theorem propagate_eq_matrix' (J E : Nat → Nat → ℝ) :
    (Matrix.of fun (i j : Fin 5) => propagate R J E i j) =
      (Matrix.of fun (i j : Fin 5) => J i j) * (Matrix.of fun (i j : Fin 5) => E i j) *
        (Matrix.of fun (i j : Fin 5) => J i j).transpose := by
  ext i j
  simp only [Matrix.mul_apply, Matrix.of_apply, Matrix.transpose_apply, Fin.sum_univ_five,
    propagate, sum5, realOps]
  simp only [Fin.coe_ofNat_eq_mod, Nat.reduceMod]
  ring

/-- the identity Jacobian leaves the error matrix unchanged -/
theorem propagate_id (J E : Nat → Nat → ℝ) (hJ : ∀ i j : Fin 5, J i j = if i = j then 1 else 0)
    (i j : Fin 5) : propagate R J E i j = E i j := by
  have hone : (Matrix.of fun (i j : Fin 5) => J i j) = 1 := by
    ext a b
    rw [Matrix.of_apply, hJ a b, Matrix.one_apply]
  have h := propagate_eq_matrix' J E
  rw [hone, Matrix.transpose_one, Matrix.one_mul, Matrix.mul_one] at h
  have := congrFun (congrFun h i) j
  simpa using this

/-! ### concrete witnesses (the hypotheses used in C12 are satisfiable) -/

/-- a concrete negative track: dr = 1 cm, φ0 = 1, κ = −1 (GeV/c)⁻¹, dz = 0, tanλ = 1/2 -/
noncomputable def exampleHelix : Params ℝ := { dr := 1, phi0 := 1, kappa := -1, dz := 0, tanl := 1 / 2 }

/-- a concrete positive track with the reference point inside the circle's far side excluded:
dr = −2 cm, φ0 = 3, κ = 2 -/
noncomputable def exampleHelixPos : Params ℝ := { dr := -2, phi0 := 3, kappa := 2, dz := 5, tanl := -1 }

theorem exampleHelix_valid : Valid exampleHelix where
  kappa_ne := by simp [exampleHelix]
  phi_lo := by simp [exampleHelix]
  phi_hi := by
    have := Real.two_le_pi
    simp only [exampleHelix]; linarith
  side := by
    have hρ : rho exampleHelix = alpha0 := by simp [rho, exampleHelix]
    rw [hρ]
    have := alpha0_pos
    simp only [exampleHelix]
    positivity

theorem exampleHelixPos_valid : Valid exampleHelixPos where
  kappa_ne := by simp [exampleHelixPos]
  phi_lo := by simp [exampleHelixPos]
  phi_hi := by
    have := Real.two_le_pi
    simp only [exampleHelixPos]; linarith
  side := by
    have hρ : rho exampleHelixPos = -alpha0 / 2 := by simp [rho, exampleHelixPos]
    rw [hρ]
    have h : (0 : ℝ) < alpha0 := alpha0_pos
    simp only [exampleHelixPos]
    apply div_pos_of_neg_of_neg <;> linarith

end Pybes3Verif.Helix.B
