import Pybes3Verif.Proofs.C10Defs
namespace Pybes3Verif.C10
open Pybes3Verif.Util Pybes3Verif.Gen Pybes3Verif.Gen.Reid Pybes3Verif.Gen.DigiId

theorem lensEmc : tbl_emc_len = 8192 ∧ tbl_emc_nchunks = 128 ∧ ref_emc_nchunks = 128 ∧ sorted_emc_len = 6240 := by decide

end Pybes3Verif.C10
