import Pybes3Verif.Proofs.C10Defs
namespace Pybes3Verif.C10
open Pybes3Verif.Util Pybes3Verif.Gen Pybes3Verif.Gen.Reid Pybes3Verif.Gen.DigiId

theorem lensMuc : tbl_muc_len = 2048 ∧ tbl_muc_nchunks = 32 ∧ ref_muc_nchunks = 32 ∧ sorted_muc_len = 572 := by decide

end Pybes3Verif.C10
