import Mathlib.Data.Rat.Defs
import Mathlib.Algebra.Order.AbsoluteValue.Basic
import Mathlib.Tactic.Ring
import Mathlib.Tactic.Linarith
import Mathlib.Tactic.FieldSimp
import Mathlib.Tactic.Positivity
import Mathlib.Tactic.NormNum
import Pybes3Verif.Proofs.C09CentroidDefs
/-! Soundness of the fixed-point (`Nat`-only) centroid check of C09 with respect to exact rational arithmetic on the decoded
doubles: `val`, `val_eq_fx`, `nearSum_sound`, `centroidOk_sound`. -/
namespace Pybes3Verif.C09
open Pybes3Verif.Util Pybes3Verif.IEEE Pybes3Verif.Gen

/-- the exact rational value of a finite IEEE-754 binary64 bit pattern: (-1)^sign · mant · 2^(e2 − 1075) -/
def val (b : Nat) : ℚ := (if isNeg b then -1 else 1) * ((mant b : ℚ) * 2 ^ (e2 b)) / 2 ^ 1075

/-- the fixed-point magnitude is exact: fx b · 2^fixK = mant b · 2^(e2 b), over ℚ -/
theorem fx_cast (b : Nat) (h : fxOk b = true) : ((fx b : Nat) : ℚ) * 2 ^ fixK = (mant b : ℚ) * 2 ^ (e2 b) := by
  unfold fx
  by_cases hm : mant b = 0
  · simp only [hm, if_true, Nat.cast_zero, zero_mul]
  · rw [if_neg hm]
    have hk : fixK ≤ e2 b := by
      unfold fxOk at h
      rw [Bool.and_eq_true, Bool.or_eq_true] at h
      rcases h.2 with h2 | h2
      · exact absurd (by simpa using h2) hm
      · exact of_decide_eq_true h2
    have he : e2 b = (e2 b - fixK) + fixK := by omega
    have hp : (2 : ℚ) ^ (e2 b) = 2 ^ (e2 b - fixK) * 2 ^ fixK := by
      rw [← pow_add, ← he]
    rw [hp, Nat.cast_mul, Nat.cast_pow, Nat.cast_ofNat, mul_assoc]

/-- the fixed-point parts represent the value exactly: val b = (fxPos b − fxNeg b) · 2^(fixK − 1075) -/
theorem val_eq_fx (b : Nat) (h : fxOk b = true) : val b = ((fxPos b : ℚ) - (fxNeg b : ℚ)) * 2 ^ fixK / 2 ^ 1075 := by
  have hf := fx_cast b h
  unfold val fxPos fxNeg
  cases isNeg b
  · simp only [Bool.false_eq_true, if_false, Nat.cast_zero, sub_zero, one_mul]
    rw [hf]
  · simp only [if_true, Nat.cast_zero, zero_sub, neg_mul, one_mul]
    rw [hf]

/-- `nearSum` decides the rational inequality it stands for -/
theorem nearSum_sound (k c pos neg t : Nat) (hc : fxOk c = true) (h : nearSum k c pos neg t = true) :
    |(k : ℚ) * val c - ((pos : ℚ) - (neg : ℚ)) * 2 ^ fixK / 2 ^ 1075| ≤ 2 ^ t * 2 ^ fixK / 2 ^ 1075 := by
  unfold nearSum at h
  rw [Bool.and_eq_true] at h
  have h1 : pos + k * fxNeg c ≤ neg + k * fxPos c + 2 ^ t := of_decide_eq_true h.1
  have h2 : neg + k * fxPos c ≤ pos + k * fxNeg c + 2 ^ t := of_decide_eq_true h.2
  have q1 : (pos : ℚ) + k * fxNeg c ≤ neg + k * fxPos c + 2 ^ t := by exact_mod_cast h1
  have q2 : (neg : ℚ) + k * fxPos c ≤ pos + k * fxNeg c + 2 ^ t := by exact_mod_cast h2
  rw [val_eq_fx c hc]
  have hS : (0 : ℚ) < 2 ^ fixK / 2 ^ 1075 := div_pos (pow_pos two_pos _) (pow_pos two_pos _)
  generalize hSd : (2 : ℚ) ^ fixK / 2 ^ 1075 = S at hS
  have e1 : (k : ℚ) * (((fxPos c : ℚ) - (fxNeg c : ℚ)) * 2 ^ fixK / 2 ^ 1075) - ((pos : ℚ) - (neg : ℚ)) * 2 ^ fixK / 2 ^ 1075
      = ((k : ℚ) * fxPos c - k * fxNeg c - pos + neg) * S := by
    rw [← hSd]; generalize (2 : ℚ) ^ 1075 = D; generalize (2 : ℚ) ^ fixK = F; ring
  have e2' : (2 : ℚ) ^ t * 2 ^ fixK / 2 ^ 1075 = 2 ^ t * S := by
    rw [← hSd]; generalize (2 : ℚ) ^ 1075 = D; generalize (2 : ℚ) ^ fixK = F; ring
  rw [e1, e2', abs_mul, abs_of_pos hS]
  apply mul_le_mul_of_nonneg_right _ hS.le
  rw [abs_le]
  constructor <;> linarith

theorem scale88 : ((2 : ℚ) ^ 88 * 2 ^ fixK) / 2 ^ 1075 = 1 / 2 ^ 27 := by
  have h : (2 : ℚ) ^ 1075 = 2 ^ 88 * 2 ^ fixK * 2 ^ 27 := by
    rw [← pow_add, ← pow_add, show 88 + fixK + 27 = 1075 from rfl]
  rw [h]
  have a : (2 : ℚ) ^ 88 * 2 ^ fixK ≠ 0 := by positivity
  have b : (2 : ℚ) ^ 27 ≠ 0 := by positivity
  field_simp

theorem scale87 : ((2 : ℚ) ^ 87 * 2 ^ fixK) / 2 ^ 1075 = 1 / 2 ^ 28 := by
  have h : (2 : ℚ) ^ 1075 = 2 ^ 87 * 2 ^ fixK * 2 ^ 28 := by
    rw [← pow_add, ← pow_add, show 87 + fixK + 28 = 1075 from rfl]
  rw [h]
  have a : (2 : ℚ) ^ 87 * 2 ^ fixK ≠ 0 := by positivity
  have b : (2 : ℚ) ^ 28 ≠ 0 := by positivity
  field_simp

/-- what `centroidOk` means: for a barrel crystal the centre is the centroid of the eight corner points and the front centre
the centroid of the first four, along that axis, within 2^-30 cm (stated as |8c − Σ₈| ≤ 2^-27 and |4f − Σ₄| ≤ 2^-28),
as exact rational numbers -/
theorem centroidOk_sound (part ptsChunk cen fro : Nat → Nat) (g : Nat) (hb : part g = 1)
    (h : centroidOk part ptsChunk cen fro g = true) :
    let p := fun k => ent (ptsChunk (g / 8)) g k
    |8 * val (cen g) - (val (p 0) + val (p 1) + val (p 2) + val (p 3) + val (p 4) + val (p 5) + val (p 6) + val (p 7))| ≤ 1 / 2 ^ 27 ∧
    |4 * val (fro g) - (val (p 0) + val (p 1) + val (p 2) + val (p 3))| ≤ 1 / 2 ^ 28 := by
  intro p
  unfold centroidOk at h
  have hp1 : (part g != 1) = false := by rw [hb]; rfl
  rw [hp1, Bool.false_or] at h
  simp only [Bool.and_eq_true] at h
  obtain ⟨⟨⟨⟨⟨⟨⟨⟨⟨⟨o0, o1⟩, o2⟩, o3⟩, o4⟩, o5⟩, o6⟩, o7⟩, oc⟩, of'⟩, n4, n8⟩ := h
  have s4 := nearSum_sound _ _ _ _ _ of' n4
  have s8 := nearSum_sound _ _ _ _ _ oc n8
  rw [scale87] at s4
  rw [scale88] at s8
  have v0 := val_eq_fx (p 0) o0
  have v1 := val_eq_fx (p 1) o1
  have v2 := val_eq_fx (p 2) o2
  have v3 := val_eq_fx (p 3) o3
  have v4 := val_eq_fx (p 4) o4
  have v5 := val_eq_fx (p 5) o5
  have v6 := val_eq_fx (p 6) o6
  have v7 := val_eq_fx (p 7) o7
  constructor
  · rw [v0, v1, v2, v3, v4, v5, v6, v7]
    refine le_of_eq_of_le (congrArg abs ?_) s8
    simp only [Nat.cast_add, Nat.cast_ofNat]
    generalize (2 : ℚ) ^ 1075 = D; generalize (2 : ℚ) ^ fixK = F
    ring
  · rw [v0, v1, v2, v3]
    refine le_of_eq_of_le (congrArg abs ?_) s4
    simp only [Nat.cast_add, Nat.cast_ofNat]
    generalize (2 : ℚ) ^ 1075 = D; generalize (2 : ℚ) ^ fixK = F
    ring

end Pybes3Verif.C09
