import Pybes3Verif.Proofs.C10Defs
namespace Pybes3Verif.C10
open Pybes3Verif.Util Pybes3Verif.Gen Pybes3Verif.Gen.Reid Pybes3Verif.Gen.DigiId

theorem sortedEmc_b : ∀ k, k < 6240 → sortedOk tbl_emc_raw sorted_emc_raw 6240 k = true :=
  forall_lt_of_allBlock (sortedOk tbl_emc_raw sorted_emc_raw 6240) 6240 13 (by decide +kernel) (by decide)

end Pybes3Verif.C10
