import Pybes3Verif.Model.CgemCol
import Pybes3Verif.Spec.CgemStream
import Pybes3Verif.Proofs.RootLemmas
import Pybes3Verif.Props.C01
/-!
Helper lemmas for the `Bes3CgemClusterColReader` theorems (`Props/C01Cgem.lean`): 64-bit words, `times`
over `flatMap`-encoded member arrays, the cluster parser split into header part / version decision / member
part, byte-count arithmetic of the cluster body, well-formedness unpacked, stepping lemmas for
`readClusters`, `readCgemCol`, `readCgemEntries`.
-/
namespace Pybes3Verif.Root
open Pybes3Verif.Root.Spec

/-! ### words and member arrays -/

theorem pow256_8 : 256 ^ 8 = 18446744073709551616 := rfl

theorem u64_be (v : Nat) (rest : List Nat) (h : v < 18446744073709551616) :
    u64.run (be 8 v ++ rest) = some (v, rest) := by
  unfold u64
  rw [bind_ok _ _ _ _ _ (take_append' 8 _ _ (be_length' 8 v)), pure_run,
    beVal_be' 8 v (by rw [pow256_8]; exact h)]

theorem times_u32_flatMap (n : Nat) (xs rest : List Nat) (hl : xs.length = n)
    (hb : ∀ x ∈ xs, x < 4294967296) :
    (times u32 n).run (xs.flatMap (be 4) ++ rest) = some (xs, rest) := by
  subst hl
  have := times_flatMap u32 (be 4) id xs (fun x hx r => u32_be x r (hb x hx)) rest
  rw [List.map_id] at this
  exact this

theorem times_u64_flatMap (n : Nat) (xs rest : List Nat) (hl : xs.length = n)
    (hb : ∀ x ∈ xs, x < 18446744073709551616) :
    (times u64 n).run (xs.flatMap (be 8) ++ rest) = some (xs, rest) := by
  subst hl
  have := times_flatMap u64 (be 8) id xs (fun x hx r => u64_be x r (hb x hx)) rest
  rw [List.map_id] at this
  exact this

theorem length_flatMap_be (n : Nat) (xs : List Nat) : (xs.flatMap (be n)).length = n * xs.length := by
  induction xs with
  | nil => rfl
  | cons x xs ih =>
    rw [List.flatMap_cons, List.length_append, ih, be_length', List.length_cons, Nat.mul_succ]
    omega

theorem list_len4 {α : Type} (l : List α) (h : l.length = 4) : ∃ a b c d, l = [a, b, c, d] := by
  rcases l with _ | ⟨a, _ | ⟨b, _ | ⟨c, _ | ⟨d, _ | ⟨e, l⟩⟩⟩⟩⟩ <;>
    first
    | exact ⟨_, _, _, _, rfl⟩
    | (simp only [List.length_cons, List.length_nil] at h; omega)

theorem list_len5 {α : Type} (l : List α) (h : l.length = 5) : ∃ a b c d e, l = [a, b, c, d, e] := by
  rcases l with _ | ⟨a, _ | ⟨b, _ | ⟨c, _ | ⟨d, _ | ⟨e, _ | ⟨f, l⟩⟩⟩⟩⟩⟩ <;>
    first
    | exact ⟨_, _, _, _, _, rfl⟩
    | (simp only [List.length_cons, List.length_nil] at h; omega)

/-! ### the cluster parser in three parts -/

/-- the version decision of `read`: keep `m_version` if already decided, else decide from the byte count
minus what has been consumed since the byte-count word (class version 2 bytes, TObject `tobj` bytes) -/
def decideVersion (version : Option Nat) (nb tobj : Nat) : P Nat :=
  match version with
  | some v => pure v
  | none => if nb = 2 + tobj + 84 then pure 0 else if nb = 2 + tobj + 76 then pure 1 else fail

/-- the part of `readCluster` after the version decision: the members -/
def clusterMembers (v : Nat) : P (Cluster × Nat) := do
  let ints ← times u32 5
  let d1 ← times u64 2
  let dy ← (if v = 0 then times u64 1 else pure [])
  let d2 ← times u64 2
  let cf ← times u32 2
  let st ← times u32 4
  pure ({ ints := ints, doubles := d1 ++ dy ++ d2, clusterFlag := cf, stripID := st }, v)

theorem readCluster_eq (ver : Option Nat) : readCluster ver =
    (skipObjHeader >>= fun _ => readNBytes >>= fun nb => skip 2 >>= fun _ =>
      skipTObjectLen >>= fun tobj => decideVersion ver nb tobj >>= fun v => clusterMembers v) := rfl

theorem clusterMembers_eq (v : Nat) : clusterMembers v =
    (times u32 5 >>= fun ints => times u64 2 >>= fun d1 =>
      (if v = 0 then times u64 1 else pure []) >>= fun dy => times u64 2 >>= fun d2 =>
        times u32 2 >>= fun cf => times u32 4 >>= fun st =>
          pure ({ ints := ints, doubles := d1 ++ dy ++ d2, clusterFlag := cf, stripID := st }, v)) := rfl

/-- bytes of the members of layout `v`: 5 × 4 + 8 × (5 or 4) + 2 × 4 + 4 × 4 -/
def memberBytes (v : Nat) : Nat := if v = 0 then 84 else 76

/-- bytes of a serialised TObject base -/
def tobjLen (bits : Nat) : Nat := if bits &&& kIsReferenced ≠ 0 then 12 else 10

theorem decideVersion_ok (ver : Option Nat) (v nb t : Nat) (hv : v = 0 ∨ v = 1)
    (hver : ver = none ∨ ver = some v) (hnb : nb = 2 + t + memberBytes v) :
    decideVersion ver nb t = pure v := by
  rcases hver with rfl | rfl
  · rcases hv with rfl | rfl
    · have h : nb = 2 + t + 84 := hnb
      show (if nb = 2 + t + 84 then pure 0 else if nb = 2 + t + 76 then pure 1 else fail) = (pure 0 : P Nat)
      rw [if_pos h]
    · have h : nb = 2 + t + 76 := hnb
      show (if nb = 2 + t + 84 then pure 0 else if nb = 2 + t + 76 then pure 1 else fail) = (pure 1 : P Nat)
      rw [if_neg (by omega), if_pos h]
  · rfl

theorem skipTObjectLen_eq : skipTObjectLen =
    (skip 2 >>= fun _ => skip 4 >>= fun _ => u32 >>= fun bits =>
      if bits &&& kIsReferenced ≠ 0 then (skip 2 >>= fun _ => pure 12) else pure 10) := rfl

set_option linter.unusedVariables false in -- version, uid, pidf ranges: those fields are skipped, not decoded
/-- a TObject base is skipped exactly, referenced or not, and its length is reported -/
theorem skipTObjectLen_enc (version uid bits pidf : Nat) (rest : List Nat) (h1 : version < 65536)
    (h2 : uid < 4294967296) (h3 : bits < 4294967296) (h4 : pidf < 65536) :
    skipTObjectLen.run (encTObject version uid bits pidf ++ rest) = some (tobjLen bits, rest) := by
  simp only [encTObject, List.append_assoc]
  rw [skipTObjectLen_eq, bind_ok _ _ _ _ _ (skip_append' 2 _ _ (be_length' _ _)),
    bind_ok _ _ _ _ _ (skip_append' 4 _ _ (be_length' _ _)),
    bind_ok _ _ _ _ _ (u32_be bits _ h3)]
  unfold tobjLen
  by_cases hb : bits &&& kIsReferenced ≠ 0
  · rw [if_pos hb, if_pos hb, if_pos hb, bind_ok _ _ _ _ _ (skip_append' 2 _ _ (be_length' _ _)), pure_run]
  · rw [if_neg hb, if_neg hb, if_neg hb, List.nil_append, pure_run]

theorem encTObject_length (version uid bits pidf : Nat) :
    (encTObject version uid bits pidf).length = tobjLen bits := by
  unfold encTObject tobjLen
  by_cases hb : bits &&& kIsReferenced ≠ 0
  · rw [if_pos hb, if_pos hb]
    simp only [List.length_append, be_length']
  · rw [if_neg hb, if_neg hb]
    simp only [List.length_append, be_length', List.length_nil]

/-- header part: object header, byte-count word, class-version word, TObject (abstract words) -/
theorem readCluster_words (ver : Option Nat) (v t : Nat) (hdr w s T tail : List Nat)
    (hh : ∀ r, skipObjHeader.run (hdr ++ r) = some ((), r))
    (hw : w.length = 4) (hm : beVal w &&& kByteCountMask ≠ 0) (hs : s.length = 2)
    (hT : ∀ r, skipTObjectLen.run (T ++ r) = some (t, r))
    (hd : decideVersion ver (beVal w - kByteCountMask) t = pure v) :
    (readCluster ver).run (hdr ++ (w ++ (s ++ (T ++ tail)))) = (clusterMembers v).run tail := by
  rw [readCluster_eq, bind_ok _ _ _ _ _ (hh _), bind_ok _ _ _ _ _ (readNBytes_words w _ hw hm),
    bind_ok _ _ _ _ _ (skip_append' 2 s _ hs), bind_ok _ _ _ _ _ (hT _), hd]
  rfl

/-- member part, for member arrays split as the reader splits them -/
theorem clusterMembers_words (v : Nat) (ints d1 dy d2 cf st rest : List Nat)
    (hi : ints.length = 5) (hib : ∀ x ∈ ints, x < 4294967296)
    (h1 : d1.length = 2) (h1b : ∀ x ∈ d1, x < 18446744073709551616)
    (hy : dy.length = if v = 0 then 1 else 0) (hyb : ∀ x ∈ dy, x < 18446744073709551616)
    (h2 : d2.length = 2) (h2b : ∀ x ∈ d2, x < 18446744073709551616)
    (hc : cf.length = 2) (hcb : ∀ x ∈ cf, x < 4294967296)
    (hs : st.length = 4) (hsb : ∀ x ∈ st, x < 4294967296) :
    (clusterMembers v).run (ints.flatMap (be 4) ++ (d1.flatMap (be 8) ++ (dy.flatMap (be 8) ++
      (d2.flatMap (be 8) ++ (cf.flatMap (be 4) ++ (st.flatMap (be 4) ++ rest)))))) =
      some (({ ints := ints, doubles := d1 ++ dy ++ d2, clusterFlag := cf, stripID := st }, v), rest) := by
  have hdy : ∀ r, (if v = 0 then times u64 1 else pure []).run (dy.flatMap (be 8) ++ r) = some (dy, r) := by
    intro r
    by_cases h0 : v = 0
    · rw [if_pos h0] at hy ⊢
      exact times_u64_flatMap 1 dy r hy hyb
    · rw [if_neg h0] at hy ⊢
      have : dy = [] := List.eq_nil_of_length_eq_zero hy
      subst this
      rfl
  rw [clusterMembers_eq,
    bind_ok _ _ _ _ _ (times_u32_flatMap 5 ints _ hi hib),
    bind_ok _ _ _ _ _ (times_u64_flatMap 2 d1 _ h1 h1b),
    bind_ok _ _ _ _ _ (hdy _),
    bind_ok _ _ _ _ _ (times_u64_flatMap 2 d2 _ h2 h2b),
    bind_ok _ _ _ _ _ (times_u32_flatMap 2 cf _ hc hcb),
    bind_ok _ _ _ _ _ (times_u32_flatMap 4 st _ hs hsb), pure_run]

/-! ### well-formedness unpacked -/

theorem ClusterEnc.wf_iff (v : Nat) (c : ClusterEnc) (hw : c.wf v = true) :
    c.hdr.wf = true ∧ c.clsVersion < 65536 ∧ c.tVersion < 65536 ∧ c.uid < 4294967296 ∧
      c.bits < 4294967296 ∧ c.pidf < 65536 ∧
      c.value.ints.length = 5 ∧ (∀ x ∈ c.value.ints, x < 4294967296) ∧
      c.value.doubles.length = nDoubles v ∧ (∀ x ∈ c.value.doubles, x < 18446744073709551616) ∧
      c.value.clusterFlag.length = 2 ∧ (∀ x ∈ c.value.clusterFlag, x < 4294967296) ∧
      c.value.stripID.length = 4 ∧ (∀ x ∈ c.value.stripID, x < 4294967296) := by
  simp only [ClusterEnc.wf, Bool.and_eq_true, decide_eq_true_eq, List.all_eq_true] at hw
  obtain ⟨⟨⟨⟨⟨⟨⟨⟨⟨⟨⟨⟨⟨h1, h2⟩, h3⟩, h4⟩, h5⟩, h6⟩, h8⟩, h9⟩, h10⟩, h11⟩, h12⟩, h13⟩, h14⟩, h15⟩ := hw
  exact ⟨h1, h2, h3, h4, h5, h6, h8, h9, h10, h11, h12, h13, h14, h15⟩

theorem CgemEntryEnc.wf_iff (v : Nat) (e : CgemEntryEnc) (hw : e.wf v = true) :
    e.hdr.wf = true ∧ e.arr.wf = true ∧ e.clusters.length < 4294967296 ∧
      ∀ c ∈ e.clusters, c.wf v = true := by
  simp only [CgemEntryEnc.wf, Bool.and_eq_true, decide_eq_true_eq, List.all_eq_true] at hw
  exact ⟨hw.1.1.1, hw.1.1.2, hw.1.2, hw.2⟩

/-! ### byte count of the cluster body -/

/-- the true byte count of a cluster object: class version + TObject + members -/
def clusterNBytes (v bits : Nat) : Nat := 2 + tobjLen bits + memberBytes v

theorem clusterNBytes_lt (v bits : Nat) : clusterNBytes v bits < kByteCountMask := by
  have hm : kByteCountMask = 1073741824 := rfl
  unfold clusterNBytes tobjLen memberBytes
  rw [hm]
  split <;> split <;> omega

theorem encClusterBody_length (v : Nat) (c : ClusterEnc) (hw : c.wf v = true) :
    (encClusterBody v c).length = clusterNBytes v c.bits := by
  obtain ⟨_, _, _, _, _, _, hi, _, hd, _, hc, _, hs, _⟩ := ClusterEnc.wf_iff v c hw
  unfold encClusterBody
  simp only [List.length_append, be_length', length_flatMap_be, List.length_take, hi, hd, hc, hs,
    Nat.min_self, encTObject_length]
  unfold clusterNBytes memberBytes nDoubles
  split <;> omega

/-- the serialised cluster with its byte-count word spelled out and everything right-nested -/
theorem encCluster_shape (v : Nat) (c : ClusterEnc) (hw : c.wf v = true) (rest : List Nat) :
    encCluster v c ++ rest = encObjHdr c.hdr ++ (be 4 (clusterNBytes v c.bits + kByteCountMask) ++
      (be 2 c.clsVersion ++ (encTObject c.tVersion c.uid c.bits c.pidf ++ (c.value.ints.flatMap (be 4) ++
        ((c.value.doubles.take (nDoubles v)).flatMap (be 8) ++ (c.value.clusterFlag.flatMap (be 4) ++
          (c.value.stripID.flatMap (be 4) ++ rest))))))) := by
  unfold encCluster
  rw [encClusterBody_length v c hw]
  simp only [encClusterBody, List.append_assoc]

/-! ### one cluster -/

theorem clusterMembers_enc (v : Nat) (hv : v = 0 ∨ v = 1) (c : ClusterEnc) (hw : c.wf v = true)
    (rest : List Nat) :
    (clusterMembers v).run (c.value.ints.flatMap (be 4) ++
      ((c.value.doubles.take (nDoubles v)).flatMap (be 8) ++ (c.value.clusterFlag.flatMap (be 4) ++
        (c.value.stripID.flatMap (be 4) ++ rest)))) = some ((c.value, v), rest) := by
  obtain ⟨_, _, _, _, _, _, hi, hib, hd, hdb, hc, hcb, hs, hsb⟩ := ClusterEnc.wf_iff v c hw
  obtain ⟨hdr, cv, tv, uid, bits, pidf, ⟨ints, doubles, cf, st⟩⟩ := c
  simp only at hi hib hd hdb hc hcb hs hsb ⊢
  rcases hv with rfl | rfl
  · obtain ⟨a, b, c, d, e, rfl⟩ := list_len5 doubles hd
    have key := clusterMembers_words 0 ints [a, b] [c] [d, e] cf st rest hi hib rfl
      (fun x hx => hdb x (by simp only [List.mem_cons, List.not_mem_nil, or_false] at hx ⊢; omega)) rfl
      (fun x hx => hdb x (by simp only [List.mem_cons, List.not_mem_nil, or_false] at hx ⊢; omega)) rfl
      (fun x hx => hdb x (by simp only [List.mem_cons, List.not_mem_nil, or_false] at hx ⊢; omega))
      hc hcb hs hsb
    have e5 : List.take (nDoubles 0) [a, b, c, d, e] = [a, b] ++ ([c] ++ [d, e]) := rfl
    rw [e5, List.flatMap_append, List.flatMap_append, List.append_assoc, List.append_assoc]
    exact key
  · obtain ⟨a, b, c, d, rfl⟩ := list_len4 doubles hd
    have key := clusterMembers_words 1 ints [a, b] [] [c, d] cf st rest hi hib rfl
      (fun x hx => hdb x (by simp only [List.mem_cons, List.not_mem_nil, or_false] at hx ⊢; omega)) rfl
      (fun x hx => absurd hx List.not_mem_nil) rfl
      (fun x hx => hdb x (by simp only [List.mem_cons, List.not_mem_nil, or_false] at hx ⊢; omega))
      hc hcb hs hsb
    have e4 : List.take (nDoubles 1) [a, b, c, d] = [a, b] ++ ([] ++ [c, d]) := rfl
    rw [e4, List.flatMap_append, List.flatMap_append, List.append_assoc, List.append_assoc]
    exact key

theorem readCluster_enc (v : Nat) (hv : v = 0 ∨ v = 1) (c : ClusterEnc) (hw : c.wf v = true)
    (ver : Option Nat) (hver : ver = none ∨ ver = some v) (rest : List Nat) :
    (readCluster ver).run (encCluster v c ++ rest) = some ((c.value, v), rest) := by
  obtain ⟨hh, _, ht, hu, hb, hp, _⟩ := ClusterEnc.wf_iff v c hw
  have hlt := clusterNBytes_lt v c.bits
  have hval : beVal (be 4 (clusterNBytes v c.bits + kByteCountMask)) - kByteCountMask =
      clusterNBytes v c.bits := by
    rw [beVal_be' 4 _ (by rw [pow256_4]; exact mask_lt _ hlt), mask_sub]
  have hd : decideVersion ver
      (beVal (be 4 (clusterNBytes v c.bits + kByteCountMask)) - kByteCountMask) (tobjLen c.bits) = pure v := by
    rw [hval]; exact decideVersion_ok ver v _ _ hv hver rfl
  rw [encCluster_shape v c hw rest,
    readCluster_words ver v (tobjLen c.bits) _ _ _ _ _ (fun r => skipObjHeader_enc c.hdr r hh)
      (be_length' _ _) (beVal_mask _ hlt) (be_length' _ _)
      (fun r => skipTObjectLen_enc c.tVersion c.uid c.bits c.pidf r ht hu hb hp) hd]
  exact clusterMembers_enc v hv c hw rest

/-! ### several clusters -/

theorem readClusters_succ_run (n : Nat) (ver : Option Nat) (bs r r' : List Nat) (c : Cluster) (v' : Nat)
    (cs : List Cluster) (v'' : Option Nat)
    (h1 : (readCluster ver).run bs = some ((c, v'), r))
    (h2 : (readClusters n (some v')).run r = some ((cs, v''), r')) :
    (readClusters (n + 1) ver).run bs = some ((c :: cs, v''), r') := by
  show ((readCluster ver) >>= fun x => (readClusters n (some x.2)) >>= fun y =>
    (pure (x.1 :: y.1, y.2) : P (List Cluster × Option Nat))).run bs = _
  rw [bind_ok _ _ _ _ _ h1, bind_ok _ _ _ _ _ h2]
  rfl

theorem readClusters_enc (v : Nat) (hv : v = 0 ∨ v = 1) (cs : List ClusterEnc)
    (hw : ∀ c ∈ cs, c.wf v = true) (ver : Option Nat) (hver : ver = none ∨ ver = some v)
    (rest : List Nat) :
    (readClusters cs.length ver).run (cs.flatMap (encCluster v) ++ rest) =
      some ((cs.map (·.value), if cs.isEmpty then ver else some v), rest) := by
  induction cs generalizing ver with
  | nil => rfl
  | cons c cs ih =>
    have h1 := readCluster_enc v hv c (hw c List.mem_cons_self) ver hver
      (cs.flatMap (encCluster v) ++ rest)
    have h2 := ih (fun c' hc' => hw c' (List.mem_cons_of_mem _ hc')) (some v) (Or.inr rfl)
    have hite : (if cs.isEmpty then some v else some v) = some v := by split <;> rfl
    rw [hite] at h2
    rw [List.flatMap_cons, List.append_assoc, List.length_cons]
    exact readClusters_succ_run _ _ _ _ _ _ _ _ _ h1 h2

/-! ### one entry -/

theorem readCgemCol_eq (ver : Option Nat) : readCgemCol ver =
    (skipObjHeader >>= fun _ => readNBytes >>= fun _ => skip 2 >>= fun _ => skip 2 >>= fun _ =>
      skip 4 >>= fun _ => skip 4 >>= fun _ => skip 1 >>= fun _ => u32 >>= fun n => skip 4 >>= fun _ =>
        readClusters n ver) := rfl

theorem readCgemCol_words (ver : Option Nat) (hdr w0 s1 s2 s3 s4 s5 wn s6 tail : List Nat)
    (hh : ∀ r, skipObjHeader.run (hdr ++ r) = some ((), r))
    (h0 : w0.length = 4) (hm : beVal w0 &&& kByteCountMask ≠ 0) (h1 : s1.length = 2)
    (h2 : s2.length = 2) (h3 : s3.length = 4) (h4 : s4.length = 4) (h5 : s5.length = 1)
    (hn : wn.length = 4) (h6 : s6.length = 4) :
    (readCgemCol ver).run
      (hdr ++ (w0 ++ (s1 ++ (s2 ++ (s3 ++ (s4 ++ (s5 ++ (wn ++ (s6 ++ tail))))))))) =
      (readClusters (beVal wn) ver).run tail := by
  rw [readCgemCol_eq, bind_ok _ _ _ _ _ (hh _), bind_ok _ _ _ _ _ (readNBytes_words w0 _ h0 hm),
    bind_ok _ _ _ _ _ (skip_append' 2 s1 _ h1), bind_ok _ _ _ _ _ (skip_append' 2 s2 _ h2),
    bind_ok _ _ _ _ _ (skip_append' 4 s3 _ h3), bind_ok _ _ _ _ _ (skip_append' 4 s4 _ h4),
    bind_ok _ _ _ _ _ (skip_append' 1 s5 _ h5), bind_ok _ _ _ _ _ (u32_words wn _ hn),
    bind_ok _ _ _ _ _ (skip_append' 4 s6 _ h6)]

theorem readCgemCol_enc (v : Nat) (hv : v = 0 ∨ v = 1) (e : CgemEntryEnc) (hw : e.wf v = true)
    (ver : Option Nat) (hver : ver = none ∨ ver = some v) (rest : List Nat) :
    (readCgemCol ver).run (encCgemEntry v e ++ rest) =
      some ((e.values, if e.clusters.isEmpty then ver else some v), rest) := by
  obtain ⟨hh, ha, hn, hc⟩ := CgemEntryEnc.wf_iff v e hw
  obtain ⟨hcount, _, _, _, _, _⟩ := ArrHdr.wf_iff e.arr ha
  simp only [encCgemEntry, List.append_assoc]
  rw [readCgemCol_words ver _ _ _ _ _ _ [0] _ _ _ (fun r => skipObjHeader_enc e.hdr r hh)
      (be_length' _ _) (beVal_mask e.arr.count hcount) (be_length' _ _) (be_length' _ _)
      (be_length' _ _) (be_length' _ _) rfl (be_length' _ _) (be_length' _ _),
    beVal_be' 4 e.clusters.length (by rw [pow256_4]; exact hn)]
  exact readClusters_enc v hv e.clusters hc ver hver rest

/-! ### all entries of a basket -/

theorem readCgemEntries_cons (ver : Option Nat) (bs : List Nat) (rest : List (List Nat))
    (cs : List Cluster) (v' : Option Nat) (css : List (List Cluster)) (v'' : Option Nat)
    (h1 : (readCgemCol ver).run bs = some ((cs, v'), []))
    (h2 : readCgemEntries v' rest = some (css, v'')) :
    readCgemEntries ver (bs :: rest) = some (cs :: css, v'') := by
  rw [readCgemEntries, h1]
  simp only [h2]

/-- "no event of the list holds a cluster" -/
def allEmpty (events : List CgemEntryEnc) : Bool := events.all (fun e => e.clusters.isEmpty)

theorem readCgemEntries_enc (v : Nat) (hv : v = 0 ∨ v = 1) (events : List CgemEntryEnc)
    (hw : ∀ e ∈ events, e.wf v = true) (ver : Option Nat) (hver : ver = none ∨ ver = some v) :
    readCgemEntries ver (events.map (encCgemEntry v)) =
      some (events.map (·.values), if allEmpty events then ver else some v) := by
  induction events generalizing ver with
  | nil => rfl
  | cons e es ih =>
    have h1 := readCgemCol_enc v hv e (hw e List.mem_cons_self) ver hver []
    rw [List.append_nil] at h1
    have hver' : (if e.clusters.isEmpty then ver else some v) = none ∨
        (if e.clusters.isEmpty then ver else some v) = some v := by
      split
      · exact hver
      · exact Or.inr rfl
    have h2 := ih (fun e' he' => hw e' (List.mem_cons_of_mem _ he')) _ hver'
    rw [List.map_cons, readCgemEntries_cons _ _ _ _ _ _ _ h1 h2, List.map_cons]
    congr 2
    unfold allEmpty
    rw [List.all_cons]
    cases e.clusters.isEmpty <;> cases (es.all fun e => e.clusters.isEmpty) <;> rfl

/-! ### keys -/

theorem cgemDataKeys_one : cgemDataKeys (some 1) = cgemDataKeys none := rfl

theorem cgemDataKeys_ne : cgemDataKeys none ≠ cgemDataKeys (some 0) := by
  intro h
  have := congrArg List.length h
  exact absurd this (by decide)

theorem allEmpty_false_of_mem (events : List CgemEntryEnc) (e : CgemEntryEnc) (he : e ∈ events)
    (hne : e.clusters ≠ []) : allEmpty events = false := by
  cases h : allEmpty events with
  | false => rfl
  | true =>
    unfold allEmpty at h
    rw [List.all_eq_true] at h
    exact absurd (List.isEmpty_iff.1 (h e he)) hne

theorem cgemBasketKeys_enc (v : Nat) (hv : v = 0 ∨ v = 1) (events : List CgemEntryEnc)
    (hw : ∀ e ∈ events, e.wf v = true) :
    cgemBasketKeys (events.map (encCgemEntry v)) =
      some (cgemDataKeys (if allEmpty events then none else some v)) := by
  unfold cgemBasketKeys cgemBasket
  rw [readCgemEntries_enc v hv events hw none (Or.inl rfl)]
  rfl

theorem cgemDataKeys_ite_one (b : Bool) : cgemDataKeys (if b then none else some 1) = cgemDataKeys none := by
  cases b <;> rfl

theorem ite_allEmpty_false (events : List CgemEntryEnc) (v : Nat) (h : allEmpty events = false) :
    (if allEmpty events then none else some v) = some v := by
  rw [h]; rfl

end Pybes3Verif.Root
