import Pybes3Verif.Model.CgemCol
import Pybes3Verif.Spec.CgemStream
import Pybes3Verif.Proofs.RootLemmas
import Pybes3Verif.Props.C01
/-!
Helper lemmas for the `Bes3CgemClusterColReader` theorems (`Props/C01Cgem.lean`): 64-bit words, `times`
over `flatMap`-encoded member arrays, the cluster parser split into header part / version decision / member
part, byte-count arithmetic of the cluster body, well-formedness unpacked, stepping lemmas for
`readClusters`, `readCgemCol`, `readCgemEntries`.
-/
namespace Pybes3Verif.Root
open Pybes3Verif.Root.Spec

/-! ### words and member arrays -/

theorem pow256_8 : 256 ^ 8 = 18446744073709551616 := rfl

theorem u64_be (v : Nat) (rest : List Nat) (h : v < 18446744073709551616) :
    u64.run (be 8 v ++ rest) = some (v, rest) := by
  unfold u64
  rw [bind_ok _ _ _ _ _ (take_append' 8 _ _ (be_length' 8 v)), pure_run,
    beVal_be' 8 v (by rw [pow256_8]; exact h)]

theorem times_u32_flatMap (n : Nat) (xs rest : List Nat) (hl : xs.length = n)
    (hb : ∀ x ∈ xs, x < 4294967296) :
    (times u32 n).run (xs.flatMap (be 4) ++ rest) = some (xs, rest) := by
  subst hl
  have := times_flatMap u32 (be 4) id xs (fun x hx r => u32_be x r (hb x hx)) rest
  rw [List.map_id] at this
  exact this

theorem times_u64_flatMap (n : Nat) (xs rest : List Nat) (hl : xs.length = n)
    (hb : ∀ x ∈ xs, x < 18446744073709551616) :
    (times u64 n).run (xs.flatMap (be 8) ++ rest) = some (xs, rest) := by
  subst hl
  have := times_flatMap u64 (be 8) id xs (fun x hx r => u64_be x r (hb x hx)) rest
  rw [List.map_id] at this
  exact this

theorem length_flatMap_be (n : Nat) (xs : List Nat) : (xs.flatMap (be n)).length = n * xs.length := by
  induction xs with
  | nil => rfl
  | cons x xs ih =>
    rw [List.flatMap_cons, List.length_append, ih, be_length', List.length_cons, Nat.mul_succ]
    omega

theorem list_len4 {α : Type} (l : List α) (h : l.length = 4) : ∃ a b c d, l = [a, b, c, d] := by
  rcases l with _ | ⟨a, _ | ⟨b, _ | ⟨c, _ | ⟨d, _ | ⟨e, l⟩⟩⟩⟩⟩ <;>
    first
    | exact ⟨_, _, _, _, rfl⟩
    | (simp only [List.length_cons, List.length_nil] at h; omega)

theorem list_len5 {α : Type} (l : List α) (h : l.length = 5) : ∃ a b c d e, l = [a, b, c, d, e] := by
  rcases l with _ | ⟨a, _ | ⟨b, _ | ⟨c, _ | ⟨d, _ | ⟨e, _ | ⟨f, l⟩⟩⟩⟩⟩⟩ <;>
    first
    | exact ⟨_, _, _, _, _, rfl⟩
    | (simp only [List.length_cons, List.length_nil] at h; omega)

/-! ### the cluster parser in three parts -/

/-- the version decision of `read`: keep `m_version` if already decided, else decide from the byte count -/
def decideVersion (version : Option Nat) (nb : Nat) : P Nat :=
  match version with
  | some v => pure v
  | none => if nb = 96 then pure 0 else if nb = 88 then pure 1 else fail

/-- the part of `readCluster` after the version decision: TObject and the members -/
def clusterTail (v : Nat) : P (Cluster × Nat) := do
  skipTObject
  let ints ← times u32 5
  let d1 ← times u64 2
  let dy ← (if v = 0 then times u64 1 else pure [])
  let d2 ← times u64 2
  let cf ← times u32 2
  let st ← times u32 4
  pure ({ ints := ints, doubles := d1 ++ dy ++ d2, clusterFlag := cf, stripID := st }, v)

theorem readCluster_eq (ver : Option Nat) : readCluster ver =
    (skipObjHeader >>= fun _ => readNBytes >>= fun nb => skip 2 >>= fun _ =>
      decideVersion ver nb >>= fun v => clusterTail v) := rfl

theorem clusterTail_eq (v : Nat) : clusterTail v =
    (skipTObject >>= fun _ => times u32 5 >>= fun ints => times u64 2 >>= fun d1 =>
      (if v = 0 then times u64 1 else pure []) >>= fun dy => times u64 2 >>= fun d2 =>
        times u32 2 >>= fun cf => times u32 4 >>= fun st =>
          pure ({ ints := ints, doubles := d1 ++ dy ++ d2, clusterFlag := cf, stripID := st }, v)) := rfl

theorem decideVersion_ok (ver : Option Nat) (v nb : Nat) (hver : ver = none ∨ ver = some v)
    (hnb : (v = 0 ∧ nb = 96) ∨ (v = 1 ∧ nb = 88)) : decideVersion ver nb = pure v := by
  rcases hver with rfl | rfl
  · rcases hnb with ⟨rfl, rfl⟩ | ⟨rfl, rfl⟩
    · rfl
    · rfl
  · rfl

/-- header part: object header, byte-count word, class-version word (abstract words) -/
theorem readCluster_words (ver : Option Nat) (v : Nat) (hdr w s tail : List Nat)
    (hh : skipObjHeader.run (hdr ++ (w ++ (s ++ tail))) = some ((), w ++ (s ++ tail)))
    (hw : w.length = 4) (hm : beVal w &&& kByteCountMask ≠ 0) (hs : s.length = 2)
    (hd : decideVersion ver (beVal w - kByteCountMask) = pure v) :
    (readCluster ver).run (hdr ++ (w ++ (s ++ tail))) = (clusterTail v).run tail := by
  rw [readCluster_eq, bind_ok _ _ _ _ _ hh, bind_ok _ _ _ _ _ (readNBytes_words w _ hw hm),
    bind_ok _ _ _ _ _ (skip_append' 2 s _ hs), hd]
  rfl

/-- member part, for abstract TObject bytes and member arrays split as the reader splits them -/
theorem clusterTail_words (v : Nat) (T ints d1 dy d2 cf st rest : List Nat)
    (hT : ∀ r, skipTObject.run (T ++ r) = some ((), r))
    (hi : ints.length = 5) (hib : ∀ x ∈ ints, x < 4294967296)
    (h1 : d1.length = 2) (h1b : ∀ x ∈ d1, x < 18446744073709551616)
    (hy : dy.length = if v = 0 then 1 else 0) (hyb : ∀ x ∈ dy, x < 18446744073709551616)
    (h2 : d2.length = 2) (h2b : ∀ x ∈ d2, x < 18446744073709551616)
    (hc : cf.length = 2) (hcb : ∀ x ∈ cf, x < 4294967296)
    (hs : st.length = 4) (hsb : ∀ x ∈ st, x < 4294967296) :
    (clusterTail v).run (T ++ (ints.flatMap (be 4) ++ (d1.flatMap (be 8) ++ (dy.flatMap (be 8) ++
      (d2.flatMap (be 8) ++ (cf.flatMap (be 4) ++ (st.flatMap (be 4) ++ rest))))))) =
      some (({ ints := ints, doubles := d1 ++ dy ++ d2, clusterFlag := cf, stripID := st }, v), rest) := by
  have hdy : ∀ r, (if v = 0 then times u64 1 else pure []).run (dy.flatMap (be 8) ++ r) = some (dy, r) := by
    intro r
    by_cases h0 : v = 0
    · rw [if_pos h0] at hy ⊢
      exact times_u64_flatMap 1 dy r hy hyb
    · rw [if_neg h0] at hy ⊢
      have : dy = [] := List.eq_nil_of_length_eq_zero hy
      subst this
      rfl
  rw [clusterTail_eq, bind_ok _ _ _ _ _ (hT _),
    bind_ok _ _ _ _ _ (times_u32_flatMap 5 ints _ hi hib),
    bind_ok _ _ _ _ _ (times_u64_flatMap 2 d1 _ h1 h1b),
    bind_ok _ _ _ _ _ (hdy _),
    bind_ok _ _ _ _ _ (times_u64_flatMap 2 d2 _ h2 h2b),
    bind_ok _ _ _ _ _ (times_u32_flatMap 2 cf _ hc hcb),
    bind_ok _ _ _ _ _ (times_u32_flatMap 4 st _ hs hsb), pure_run]

/-! ### well-formedness unpacked -/

theorem ClusterEnc.wf_iff (v : Nat) (c : ClusterEnc) (hw : c.wf v = true) :
    c.hdr.wf = true ∧ c.clsVersion < 65536 ∧ c.tVersion < 65536 ∧ c.uid < 4294967296 ∧
      c.bits < 4294967296 ∧ c.pidf < 65536 ∧ c.bits &&& kIsReferenced = 0 ∧
      c.value.ints.length = 5 ∧ (∀ x ∈ c.value.ints, x < 4294967296) ∧
      c.value.doubles.length = nDoubles v ∧ (∀ x ∈ c.value.doubles, x < 18446744073709551616) ∧
      c.value.clusterFlag.length = 2 ∧ (∀ x ∈ c.value.clusterFlag, x < 4294967296) ∧
      c.value.stripID.length = 4 ∧ (∀ x ∈ c.value.stripID, x < 4294967296) := by
  simp only [ClusterEnc.wf, Bool.and_eq_true, decide_eq_true_eq, List.all_eq_true] at hw
  obtain ⟨⟨⟨⟨⟨⟨⟨⟨⟨⟨⟨⟨⟨⟨h1, h2⟩, h3⟩, h4⟩, h5⟩, h6⟩, h7⟩, h8⟩, h9⟩, h10⟩, h11⟩, h12⟩, h13⟩, h14⟩, h15⟩ := hw
  exact ⟨h1, h2, h3, h4, h5, h6, h7, h8, h9, h10, h11, h12, h13, h14, h15⟩

theorem CgemEntryEnc.wf_iff (v : Nat) (e : CgemEntryEnc) (hw : e.wf v = true) :
    e.hdr.wf = true ∧ e.arr.wf = true ∧ e.clusters.length < 4294967296 ∧
      ∀ c ∈ e.clusters, c.wf v = true := by
  simp only [CgemEntryEnc.wf, Bool.and_eq_true, decide_eq_true_eq, List.all_eq_true] at hw
  exact ⟨hw.1.1.1, hw.1.1.2, hw.1.2, hw.2⟩

/-! ### byte count of the cluster body -/

/-- the byte count the class layout dictates when the TObject is not referenced -/
def clusterNBytes (v : Nat) : Nat := if v = 0 then 96 else 88

theorem clusterNBytes_lt (v : Nat) : clusterNBytes v < kByteCountMask := by
  unfold clusterNBytes
  split <;> decide

theorem encTObject_unref (version uid bits pidf : Nat) (h : bits &&& kIsReferenced = 0) :
    encTObject version uid bits pidf = be 2 version ++ be 4 uid ++ be 4 bits := by
  unfold encTObject
  rw [if_neg (fun hn => hn h), List.append_nil]

theorem encClusterBody_length (v : Nat) (c : ClusterEnc) (hw : c.wf v = true) :
    (encClusterBody v c).length = clusterNBytes v := by
  obtain ⟨_, _, _, _, _, _, hnr, hi, _, hd, _, hc, _, hs, _⟩ := ClusterEnc.wf_iff v c hw
  unfold encClusterBody
  rw [encTObject_unref _ _ _ _ hnr]
  simp only [List.length_append, be_length', length_flatMap_be, List.length_take, hi, hd, hc, hs,
    Nat.min_self]
  unfold clusterNBytes nDoubles
  split <;> rfl

/-! ### one cluster -/

theorem clusterTail_enc (v : Nat) (hv : v = 0 ∨ v = 1) (c : ClusterEnc) (hw : c.wf v = true)
    (rest : List Nat) :
    (clusterTail v).run (encTObject c.tVersion c.uid c.bits c.pidf ++ (c.value.ints.flatMap (be 4) ++
      ((c.value.doubles.take (nDoubles v)).flatMap (be 8) ++ (c.value.clusterFlag.flatMap (be 4) ++
        (c.value.stripID.flatMap (be 4) ++ rest))))) = some ((c.value, v), rest) := by
  obtain ⟨_, _, ht, hu, hb, hp, _, hi, hib, hd, hdb, hc, hcb, hs, hsb⟩ := ClusterEnc.wf_iff v c hw
  obtain ⟨hdr, cv, tv, uid, bits, pidf, ⟨ints, doubles, cf, st⟩⟩ := c
  simp only at ht hu hb hp hi hib hd hdb hc hcb hs hsb ⊢
  have hT : ∀ r, skipTObject.run (encTObject tv uid bits pidf ++ r) = some ((), r) :=
    fun r => skipTObject_enc tv uid bits pidf r ht hu hb hp
  rcases hv with rfl | rfl
  · obtain ⟨a, b, c, d, e, rfl⟩ := list_len5 doubles hd
    have key := clusterTail_words 0 _ ints [a, b] [c] [d, e] cf st rest hT hi hib rfl
      (fun x hx => hdb x (by simp only [List.mem_cons, List.not_mem_nil, or_false] at hx ⊢; omega)) rfl
      (fun x hx => hdb x (by simp only [List.mem_cons, List.not_mem_nil, or_false] at hx ⊢; omega)) rfl
      (fun x hx => hdb x (by simp only [List.mem_cons, List.not_mem_nil, or_false] at hx ⊢; omega))
      hc hcb hs hsb
    have e5 : List.take (nDoubles 0) [a, b, c, d, e] = [a, b] ++ ([c] ++ [d, e]) := rfl
    rw [e5, List.flatMap_append, List.flatMap_append, List.append_assoc, List.append_assoc]
    exact key
  · obtain ⟨a, b, c, d, rfl⟩ := list_len4 doubles hd
    have key := clusterTail_words 1 _ ints [a, b] [] [c, d] cf st rest hT hi hib rfl
      (fun x hx => hdb x (by simp only [List.mem_cons, List.not_mem_nil, or_false] at hx ⊢; omega)) rfl
      (fun x hx => absurd hx List.not_mem_nil) rfl
      (fun x hx => hdb x (by simp only [List.mem_cons, List.not_mem_nil, or_false] at hx ⊢; omega))
      hc hcb hs hsb
    have e4 : List.take (nDoubles 1) [a, b, c, d] = [a, b] ++ ([] ++ [c, d]) := rfl
    rw [e4, List.flatMap_append, List.flatMap_append, List.append_assoc, List.append_assoc]
    exact key

theorem readCluster_enc (v : Nat) (hv : v = 0 ∨ v = 1) (c : ClusterEnc) (hw : c.wf v = true)
    (ver : Option Nat) (hver : ver = none ∨ ver = some v) (rest : List Nat) :
    (readCluster ver).run (encCluster v c ++ rest) = some ((c.value, v), rest) := by
  have hh := (ClusterEnc.wf_iff v c hw).1
  have hL := encClusterBody_length v c hw
  have hlt := clusterNBytes_lt v
  have hval : beVal (be 4 (clusterNBytes v + kByteCountMask)) - kByteCountMask = clusterNBytes v := by
    rw [beVal_be' 4 _ (by rw [pow256_4]; exact mask_lt _ hlt), mask_sub]
  have hnb : (v = 0 ∧ clusterNBytes v = 96) ∨ (v = 1 ∧ clusterNBytes v = 88) := by
    rcases hv with rfl | rfl
    · exact Or.inl ⟨rfl, rfl⟩
    · exact Or.inr ⟨rfl, rfl⟩
  unfold encCluster
  rw [hL]
  simp only [encClusterBody, List.append_assoc]
  rw [readCluster_words ver v _ _ _ _ (skipObjHeader_enc c.hdr _ hh) (be_length' _ _)
    (beVal_mask _ hlt) (be_length' _ _) (by rw [hval]; exact decideVersion_ok ver v _ hver hnb)]
  exact clusterTail_enc v hv c hw rest

/-! ### several clusters -/

theorem readClusters_succ_run (n : Nat) (ver : Option Nat) (bs r r' : List Nat) (c : Cluster) (v' : Nat)
    (cs : List Cluster) (v'' : Option Nat)
    (h1 : (readCluster ver).run bs = some ((c, v'), r))
    (h2 : (readClusters n (some v')).run r = some ((cs, v''), r')) :
    (readClusters (n + 1) ver).run bs = some ((c :: cs, v''), r') := by
  show ((readCluster ver) >>= fun x => (readClusters n (some x.2)) >>= fun y =>
    (pure (x.1 :: y.1, y.2) : P (List Cluster × Option Nat))).run bs = _
  rw [bind_ok _ _ _ _ _ h1, bind_ok _ _ _ _ _ h2]
  rfl

theorem readClusters_enc (v : Nat) (hv : v = 0 ∨ v = 1) (cs : List ClusterEnc)
    (hw : ∀ c ∈ cs, c.wf v = true) (ver : Option Nat) (hver : ver = none ∨ ver = some v)
    (rest : List Nat) :
    (readClusters cs.length ver).run (cs.flatMap (encCluster v) ++ rest) =
      some ((cs.map (·.value), if cs.isEmpty then ver else some v), rest) := by
  induction cs generalizing ver with
  | nil => rfl
  | cons c cs ih =>
    have h1 := readCluster_enc v hv c (hw c List.mem_cons_self) ver hver
      (cs.flatMap (encCluster v) ++ rest)
    have h2 := ih (fun c' hc' => hw c' (List.mem_cons_of_mem _ hc')) (some v) (Or.inr rfl)
    have hite : (if cs.isEmpty then some v else some v) = some v := by split <;> rfl
    rw [hite] at h2
    rw [List.flatMap_cons, List.append_assoc, List.length_cons]
    exact readClusters_succ_run _ _ _ _ _ _ _ _ _ h1 h2

/-! ### one entry -/

theorem readCgemCol_eq (ver : Option Nat) : readCgemCol ver =
    (skipObjHeader >>= fun _ => readNBytes >>= fun _ => skip 2 >>= fun _ => skip 2 >>= fun _ =>
      skip 4 >>= fun _ => skip 4 >>= fun _ => skip 1 >>= fun _ => u32 >>= fun n => skip 4 >>= fun _ =>
        readClusters n ver) := rfl

theorem readCgemCol_words (ver : Option Nat) (hdr w0 s1 s2 s3 s4 s5 wn s6 tail : List Nat)
    (hh : ∀ r, skipObjHeader.run (hdr ++ r) = some ((), r))
    (h0 : w0.length = 4) (hm : beVal w0 &&& kByteCountMask ≠ 0) (h1 : s1.length = 2)
    (h2 : s2.length = 2) (h3 : s3.length = 4) (h4 : s4.length = 4) (h5 : s5.length = 1)
    (hn : wn.length = 4) (h6 : s6.length = 4) :
    (readCgemCol ver).run
      (hdr ++ (w0 ++ (s1 ++ (s2 ++ (s3 ++ (s4 ++ (s5 ++ (wn ++ (s6 ++ tail))))))))) =
      (readClusters (beVal wn) ver).run tail := by
  rw [readCgemCol_eq, bind_ok _ _ _ _ _ (hh _), bind_ok _ _ _ _ _ (readNBytes_words w0 _ h0 hm),
    bind_ok _ _ _ _ _ (skip_append' 2 s1 _ h1), bind_ok _ _ _ _ _ (skip_append' 2 s2 _ h2),
    bind_ok _ _ _ _ _ (skip_append' 4 s3 _ h3), bind_ok _ _ _ _ _ (skip_append' 4 s4 _ h4),
    bind_ok _ _ _ _ _ (skip_append' 1 s5 _ h5), bind_ok _ _ _ _ _ (u32_words wn _ hn),
    bind_ok _ _ _ _ _ (skip_append' 4 s6 _ h6)]

theorem readCgemCol_enc (v : Nat) (hv : v = 0 ∨ v = 1) (e : CgemEntryEnc) (hw : e.wf v = true)
    (ver : Option Nat) (hver : ver = none ∨ ver = some v) (rest : List Nat) :
    (readCgemCol ver).run (encCgemEntry v e ++ rest) =
      some ((e.values, if e.clusters.isEmpty then ver else some v), rest) := by
  obtain ⟨hh, ha, hn, hc⟩ := CgemEntryEnc.wf_iff v e hw
  obtain ⟨hcount, _, _, _, _, _⟩ := ArrHdr.wf_iff e.arr ha
  simp only [encCgemEntry, List.append_assoc]
  rw [readCgemCol_words ver _ _ _ _ _ _ [0] _ _ _ (fun r => skipObjHeader_enc e.hdr r hh)
      (be_length' _ _) (beVal_mask e.arr.count hcount) (be_length' _ _) (be_length' _ _)
      (be_length' _ _) (be_length' _ _) rfl (be_length' _ _) (be_length' _ _),
    beVal_be' 4 e.clusters.length (by rw [pow256_4]; exact hn)]
  exact readClusters_enc v hv e.clusters hc ver hver rest

/-! ### all entries of a basket -/

theorem readCgemEntries_cons (ver : Option Nat) (bs : List Nat) (rest : List (List Nat))
    (cs : List Cluster) (v' : Option Nat) (css : List (List Cluster)) (v'' : Option Nat)
    (h1 : (readCgemCol ver).run bs = some ((cs, v'), []))
    (h2 : readCgemEntries v' rest = some (css, v'')) :
    readCgemEntries ver (bs :: rest) = some (cs :: css, v'') := by
  rw [readCgemEntries, h1]
  simp only [h2]

/-- "no event of the list holds a cluster" -/
def allEmpty (events : List CgemEntryEnc) : Bool := events.all (fun e => e.clusters.isEmpty)

theorem readCgemEntries_enc (v : Nat) (hv : v = 0 ∨ v = 1) (events : List CgemEntryEnc)
    (hw : ∀ e ∈ events, e.wf v = true) (ver : Option Nat) (hver : ver = none ∨ ver = some v) :
    readCgemEntries ver (events.map (encCgemEntry v)) =
      some (events.map (·.values), if allEmpty events then ver else some v) := by
  induction events generalizing ver with
  | nil => rfl
  | cons e es ih =>
    have h1 := readCgemCol_enc v hv e (hw e List.mem_cons_self) ver hver []
    rw [List.append_nil] at h1
    have hver' : (if e.clusters.isEmpty then ver else some v) = none ∨
        (if e.clusters.isEmpty then ver else some v) = some v := by
      split
      · exact hver
      · exact Or.inr rfl
    have h2 := ih (fun e' he' => hw e' (List.mem_cons_of_mem _ he')) _ hver'
    rw [List.map_cons, readCgemEntries_cons _ _ _ _ _ _ _ h1 h2, List.map_cons]
    congr 2
    unfold allEmpty
    rw [List.all_cons]
    cases e.clusters.isEmpty <;> cases (es.all fun e => e.clusters.isEmpty) <;> rfl

/-! ### keys -/

theorem cgemDataKeys_one : cgemDataKeys (some 1) = cgemDataKeys none := rfl

theorem cgemDataKeys_ne : cgemDataKeys none ≠ cgemDataKeys (some 0) := by
  intro h
  have := congrArg List.length h
  exact absurd this (by decide)

theorem allEmpty_false_of_mem (events : List CgemEntryEnc) (e : CgemEntryEnc) (he : e ∈ events)
    (hne : e.clusters ≠ []) : allEmpty events = false := by
  cases h : allEmpty events with
  | false => rfl
  | true =>
    unfold allEmpty at h
    rw [List.all_eq_true] at h
    exact absurd (List.isEmpty_iff.1 (h e he)) hne

end Pybes3Verif.Root
