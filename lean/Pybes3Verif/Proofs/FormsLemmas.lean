import Pybes3Verif.Model.Forms
import Pybes3Verif.Proofs.RootLemmas
/-!
Helper lemmas for C18 (forms mirror contents): `mapCol.mapFields` as a `List.map`, naturality of
`dictSet`, of the `TRawData` lifting fold and of the `processDigi` fold step with respect to mapping
the values / leaves.
-/
namespace Pybes3Verif.Forms
open Pybes3Verif.Root

/-- the field-wise map used by `mapCol.mapFields` -/
def mapField {α β : Type} (f : α → β) (x : String × Col α) : String × Col β := (x.1, mapCol f x.2)

theorem mapFields_nil {α β : Type} (f : α → β) : mapCol.mapFields f ([] : List (String × Col α)) = [] := by
  simp only [mapCol.mapFields]

theorem mapFields_cons {α β : Type} (f : α → β) (x : String × Col α) (rest : List (String × Col α)) :
    mapCol.mapFields f (x :: rest) = mapField f x :: mapCol.mapFields f rest := by
  obtain ⟨n, c⟩ := x
  simp only [mapCol.mapFields, mapField]

theorem mapFields_eq_map {α β : Type} (f : α → β) (fs : List (String × Col α)) :
    mapCol.mapFields f fs = fs.map (mapField f) := by
  induction fs with
  | nil => rw [mapFields_nil, List.map_nil]
  | cons x rest ih => rw [mapFields_cons, ih, List.map_cons]

theorem mapCol_leaf {α β : Type} (f : α → β) (d : α) : mapCol f (Col.leaf d) = Col.leaf (f d) := by
  simp only [mapCol]

theorem mapCol_record {α β : Type} (f : α → β) (fs : List (String × Col α)) :
    mapCol f (Col.record fs) = Col.record (fs.map (mapField f)) := by
  rw [← mapFields_eq_map]; simp only [mapCol]

/-- naturality of the dict update, for an arbitrary value map -/
theorem dictSet_map' {α β : Type} (g : α → β) (d : List (String × α)) (k : String) (v : α) :
    (dictSet d k v).map (fun x => (x.1, g x.2)) = dictSet (d.map (fun x => (x.1, g x.2))) k (g v) := by
  unfold dictSet
  have hany : (d.map (fun x => (x.1, g x.2))).any (fun x => x.1 == k) = d.any (fun x => x.1 == k) := by
    rw [List.any_map]; rfl
  rw [hany]
  by_cases h : d.any (fun x => x.1 == k) = true
  · rw [if_pos h, if_pos h, List.map_map, List.map_map]
    apply List.map_congr_left
    intro x _
    show (fun x : String × α => (x.1, g x.2)) (if x.1 == k then (k, v) else x) =
      (if x.1 == k then (k, g v) else (x.1, g x.2))
    by_cases hx : (x.1 == k) = true
    · rw [if_pos hx, if_pos hx]
    · rw [if_neg hx, if_neg hx]
  · rw [if_neg h, if_neg h, List.map_append, List.map_cons, List.map_nil]

theorem dictSet_mapField {α β : Type} (f : α → β) (d : List (String × Col α)) (k : String) (c : Col α) :
    (dictSet d k c).map (mapField f) = dictSet (d.map (mapField f)) k (mapCol f c) :=
  dictSet_map' (mapCol f) d k c

/-- the lifting fold (`for raw_f in arr["TRawData"].fields: fields[raw_f] = …`) commutes with the leaf map -/
theorem foldl_dictSet_mapField {α β : Type} (f : α → β) (sub acc : List (String × Col α)) :
    (sub.foldl (fun a nc => dictSet a nc.1 nc.2) acc).map (mapField f) =
      (sub.map (mapField f)).foldl (fun a nc => dictSet a nc.1 nc.2) (acc.map (mapField f)) := by
  induction sub generalizing acc with
  | nil => rfl
  | cons x sub ih =>
    rw [List.foldl_cons, ih, dictSet_mapField, List.map_cons, List.foldl_cons]
    rfl

/-- the `processDigi` fold step commutes with the leaf map -/
theorem digiStep_mapField {α β : Type} (f : α → β) (acc : List (String × Col α)) (x : String × Col α) :
    (digiStep acc x).map (mapField f) = digiStep (acc.map (mapField f)) (mapField f x) := by
  obtain ⟨name, col⟩ := x
  by_cases h : (name == "TRawData") = true
  · cases col with
    | leaf d =>
      unfold digiStep mapField
      simp only [if_pos h, mapCol_leaf]
    | record sub =>
      unfold digiStep
      simp only [mapField, if_pos h, mapCol_record]
      exact foldl_dictSet_mapField f sub acc
  · have e1 : digiStep acc (name, col) = dictSet acc name col := by
      unfold digiStep; exact if_neg h
    have e2 : digiStep (acc.map (mapField f)) (mapField f (name, col)) =
        dictSet (acc.map (mapField f)) name (mapCol f col) := by
      unfold digiStep; exact if_neg h
    rw [e1, e2]
    exact dictSet_mapField f acc name col

theorem foldl_digiStep_mapField {α β : Type} (f : α → β) (l acc : List (String × Col α)) :
    (l.foldl digiStep acc).map (mapField f) = (l.map (mapField f)).foldl digiStep (acc.map (mapField f)) := by
  induction l generalizing acc with
  | nil => rfl
  | cons x l ih => rw [List.foldl_cons, ih, digiStep_mapField, List.map_cons, List.foldl_cons]

theorem processDigi_mapFields {α β : Type} (f : α → β) (fields : List (String × Col α)) :
    processDigi (mapCol.mapFields f fields) = mapCol.mapFields f (processDigi fields) := by
  rw [mapFields_eq_map, mapFields_eq_map, processDigi_eq, processDigi_eq, foldl_digiStep_mapField]
  rfl

end Pybes3Verif.Forms
