import Pybes3Verif.Proofs.C08EmcDefs
namespace Pybes3Verif.C08E
open Pybes3Verif.Util Pybes3Verif.Gen Pybes3Verif.Gen.Emc Pybes3Verif.Gen.EmcTables Pybes3Verif.Gen.DigiId

theorem emcDense_b : ∀ g, g < nCrystals → emcDenseOk g = true :=
  forall_lt_of_allBlock emcDenseOk nCrystals 13 (by decide +kernel) (by decide)
theorem emcOrder_b : ∀ g, g < nCrystals - 1 → emcOrderOk g = true :=
  forall_lt_of_allBlock emcOrderOk (nCrystals - 1) 13 (by decide +kernel) (by decide)

end Pybes3Verif.C08E
