import Pybes3Verif.Proofs.C10Defs
namespace Pybes3Verif.C10
open Pybes3Verif.Util Pybes3Verif.Gen Pybes3Verif.Gen.Reid Pybes3Verif.Gen.DigiId

theorem mucFields_b : ∀ i, i < 2048 → mucFieldsOk i = true :=
  forall_lt_of_allBlock mucFieldsOk 2048 11 (by decide +kernel) (by decide)

end Pybes3Verif.C10
