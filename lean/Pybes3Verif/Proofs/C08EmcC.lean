import Pybes3Verif.Proofs.C08EmcDefs
namespace Pybes3Verif.C08E
open Pybes3Verif.Util Pybes3Verif.Gen Pybes3Verif.Gen.Emc Pybes3Verif.Gen.EmcTables Pybes3Verif.Gen.DigiId

theorem emcTriple_b : ∀ i, i < 32768 → emcTripleOk i = true :=
  forall_lt_of_allBlock emcTripleOk 32768 15 (by decide +kernel) (by decide)
theorem emcRings : ringRowsOk 0 DocGid.emcEndcap0 = true ∧ ringRowsOk 2 DocGid.emcEndcap1 = true ∧
    get_emc_gid (B 1) (B 0) (B 0) = B 480 ∧ get_emc_gid (B 1) (B 43) (B 119) = B 5759 ∧
    DocGid.emcParts = [(0, 479), (480, 5759), (5760, 6239)] ∧
    (DocGid.emcEndcap0.map (fun r => r.2.2.1)).sum + 44 * 120 + (DocGid.emcEndcap1.map (fun r => r.2.2.1)).sum = nCrystals ∧
    npz_gid_len = nCrystals ∧ npz_part_len = nCrystals ∧ npz_theta_len = nCrystals ∧ npz_phi_len = nCrystals := by
  decide +kernel

end Pybes3Verif.C08E
