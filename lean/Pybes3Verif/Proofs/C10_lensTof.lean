import Pybes3Verif.Proofs.C10Defs
namespace Pybes3Verif.C10
open Pybes3Verif.Util Pybes3Verif.Gen Pybes3Verif.Gen.Reid Pybes3Verif.Gen.DigiId

theorem lensTof : tbl_tof_len = 16384 ∧ tbl_tof_nchunks = 256 ∧ ref_tof_nchunks = 256 ∧ sorted_tof_len = 450 := by decide

end Pybes3Verif.C10
