import Pybes3Verif.Proofs.C09Defs
namespace Pybes3Verif.C09
open Pybes3Verif.Util Pybes3Verif.IEEE Pybes3Verif.Gen
open Pybes3Verif.Gen.Emc Pybes3Verif.Gen.EmcTables

def chunkEqE_points_y (j : Nat) : Bool := mod__points_y_chunk j == npz_points_y_chunk j
theorem chunksE_points_y : ∀ j, j < 780 → chunkEqE_points_y j = true :=
  forall_lt_of_allBlock chunkEqE_points_y 780 10 (by decide +kernel) (by decide)

end Pybes3Verif.C09
