import Pybes3Verif.Proofs.C09Defs
namespace Pybes3Verif.C09
open Pybes3Verif.Util Pybes3Verif.IEEE Pybes3Verif.Gen
open Pybes3Verif.Gen.Emc Pybes3Verif.Gen.EmcTables

def chunkEqE_part (j : Nat) : Bool := mod__part_chunk j == npz_part_chunk j
theorem chunksE_part : ∀ j, j < 98 → chunkEqE_part j = true :=
  forall_lt_of_allBlock chunkEqE_part 98 7 (by decide +kernel) (by decide)
def chunkEqE_theta (j : Nat) : Bool := mod__theta_chunk j == npz_theta_chunk j
theorem chunksE_theta : ∀ j, j < 98 → chunkEqE_theta j = true :=
  forall_lt_of_allBlock chunkEqE_theta 98 7 (by decide +kernel) (by decide)
def chunkEqE_phi (j : Nat) : Bool := mod__phi_chunk j == npz_phi_chunk j
theorem chunksE_phi : ∀ j, j < 98 → chunkEqE_phi j = true :=
  forall_lt_of_allBlock chunkEqE_phi 98 7 (by decide +kernel) (by decide)
def chunkEqE_center_x (j : Nat) : Bool := mod__center_x_chunk j == npz_center_x_chunk j
theorem chunksE_center_x : ∀ j, j < 98 → chunkEqE_center_x j = true :=
  forall_lt_of_allBlock chunkEqE_center_x 98 7 (by decide +kernel) (by decide)
def chunkEqE_center_y (j : Nat) : Bool := mod__center_y_chunk j == npz_center_y_chunk j
theorem chunksE_center_y : ∀ j, j < 98 → chunkEqE_center_y j = true :=
  forall_lt_of_allBlock chunkEqE_center_y 98 7 (by decide +kernel) (by decide)
def chunkEqE_center_z (j : Nat) : Bool := mod__center_z_chunk j == npz_center_z_chunk j
theorem chunksE_center_z : ∀ j, j < 98 → chunkEqE_center_z j = true :=
  forall_lt_of_allBlock chunkEqE_center_z 98 7 (by decide +kernel) (by decide)
def chunkEqE_front_center_x (j : Nat) : Bool := mod__front_center_x_chunk j == npz_front_center_x_chunk j
theorem chunksE_front_center_x : ∀ j, j < 98 → chunkEqE_front_center_x j = true :=
  forall_lt_of_allBlock chunkEqE_front_center_x 98 7 (by decide +kernel) (by decide)
def chunkEqE_front_center_y (j : Nat) : Bool := mod__front_center_y_chunk j == npz_front_center_y_chunk j
theorem chunksE_front_center_y : ∀ j, j < 98 → chunkEqE_front_center_y j = true :=
  forall_lt_of_allBlock chunkEqE_front_center_y 98 7 (by decide +kernel) (by decide)
def chunkEqE_front_center_z (j : Nat) : Bool := mod__front_center_z_chunk j == npz_front_center_z_chunk j
theorem chunksE_front_center_z : ∀ j, j < 98 → chunkEqE_front_center_z j = true :=
  forall_lt_of_allBlock chunkEqE_front_center_z 98 7 (by decide +kernel) (by decide)

end Pybes3Verif.C09
