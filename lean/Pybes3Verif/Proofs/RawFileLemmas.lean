import Pybes3Verif.Spec.RawFileFormat
import Pybes3Verif.Proofs.RawNest
/-!
Helper lemmas for `Props/C03File.lean` (part 1): little-endian bytes, `wordAt` / `wordsOf` on an encoded
word section, the header walk `preprocess` and the block walk `blockRanges` on `encFile`.
-/
namespace Pybes3Verif.RawFile
open Pybes3Verif.Raw Pybes3Verif.Raw.Spec Pybes3Verif.RawFile.Spec

/-! ### bytes -/

theorem leBytes_length (w : Nat) : (leBytes w).length = 4 := rfl

theorem wordsToBytes_nil : wordsToBytes [] = [] := rfl

theorem wordsToBytes_cons (w : Nat) (ws : List Nat) : wordsToBytes (w :: ws) = leBytes w ++ wordsToBytes ws := by
  unfold wordsToBytes
  rw [List.flatMap_cons]

theorem wordsToBytes_append (a b : List Nat) : wordsToBytes (a ++ b) = wordsToBytes a ++ wordsToBytes b := by
  unfold wordsToBytes
  rw [List.flatMap_append]

theorem wordsToBytes_length (ws : List Nat) : (wordsToBytes ws).length = 4 * ws.length := by
  induction ws with
  | nil => rfl
  | cons w ws ih =>
    rw [wordsToBytes_cons, List.length_append, leBytes_length, ih, List.length_cons]
    omega

theorem le32_leBytes (w : Nat) (rest : List Nat) (h : w < W) : le32 (leBytes w ++ rest) = w := by
  have e : le32 (leBytes w ++ rest)
      = w % 256 + 256 * (w / 256 % 256 + 256 * (w / 65536 % 256 + 256 * (w / 16777216 % 256 + 256 * 0))) := rfl
  rw [e]
  unfold W at h
  omega

theorem wordsOk_cons (w : Nat) (ws : List Nat) : wordsOk (w :: ws) = true ↔ w < W ∧ wordsOk ws = true := by
  unfold wordsOk
  rw [List.all_cons, Bool.and_eq_true, decide_eq_true_eq]

theorem wordsOk_append (a b : List Nat) : wordsOk (a ++ b) = true ↔ wordsOk a = true ∧ wordsOk b = true := by
  unfold wordsOk
  rw [List.all_append, Bool.and_eq_true]

theorem wordsOk_nil : wordsOk [] = true := rfl

/-- words survive the little-endian byte encoding (general position form) -/
theorem wordAt_words (ws : List Nat) : ∀ (pre rest : List Nat) (i : Nat), i < ws.length → wordsOk ws = true →
    wordAt (pre ++ wordsToBytes ws ++ rest) (pre.length + 4 * i) = ws.getD i 0 := by
  induction ws with
  | nil => intro pre rest i hi; exact absurd hi (Nat.not_lt_zero _)
  | cons w ws ih =>
    intro pre rest i hi hw
    rw [wordsOk_cons] at hw
    cases i with
    | zero =>
      unfold wordAt
      rw [wordsToBytes_cons, List.append_assoc, List.append_assoc, Nat.mul_zero, Nat.add_zero,
        List.drop_left, le32_leBytes _ _ hw.1]
      rfl
    | succ i =>
      have hi' : i < ws.length := by simpa using hi
      have e1 : pre ++ wordsToBytes (w :: ws) ++ rest = (pre ++ leBytes w) ++ wordsToBytes ws ++ rest := by
        rw [wordsToBytes_cons]; simp only [List.append_assoc]
      have e2 : pre.length + 4 * (i + 1) = (pre ++ leBytes w).length + 4 * i := by
        rw [List.length_append, leBytes_length]; omega
      rw [e1, e2, ih _ _ _ hi' hw.2]
      rfl

/-- position form with explicit equations, convenient for rewriting -/
theorem wordAt_mid (file pre ws rest : List Nat) (p i : Nat) (hf : file = pre ++ wordsToBytes ws ++ rest)
    (hp : p = pre.length + 4 * i) (hi : i < ws.length) (hw : wordsOk ws = true) :
    wordAt file p = ws.getD i 0 := by
  rw [hf, hp]; exact wordAt_words ws pre rest i hi hw

theorem wordsOf_mid (file pre ws rest : List Nat) (a b : Nat) (hf : file = pre ++ wordsToBytes ws ++ rest)
    (ha : a = pre.length) (hb : b = pre.length + 4 * ws.length) (hw : wordsOk ws = true) :
    wordsOf file a b = ws := by
  unfold wordsOf
  have hn : (b - a) / 4 = ws.length := by omega
  rw [hn]
  apply List.ext_getElem
  · rw [List.length_map, List.length_range]
  · intro i h1 h2
    rw [List.getElem_map, List.getElem_range, wordAt_mid file pre ws rest _ i hf (by rw [ha]) h2 hw,
      List.getD_eq_getElem?_getD, List.getElem?_eq_getElem h2, Option.getD_some]

/-! ### the block walk -/

theorem blockRanges_succ (file : List Nat) (dataEnd fuel pos : Nat) :
    blockRanges file dataEnd (fuel + 1) pos =
      if dataEnd ≤ pos then (if pos = dataEnd then some [] else none)
      else if wordAt file pos ≠ DATA_SEPERATOR then none
      else match blockRanges file dataEnd fuel (pos + 16 + wordAt file (pos + 12) / 4 * 4) with
        | none => none
        | some rest => some ((pos, pos + 16 + wordAt file (pos + 12) / 4 * 4) :: rest) := rfl

theorem encBlock_length (b : Block) : (encBlock b).length = 4 + (b.events.flatMap encEvent).length := by
  unfold encBlock
  rw [List.length_append]
  rfl

theorem encBlocks_cons (b : Block) (bs : List Block) : encBlocks (b :: bs) = encBlock b ++ encBlocks bs := by
  unfold encBlocks
  rw [List.flatMap_cons]

theorem length_le_encBlocks (bs : List Block) : bs.length ≤ (encBlocks bs).length := by
  induction bs with
  | nil => exact Nat.le_refl _
  | cons b bs ih =>
    rw [encBlocks_cons, List.length_append, encBlock_length, List.length_cons]; omega

/-- the walk over a section of encoded blocks whose size word is the payload size in bytes -/
theorem blockRanges_blocks (file rest : List Nat) (bs : List Block) :
    ∀ (pre : List Nat) (fuel : Nat), bs.length < fuel →
      (∀ b ∈ bs, wordsOk (encBlock b) = true ∧ b.w3 = 4 * (b.events.flatMap encEvent).length) →
      file = pre ++ wordsToBytes (encBlocks bs) ++ rest →
      ∃ rs, blockRanges file (pre.length + 4 * (encBlocks bs).length) fuel pre.length = some rs ∧
        rs.map (fun r => wordsOf file r.1 r.2) = bs.map encBlock := by
  induction bs with
  | nil =>
    intro pre fuel hfuel _ _
    cases fuel with
    | zero => exact absurd hfuel (Nat.not_lt_zero _)
    | succ fuel =>
      refine ⟨[], ?_, rfl⟩
      rw [blockRanges_succ]
      have e : pre.length + 4 * (encBlocks ([] : List Block)).length = pre.length := rfl
      rw [e, if_pos (Nat.le_refl _), if_pos rfl]
  | cons b bs ih =>
    intro pre fuel hfuel hb hf
    cases fuel with
    | zero => exact absurd hfuel (Nat.not_lt_zero _)
    | succ fuel =>
      obtain ⟨hwb, hw3⟩ := hb b List.mem_cons_self
      have hf' : file = (pre ++ wordsToBytes (encBlock b)) ++ wordsToBytes (encBlocks bs) ++ rest := by
        rw [hf, encBlocks_cons, wordsToBytes_append]; simp only [List.append_assoc]
      have hf1 : file = pre ++ wordsToBytes (encBlock b) ++ (wordsToBytes (encBlocks bs) ++ rest) := by
        rw [hf']; simp only [List.append_assoc]
      have hlen := encBlock_length b
      have h0 : wordAt file pre.length = DATA_SEPERATOR :=
        wordAt_mid file pre (encBlock b) _ _ 0 hf1 (by omega) (by omega) hwb
      have h3 : wordAt file (pre.length + 12) = b.w3 :=
        wordAt_mid file pre (encBlock b) _ _ 3 hf1 (by omega) (by omega) hwb
      have hstop : pre.length + 16 + wordAt file (pre.length + 12) / 4 * 4
          = (pre ++ wordsToBytes (encBlock b)).length := by
        rw [h3, hw3, List.length_append, wordsToBytes_length, hlen]; omega
      have hend : pre.length + 4 * (encBlocks (b :: bs)).length
          = (pre ++ wordsToBytes (encBlock b)).length + 4 * (encBlocks bs).length := by
        rw [encBlocks_cons, List.length_append, List.length_append, wordsToBytes_length]; omega
      obtain ⟨rs, hrs, hmap⟩ := ih (pre ++ wordsToBytes (encBlock b)) fuel
        (by simp only [List.length_cons] at hfuel; omega)
        (fun x hx => hb x (List.mem_cons_of_mem _ hx)) hf'
      refine ⟨(pre.length, (pre ++ wordsToBytes (encBlock b)).length) :: rs, ?_, ?_⟩
      · rw [blockRanges_succ, if_neg (by rw [hend, List.length_append, wordsToBytes_length, hlen]; omega),
          if_neg (fun h => h h0), hstop, hend, hrs]
      · rw [List.map_cons, List.map_cons, hmap]
        congr 1
        exact wordsOf_mid file pre (encBlock b) _ _ _ hf1 rfl
          (by rw [List.length_append, wordsToBytes_length]) hwb

/-! ### the header walk -/

theorem padded_ge (n : Nat) : n ≤ padded n := by unfold padded; omega

theorem padText_length (t : List Nat) : (padText t).length = padded t.length := by
  unfold padText
  rw [List.length_append, List.length_replicate]
  have := padded_ge t.length
  omega

theorem preprocess_eq (file : List Nat) (n t : Nat) (h0 : wordAt file 0 = FILE_START)
    (h1 : wordAt file 32 = FILE_NAME) (h2 : wordAt file (32 + 4) = n) (h3 : wordAt file (32 + 8 + padded n) = t)
    (h4 : wordAt file (32 + 8 + padded n + 4 + padded t) = RUN_PARAMS)
    (h5 : wordAt file (file.length - 40) = FILE_TAIL_START)
    (h6 : wordAt file (file.length - 40 + 36) = FILE_END) :
    preprocess file = some { dataStart := 32 + 8 + padded n + 4 + padded t + 36, dataEnd := file.length - 40,
                             entries := wordAt file (file.length - 40 + 16) } := by
  unfold preprocess
  simp only [h0, h1, h2, h3, h4, h5, h6, ne_eq, not_true_eq_false, if_false]

theorem length_eq_eight (l : List Nat) (h : l.length = 8) :
    ∃ a0 a1 a2 a3 a4 a5 a6 a7, l = [a0, a1, a2, a3, a4, a5, a6, a7] := by
  match l, h with
  | [a0, a1, a2, a3, a4, a5, a6, a7], _ => exact ⟨_, _, _, _, _, _, _, _, rfl⟩

theorem FILE_START_lt : FILE_START < W := by decide
theorem FILE_NAME_lt : FILE_NAME < W := by decide
theorem RUN_PARAMS_lt : RUN_PARAMS < W := by decide
theorem FILE_TAIL_START_lt : FILE_TAIL_START < W := by decide
theorem FILE_END_lt : FILE_END < W := by decide
theorem DATA_SEPERATOR_lt : DATA_SEPERATOR < W := by decide

/-- the framing on a file made of the eight sections of `encFile` -/
theorem fileBlocks_sections (file hd pn pt rp tl : List Nat) (n t : Nat) (bs : List Block)
    (hf : file = wordsToBytes (FILE_START :: hd) ++ wordsToBytes [FILE_NAME, n] ++ pn ++ wordsToBytes [t] ++ pt ++
      wordsToBytes (RUN_PARAMS :: rp) ++ wordsToBytes (encBlocks bs) ++
      wordsToBytes (FILE_TAIL_START :: tl ++ [FILE_END]))
    (hhd : hd.length = 7) (hpn : pn.length = padded n) (hpt : pt.length = padded t) (hrp : rp.length = 8)
    (htl : tl.length = 8) (whd : wordsOk hd = true) (wrp : wordsOk rp = true) (wtl : wordsOk tl = true)
    (hn : n < W) (ht : t < W)
    (hbs : ∀ b ∈ bs, wordsOk (encBlock b) = true ∧ b.w3 = 4 * (b.events.flatMap encEvent).length) :
    fileBlocks file = some (bs.map encBlock) := by
  obtain ⟨a0, a1, a2, a3, a4, a5, a6, a7, rfl⟩ := length_eq_eight tl htl
  have hlen : file.length = 32 + 8 + padded n + 4 + padded t + 36 + 4 * (encBlocks bs).length + 40 := by
    rw [hf]
    simp only [List.length_append, wordsToBytes_length, List.length_cons, List.length_nil, hhd, hpn, hpt, hrp]
  have w1 : wordsOk (FILE_START :: hd) = true := (wordsOk_cons _ _).mpr ⟨FILE_START_lt, whd⟩
  have w2 : wordsOk [FILE_NAME, n] = true :=
    (wordsOk_cons _ _).mpr ⟨FILE_NAME_lt, (wordsOk_cons _ _).mpr ⟨hn, wordsOk_nil⟩⟩
  have w4 : wordsOk [t] = true := (wordsOk_cons _ _).mpr ⟨ht, wordsOk_nil⟩
  have w6 : wordsOk (RUN_PARAMS :: rp) = true := (wordsOk_cons _ _).mpr ⟨RUN_PARAMS_lt, wrp⟩
  have w8 : wordsOk (FILE_TAIL_START :: [a0, a1, a2, a3, a4, a5, a6, a7] ++ [FILE_END]) = true :=
    (wordsOk_cons _ _).mpr ⟨FILE_TAIL_START_lt,
      (wordsOk_append _ _).mpr ⟨wtl, (wordsOk_cons _ _).mpr ⟨FILE_END_lt, wordsOk_nil⟩⟩⟩
  have h0 : wordAt file 0 = FILE_START :=
    wordAt_mid file [] (FILE_START :: hd) _ 0 0 (by rw [hf]; simp only [List.append_assoc, List.nil_append]; rfl) rfl
      (by rw [List.length_cons]; omega) w1
  have h1 : wordAt file 32 = FILE_NAME :=
    wordAt_mid file (wordsToBytes (FILE_START :: hd)) [FILE_NAME, n] _ 32 0
      (by rw [hf]; simp only [List.append_assoc]; rfl)
      (by rw [wordsToBytes_length, List.length_cons, hhd]) (by simp only [List.length_cons, List.length_nil]; omega) w2
  have h2 : wordAt file (32 + 4) = n :=
    wordAt_mid file (wordsToBytes (FILE_START :: hd)) [FILE_NAME, n] _ _ 1
      (by rw [hf]; simp only [List.append_assoc]; rfl)
      (by rw [wordsToBytes_length, List.length_cons, hhd]) (by simp only [List.length_cons, List.length_nil]; omega) w2
  have h3 : wordAt file (32 + 8 + padded n) = t :=
    wordAt_mid file (wordsToBytes (FILE_START :: hd) ++ wordsToBytes [FILE_NAME, n] ++ pn) [t] _ _ 0
      (by rw [hf]; simp only [List.append_assoc]; rfl)
      (by simp only [List.length_append, wordsToBytes_length, List.length_cons, List.length_nil, hhd, hpn]; omega)
      (by simp only [List.length_cons, List.length_nil]; omega) w4
  have h4 : wordAt file (32 + 8 + padded n + 4 + padded t) = RUN_PARAMS :=
    wordAt_mid file
      (wordsToBytes (FILE_START :: hd) ++ wordsToBytes [FILE_NAME, n] ++ pn ++ wordsToBytes [t] ++ pt)
      (RUN_PARAMS :: rp) _ _ 0
      (by rw [hf]; simp only [List.append_assoc]; rfl)
      (by simp only [List.length_append, wordsToBytes_length, List.length_cons, List.length_nil, hhd, hpn, hpt]; omega)
      (by rw [List.length_cons]; omega) w6
  have hpre : (wordsToBytes (FILE_START :: hd) ++ wordsToBytes [FILE_NAME, n] ++ pn ++ wordsToBytes [t] ++ pt ++
      wordsToBytes (RUN_PARAMS :: rp)).length = 32 + 8 + padded n + 4 + padded t + 36 := by
    simp only [List.length_append, wordsToBytes_length, List.length_cons, List.length_nil, hhd, hpn, hpt, hrp]
  have h5 : wordAt file (file.length - 40) = FILE_TAIL_START :=
    wordAt_mid file
      (wordsToBytes (FILE_START :: hd) ++ wordsToBytes [FILE_NAME, n] ++ pn ++ wordsToBytes [t] ++ pt ++
        wordsToBytes (RUN_PARAMS :: rp) ++ wordsToBytes (encBlocks bs))
      (FILE_TAIL_START :: [a0, a1, a2, a3, a4, a5, a6, a7] ++ [FILE_END]) [] _ 0
      (by rw [hf]; simp only [List.append_nil])
      (by rw [List.length_append, hpre, wordsToBytes_length, hlen]; omega)
      (by simp only [List.length_append, List.length_cons, List.length_nil]; omega) w8
  have h6 : wordAt file (file.length - 40 + 36) = FILE_END :=
    wordAt_mid file
      (wordsToBytes (FILE_START :: hd) ++ wordsToBytes [FILE_NAME, n] ++ pn ++ wordsToBytes [t] ++ pt ++
        wordsToBytes (RUN_PARAMS :: rp) ++ wordsToBytes (encBlocks bs))
      (FILE_TAIL_START :: [a0, a1, a2, a3, a4, a5, a6, a7] ++ [FILE_END]) [] _ 9
      (by rw [hf]; simp only [List.append_nil])
      (by rw [List.length_append, hpre, wordsToBytes_length, hlen]; omega)
      (by simp only [List.length_append, List.length_cons, List.length_nil]; omega) w8
  obtain ⟨rs, hrs, hmap⟩ := blockRanges_blocks file (wordsToBytes (FILE_TAIL_START :: [a0, a1, a2, a3, a4, a5, a6, a7] ++ [FILE_END])) bs
    (wordsToBytes (FILE_START :: hd) ++ wordsToBytes [FILE_NAME, n] ++ pn ++ wordsToBytes [t] ++ pt ++
        wordsToBytes (RUN_PARAMS :: rp)) (file.length + 1)
    (by
      have := length_le_encBlocks bs
      omega) hbs hf
  rw [hpre] at hrs
  have hend : 32 + 8 + padded n + 4 + padded t + 36 + 4 * (encBlocks bs).length = file.length - 40 := by omega
  rw [hend] at hrs
  unfold fileBlocks
  rw [preprocess_eq file n t h0 h1 h2 h3 h4 h5 h6]
  simp only [hrs, hmap]

/-! ### `encFile` -/

theorem flatMap_onDisk (bs : List Block) :
    bs.flatMap (fun b => [DATA_SEPERATOR, b.w1, b.w2, 4 * (b.events.flatMap encEvent).length] ++ b.events.flatMap encEvent)
      = encBlocks (bs.map blockOnDisk) := by
  unfold encBlocks
  rw [List.flatMap_map]
  rfl

theorem wordsOk_encBlock (b : Block) (h : b.wf = true) : wordsOk (encBlock b) = true := by
  simp only [Block.wf, Bool.and_eq_true, decide_eq_true_eq, List.all_eq_true] at h
  obtain ⟨⟨⟨⟨hev, _⟩, h1⟩, h2⟩, h3⟩ := h
  unfold encBlock
  rw [wordsOk_append]
  refine ⟨(wordsOk_cons _ _).mpr ⟨DATA_SEPERATOR_lt, (wordsOk_cons _ _).mpr ⟨h1, (wordsOk_cons _ _).mpr ⟨h2,
    (wordsOk_cons _ _).mpr ⟨h3, wordsOk_nil⟩⟩⟩⟩, ?_⟩
  unfold wordsOk
  rw [List.all_flatMap, List.all_eq_true]
  intro e he
  exact ((Nest.Event.wf_iff e).mp (hev e he)).2.1

theorem FileSpec.wf_unpack (f : FileSpec) (h : f.wf = true) :
    f.header.length = 7 ∧ f.params.length = 8 ∧ f.tail.length = 8 ∧ wordsOk f.header = true ∧
      wordsOk f.params = true ∧ wordsOk f.tail = true ∧ f.name.length < W ∧ f.tag.length < W ∧
      (∀ b ∈ f.blocks.map blockOnDisk, b.wf = true) := by
  simp only [FileSpec.wf, Bool.and_eq_true, decide_eq_true_eq, List.all_eq_true, beq_iff_eq] at h
  obtain ⟨⟨⟨⟨⟨⟨⟨⟨⟨⟨⟨h1, h2⟩, h3⟩, h4⟩, h5⟩, h6⟩, _⟩, _⟩, h9⟩, h10⟩, h11⟩, _⟩ := h
  exact ⟨h1, h2, h3, h4, h5, h6, h9, h10, h11⟩

theorem fileBlocks_encFile_aux (f : FileSpec) (h : f.wf = true) :
    fileBlocks (encFile f) = some ((f.blocks.map blockOnDisk).map encBlock) := by
  obtain ⟨h1, h2, h3, h4, h5, h6, h9, h10, h11⟩ := FileSpec.wf_unpack f h
  refine fileBlocks_sections (encFile f) f.header (padText f.name) (padText f.tag) f.params f.tail
    f.name.length f.tag.length (f.blocks.map blockOnDisk) ?_ h1 (padText_length _) (padText_length _) h2 h3 h4 h5 h6
    h9 h10 ?_
  · unfold encFile
    rw [flatMap_onDisk]
  · intro b hb
    refine ⟨wordsOk_encBlock b (h11 b hb), ?_⟩
    obtain ⟨b0, _, rfl⟩ := List.mem_map.mp hb
    rfl

end Pybes3Verif.RawFile
