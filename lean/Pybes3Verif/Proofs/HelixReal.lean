import Mathlib.Analysis.SpecialFunctions.Trigonometric.Deriv
import Mathlib.Analysis.SpecialFunctions.Complex.Arg
import Mathlib.Analysis.SpecialFunctions.Sqrt
import Pybes3Verif.Model.Helix
/-!
Real-number instance of the helix model and the trajectory specification (DESIGN.md §5.3, §6 C06).
-/
namespace Pybes3Verif.Helix
open Real

/-- the operations of `Model/Helix.lean` interpreted over ℝ; `atan2 y x = arg (x + i y)`,
Python's float `%` is `a - m ⌊a/m⌋`, comparisons are the (classical) order of ℝ -/
noncomputable def realOps : Ops ℝ where
  add := (· + ·)
  sub := (· - ·)
  mul := (· * ·)
  div := (· / ·)
  neg := fun x => -x
  abs := fun x => |x|
  sqrt := Real.sqrt
  cos := Real.cos
  sin := Real.sin
  atan2 := fun y x => Complex.arg ⟨x, y⟩
  floor := fun x => (⌊x⌋ : ℝ)
  pi := Real.pi
  zero := 0
  one := 1
  two := 2
  alpha := 1000 / 2.99792458
  eps := 1 / 10000000000
  lt := fun a b => decide (a < b)

/-- α₀ = 1000 / 2.99792458 (cm · GeV⁻¹ in a 1 T field) -/
noncomputable def alpha0 : ℝ := 1000 / 2.99792458

/-- signed radius of curvature of the BOSS helix: ρ = −α₀ / κ -/
noncomputable def rho (h : Params ℝ) : ℝ := -alpha0 / h.kappa

/-- BOSS helix trajectory (the specification, written without reference to the code):
x(t) = x₀ + dr cos φ₀ + ρ (cos φ₀ − cos(φ₀ + t)),  y(t) likewise with sin,  z(t) = z₀ + dz − ρ tanλ · t -/
noncomputable def traj (h : Params ℝ) (p : Vec3 ℝ) (t : ℝ) : ℝ × ℝ × ℝ :=
  (p.x + h.dr * cos h.phi0 + rho h * (cos h.phi0 - cos (h.phi0 + t)),
   p.y + h.dr * sin h.phi0 + rho h * (sin h.phi0 - sin (h.phi0 + t)),
   p.z + h.dz - rho h * h.tanl * t)

/-- centre of the trajectory's circle according to the specification -/
noncomputable def specCentre (h : Params ℝ) (p : Vec3 ℝ) : ℝ × ℝ :=
  (p.x + (h.dr + rho h) * cos h.phi0, p.y + (h.dr + rho h) * sin h.phi0)

/-- a helix in normal form: curvature non-zero, phi0 in [0, 2π), and `dr + ρ` on the same side as `ρ`
(the reference point is the point of the circle *closest* to the pivot, not the farthest) -/
structure Valid (h : Params ℝ) : Prop where
  kappa_ne : h.kappa ≠ 0
  phi_lo : 0 ≤ h.phi0
  phi_hi : h.phi0 < 2 * π
  side : 0 < (h.dr + rho h) / rho h

/-- the new pivot is not the centre of the circle -/
def OffCentre (h : Params ℝ) (p p' : Vec3 ℝ) : Prop :=
  (specCentre h p).1 - p'.x ≠ 0 ∨ (specCentre h p).2 - p'.y ≠ 0

end Pybes3Verif.Helix
