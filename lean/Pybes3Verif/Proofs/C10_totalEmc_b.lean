import Pybes3Verif.Proofs.C10Defs
namespace Pybes3Verif.C10
open Pybes3Verif.Util Pybes3Verif.Gen Pybes3Verif.Gen.Reid Pybes3Verif.Gen.DigiId

theorem totalEmc_b : ∀ i, i < 8192 → totalEmc i = true :=
  forall_lt_of_allBlock totalEmc 8192 13 (by decide +kernel) (by decide)

end Pybes3Verif.C10
