import Pybes3Verif.Proofs.C09CentroidDefs
namespace Pybes3Verif.C09
open Pybes3Verif.Util Pybes3Verif.IEEE Pybes3Verif.Gen
open Pybes3Verif.Gen.Emc Pybes3Verif.Gen.EmcTables

theorem centroidZ_b0 : allBlock (centroidOk npz_part_raw npz_points_z_chunk npz_center_z_raw npz_front_center_z_raw) 12 0 = true := by decide +kernel

end Pybes3Verif.C09
