import Pybes3Verif.Spec.RawFormat
/-!
Helper lemmas for `Props/C03a.lean` (Group T, part 1): stepping lemmas for the parser monad `P`,
bit-field packing, the MDC/TOF merge fold and one ROB fragment.
-/
namespace Pybes3Verif.Raw
open Pybes3Verif.Raw.Spec

/-! ### stepping through `P` -/

theorem run_bind {α β : Type} (p : P α) (f : α → P β) (ws : List Nat) :
    (p >>= f).run ws = match p.run ws with
      | .ok a r => (f a).run r | .err e => .err e | .oob => .oob | .fuel => .fuel := rfl

theorem run_pure {α : Type} (a : α) (ws : List Nat) : (pure a : P α).run ws = .ok a ws := rfl

theorem bind_ok {α β : Type} (p : P α) (f : α → P β) (ws : List Nat) (a : α) (ws' : List Nat)
    (h : p.run ws = .ok a ws') : (p >>= f).run ws = (f a).run ws' := by
  rw [run_bind, h]

theorem require_ok (n : Nat) (ws : List Nat) (h : n ≤ ws.length) : (require n).run ws = .ok () ws :=
  if_pos h

theorem read_cons (w : Nat) (ws : List Nat) : read.run (w :: ws) = .ok w ws := by
  show (require 1 >>= fun _ => rawRead).run (w :: ws) = _
  rw [run_bind, require_ok _ _ (by simp only [List.length_cons]; omega)]
  rfl

theorem skip_append (n : Nat) (a rest : List Nat) (h : n = a.length) :
    (skip n).run (a ++ rest) = .ok () rest := by
  subst h
  show (require a.length >>= fun _ => rawSkip a.length).run (a ++ rest) = _
  rw [run_bind]
  rw [require_ok _ _ (by simp only [List.length_append]; omega)]
  show (if a.length ≤ (a ++ rest).length then Res.ok () ((a ++ rest).drop a.length) else _) = _
  rw [if_pos (by simp only [List.length_append]; omega), List.drop_left]

theorem readN_append (n : Nat) (a rest : List Nat) (h : n = a.length) :
    (readN n).run (a ++ rest) = .ok a rest := by
  subst h
  show (require a.length >>= fun _ => rawReadN a.length).run (a ++ rest) = _
  rw [run_bind]
  rw [require_ok _ _ (by simp only [List.length_append]; omega)]
  show (if a.length ≤ (a ++ rest).length then
    Res.ok ((a ++ rest).take a.length) ((a ++ rest).drop a.length) else _) = _
  rw [if_pos (by simp only [List.length_append]; omega), List.drop_left, List.take_left]

theorem read_bind {β : Type} (f : Nat → P β) (w : Nat) (ws : List Nat) :
    (read >>= f).run (w :: ws) = (f w).run ws := bind_ok _ _ _ _ _ (read_cons w ws)

theorem skip_bind {β : Type} (f : Unit → P β) (n : Nat) (a rest : List Nat) (h : n = a.length) :
    (skip n >>= f).run (a ++ rest) = (f ()).run rest := bind_ok _ _ _ _ _ (skip_append n a rest h)

theorem readN_bind {β : Type} (f : List Nat → P β) (n : Nat) (a rest : List Nat) (h : n = a.length) :
    (readN n >>= f).run (a ++ rest) = (f a).run rest := bind_ok _ _ _ _ _ (readN_append n a rest h)

theorem liftErase_some_bind {β : Type} (f : List Nat → P β) (v ws : List Nat) :
    (liftErase (some v) >>= f).run ws = (f v).run ws := bind_ok _ _ _ _ _ rfl

/-! ### `uint32_t` subtraction -/

theorem sub32_cancel (a b : Nat) (h1 : b ≤ a) (h2 : a < W) : sub32 a b = a - b := by
  unfold sub32
  have hb : b % W = b := Nat.mod_eq_of_lt (by omega)
  rw [hb]
  have : a + W - b = (a - b) + W := by omega
  rw [this, Nat.add_mod_right]
  exact Nat.mod_eq_of_lt (by omega)

/-! ### bit fields -/

theorem and_shiftRight (w m k : Nat) : (w &&& m) >>> k = (w >>> k) &&& (m >>> k) :=
  Nat.shiftRight_and_distrib

theorem mdcFields_eq (w : Nat) :
    mdcFields w = ((w / 262144) % 16384, (w / 131072) % 2, w % 65536, (w / 65536) % 2) := by
  unfold mdcFields
  rw [and_shiftRight, and_shiftRight, and_shiftRight]
  have e1 : (0xFFFC0000 : Nat) >>> 18 = 2 ^ 14 - 1 := by decide
  have e2 : (0x20000 : Nat) >>> 17 = 2 ^ 1 - 1 := by decide
  have e3 : (0x10000 : Nat) >>> 16 = 2 ^ 1 - 1 := by decide
  have e4 : (0xFFFF : Nat) = 2 ^ 16 - 1 := by decide
  rw [e1, e2, e3, e4]
  simp only [Nat.and_two_pow_sub_one_eq_mod, Nat.shiftRight_eq_div_pow]

theorem tofFields_eq (w : Nat) :
    tofFields w = ((w / 2097152) % 1024, (w / 1048576) % 2, w % 32768, (w / 524288) % 2) := by
  unfold tofFields
  rw [and_shiftRight, and_shiftRight, and_shiftRight]
  have e1 : (0x7FE00000 : Nat) >>> 21 = 2 ^ 10 - 1 := by decide
  have e2 : (0x100000 : Nat) >>> 20 = 2 ^ 1 - 1 := by decide
  have e3 : (0x80000 : Nat) >>> 19 = 2 ^ 1 - 1 := by decide
  have e4 : (0x7FFF : Nat) = 2 ^ 15 - 1 := by decide
  rw [e1, e2, e3, e4]
  simp only [Nat.and_two_pow_sub_one_eq_mod, Nat.shiftRight_eq_div_pow]

theorem mdcFields_tq_lt (w : Nat) : (mdcFields w).2.1 < 2 := by
  rw [mdcFields_eq]; exact Nat.mod_lt _ (by omega)

theorem tofFields_tq_lt (w : Nat) : (tofFields w).2.1 < 2 := by
  rw [tofFields_eq]; exact Nat.mod_lt _ (by omega)

theorem mdcFields_pack' (id tq ov val : Nat) (h1 : id < 16384) (h2 : tq < 2) (h3 : ov < 2) (h4 : val < 65536) :
    mdcFields (id * 262144 + tq * 131072 + ov * 65536 + val) = (id, tq, val, ov) := by
  rw [mdcFields_eq]
  simp only [Prod.mk.injEq]
  refine ⟨?_, ?_, ?_, ?_⟩ <;> omega

theorem tofFields_pack' (hi id tq ov mid val : Nat) (_h0 : hi < 2) (h1 : id < 1024) (h2 : tq < 2) (h3 : ov < 2)
    (h5 : mid < 16) (h4 : val < 32768) :
    tofFields (hi * 2147483648 + id * 2097152 + tq * 1048576 + ov * 524288 + mid * 32768 + val) = (id, tq, val, ov) := by
  rw [tofFields_eq]
  simp only [Prod.mk.injEq]
  refine ⟨?_, ?_, ?_, ?_⟩ <;> omega

/-! ### the merge fold -/

theorem list_snoc_ind {α : Type} {motive : List α → Prop} (nil : motive [])
    (append_singleton : ∀ l a, motive l → motive (l ++ [a])) : ∀ l, motive l := by
  have h : ∀ l : List α, motive l.reverse := by
    intro l
    induction l with
    | nil => exact nil
    | cons a l ih => rw [List.reverse_cons]; exact append_singleton _ _ ih
  intro l
  have := h l.reverse
  rwa [List.reverse_reverse] at this

section merge
variable (fields : Nat → Nat × Nat × Nat × Nat)

theorem mem_insKey (k id : Nat) (L : List Nat) : k ∈ insKey id L ↔ k = id ∨ k ∈ L := by
  induction L with
  | nil => simp only [insKey, List.mem_singleton, List.not_mem_nil, or_false]
  | cons x xs ih =>
    unfold insKey
    split
    · simp only [List.mem_cons]
    · split
      · rename_i h; subst h; simp only [List.mem_cons, or_self_left]
      · simp only [List.mem_cons, ih, or_left_comm]

/-- `upd` on a sorted association list presented as a `map` over its keys -/
theorem upd_map (g : Nat → Nat × Nat × Nat) (f : Nat × Nat × Nat → Nat × Nat × Nat) (id : Nat) (L : List Nat)
    (hs : L.Pairwise (· < ·)) (h0 : id ∉ L → g id = (0, 0, 0)) :
    upd (L.map (fun k => (k, g k))) id f =
      (insKey id L).map (fun k => (k, if k = id then f (g id) else g k)) := by
  induction L with
  | nil =>
    simp only [List.map_nil, upd, insKey, List.map_cons, if_pos, h0 (List.not_mem_nil)]
  | cons x xs ih =>
    have hx : ∀ y ∈ xs, x < y := (List.pairwise_cons.1 hs).1
    have hxs : xs.Pairwise (· < ·) := (List.pairwise_cons.1 hs).2
    have hmap : ∀ (M : List Nat), (∀ y ∈ M, y ≠ id) →
        M.map (fun k => (k, if k = id then f (g id) else g k)) = M.map (fun k => (k, g k)) := by
      intro M hM
      apply List.map_congr_left
      intro y hy
      rw [if_neg (hM y hy)]
    simp only [List.map_cons, upd, insKey]
    by_cases h1 : id < x
    · have hnot : id ∉ x :: xs := by
        intro hm
        rcases List.mem_cons.1 hm with h | h
        · omega
        · have := hx _ h; omega
      have hne : ∀ y ∈ x :: xs, y ≠ id := by
        intro y hy
        rcases List.mem_cons.1 hy with h | h
        · omega
        · have := hx _ h; omega
      rw [if_pos h1, if_pos h1, List.map_cons, if_pos rfl, hmap (x :: xs) hne, h0 hnot, List.map_cons]
    · rw [if_neg h1, if_neg h1]
      by_cases h2 : id = x
      · subst h2
        rw [if_pos rfl, if_pos rfl, List.map_cons, if_pos rfl, hmap xs]
        intro y hy; have := hx _ hy; omega
      · rw [if_neg h2, if_neg h2, List.map_cons, if_neg (Ne.symm h2), ih hxs]
        intro hn
        apply h0
        intro hm
        rcases List.mem_cons.1 hm with h | h
        · exact h2 h
        · exact hn h

theorem insKey_pairwise (id : Nat) (L : List Nat) (hs : L.Pairwise (· < ·)) :
    (insKey id L).Pairwise (· < ·) := by
  induction L with
  | nil => simp only [insKey, List.pairwise_cons, List.not_mem_nil, false_imp_iff, implies_true,
      List.Pairwise.nil, and_self]
  | cons x xs ih =>
    have hx : ∀ y ∈ xs, x < y := (List.pairwise_cons.1 hs).1
    have hxs : xs.Pairwise (· < ·) := (List.pairwise_cons.1 hs).2
    unfold insKey
    by_cases h1 : id < x
    · rw [if_pos h1]
      refine List.pairwise_cons.2 ⟨?_, hs⟩
      intro y hy
      rcases List.mem_cons.1 hy with h | h
      · omega
      · have := hx _ h; omega
    · rw [if_neg h1]
      by_cases h2 : id = x
      · rw [if_pos h2]; exact hs
      · rw [if_neg h2]
        refine List.pairwise_cons.2 ⟨?_, ih hxs⟩
        intro y hy
        rcases (mem_insKey y id xs).1 hy with h | h
        · omega
        · exact hx _ h

theorem idsAsc_snoc (ws : List Nat) (w : Nat) :
    idsAsc fields (ws ++ [w]) = insKey (fields w).1 (idsAsc fields ws) := by
  simp only [idsAsc, List.foldl_append, List.foldl_cons, List.foldl_nil]

theorem idsAsc_pairwise (ws : List Nat) : (idsAsc fields ws).Pairwise (· < ·) := by
  induction ws using list_snoc_ind with
  | nil => exact List.Pairwise.nil
  | append_singleton ws w ih => rw [idsAsc_snoc]; exact insKey_pairwise _ _ ih

theorem mem_idsAsc (ws : List Nat) (k : Nat) : k ∈ idsAsc fields ws ↔ ∃ w ∈ ws, (fields w).1 = k := by
  induction ws using list_snoc_ind with
  | nil => simp only [idsAsc, List.foldl_nil, List.not_mem_nil, false_and, exists_false]
  | append_singleton ws w ih =>
    rw [idsAsc_snoc, mem_insKey, ih]
    simp only [List.mem_append, List.mem_singleton]
    constructor
    · rintro (h | ⟨v, hv, h⟩)
      · exact ⟨w, Or.inr rfl, h.symm⟩
      · exact ⟨v, Or.inl hv, h⟩
    · rintro ⟨v, hv | hv, h⟩
      · exact Or.inr ⟨v, hv, h⟩
      · subst hv; exact Or.inl h.symm

theorem lastVal_snoc (ws : List Nat) (w id tq : Nat) :
    lastVal fields (ws ++ [w]) id tq =
      if ((fields w).1 == id && (fields w).2.1 == tq) = true then (fields w).2.2.1 else lastVal fields ws id tq := by
  unfold lastVal
  rw [List.reverse_append, List.reverse_singleton, List.singleton_append, List.find?_cons]
  by_cases h : ((fields w).1 == id && (fields w).2.1 == tq) = true
  · rw [if_pos h, h]
  · rw [if_neg h]
    have h' : ((fields w).1 == id && (fields w).2.1 == tq) = false := by
      cases hb : ((fields w).1 == id && (fields w).2.1 == tq)
      · rfl
      · exact absurd hb h
    rw [h']

theorem orOv_snoc (ws : List Nat) (w id : Nat) :
    orOv fields (ws ++ [w]) id =
      if (fields w).1 = id then orOv fields ws id ||| (fields w).2.2.2 else orOv fields ws id := by
  unfold orOv
  rw [List.filter_append, List.foldl_append]
  by_cases h : (fields w).1 = id
  · rw [if_pos h, List.filter_cons_of_pos (by simp only [h, beq_self_eq_true])]
    rfl
  · rw [if_neg h, List.filter_cons_of_neg (by simp only [beq_iff_eq, h, not_false_eq_true])]
    rfl

theorem lastVal_absent (ws : List Nat) (id tq : Nat) (h : id ∉ idsAsc fields ws) :
    lastVal fields ws id tq = 0 := by
  unfold lastVal
  have : ws.reverse.find? (fun w => (fields w).1 == id && (fields w).2.1 == tq) = none := by
    rw [List.find?_eq_none]
    intro w hw hc
    apply h
    rw [mem_idsAsc]
    refine ⟨w, List.mem_reverse.1 hw, ?_⟩
    simp only [Bool.and_eq_true, beq_iff_eq] at hc
    exact hc.1
  rw [this]

theorem orOv_absent (ws : List Nat) (id : Nat) (h : id ∉ idsAsc fields ws) :
    orOv fields ws id = 0 := by
  unfold orOv
  have : ws.filter (fun w => (fields w).1 == id) = [] := by
    rw [List.filter_eq_nil_iff]
    intro w hw hc
    apply h
    rw [mem_idsAsc]
    exact ⟨w, hw, by simpa only [beq_iff_eq] using hc⟩
  rw [this]
  rfl

/-- the state of the `std::map` after a prefix `ws` of the payload -/
def mapOf (ws : List Nat) : List (Nat × Nat × Nat × Nat) :=
  (idsAsc fields ws).map (fun k => (k, lastVal fields ws k 0, lastVal fields ws k 1, orOv fields ws k))

theorem foldl_merge (htq : ∀ w, (fields w).2.1 < 2) (ws : List Nat) :
    ws.foldl (fun m w => mergeWord m (fields w).1 (fields w).2.1 (fields w).2.2.1 (fields w).2.2.2) [] =
      mapOf fields ws := by
  induction ws using list_snoc_ind with
  | nil => rfl
  | append_singleton ws w ih =>
    rw [List.foldl_append, List.foldl_cons, List.foldl_nil, ih]
    unfold mapOf mergeWord
    rw [upd_map _ _ _ _ (idsAsc_pairwise fields ws), idsAsc_snoc]
    · apply List.map_congr_left
      intro k _
      rw [lastVal_snoc, lastVal_snoc, orOv_snoc]
      have := htq w
      by_cases hk : k = (fields w).1
      · subst hk
        rw [if_pos rfl, if_pos rfl]
        by_cases h0 : (fields w).2.1 = 0
        · simp only [h0, beq_self_eq_true, Bool.and_self, if_pos, Bool.and_false,
            Bool.false_eq_true, if_false, show ((0 : Nat) == 1) = false from rfl]
        · have h1 : (fields w).2.1 = 1 := by omega
          simp only [h1, beq_self_eq_true, Bool.and_self, if_pos, Bool.and_false,
            Bool.false_eq_true, if_false, show ((1 : Nat) == 0) = false from rfl,
            show ¬ ((1 : Nat) = 0) from by omega]
      · have hk' : ¬ (fields w).1 = k := fun h => hk h.symm
        have hb : ((fields w).1 == k) = false := by
          simpa only [beq_eq_false_iff_ne, ne_eq] using hk'
        rw [if_neg hk, if_neg hk']
        simp only [hb, Bool.false_and, Bool.false_eq_true, if_false]
    · intro hn
      rw [lastVal_absent fields ws _ 0 hn, lastVal_absent fields ws _ 1 hn, orOv_absent fields ws _ hn]

end merge

/-! ### `fill_digi` -/

theorem fillDigi_eq_robRows' (det : Nat) (data : List Nat) : fillDigi det data = robRows det data := by
  unfold fillDigi robRows
  by_cases h1 : det = MDC
  · rw [if_pos h1, if_pos h1]
    show (data.foldl (fun m w => mergeWord m (mdcFields w).1 (mdcFields w).2.1 (mdcFields w).2.2.1
      (mdcFields w).2.2.2) []).map _ = _
    rw [foldl_merge mdcFields mdcFields_tq_lt, mapOf, List.map_map]
    rfl
  rw [if_neg h1, if_neg h1]
  by_cases h2 : det = TOF
  · rw [if_pos h2, if_pos h2]
    show (data.foldl (fun m w => mergeWord m (tofFields w).1 (tofFields w).2.1 (tofFields w).2.2.1
      (tofFields w).2.2.2) []).map _ = _
    rw [foldl_merge tofFields tofFields_tq_lt, mapOf, List.map_map]
    rfl
  rw [if_neg h2, if_neg h2]
  by_cases h3 : det = EMC
  · rw [if_pos h3, if_pos h3]
    apply List.map_congr_left
    intro w _
    rw [and_shiftRight, and_shiftRight, and_shiftRight]
    rfl
  rw [if_neg h3, if_neg h3]

/-! ### one ROB fragment -/

theorem readROB_run (det total hsize ver src rodh rns rnd pos : Nat) (st sp ex body data rest : List Nat)
    (hex : ex.length = 7)
    (hn : sub32 (sub32 (sub32 total hsize) rodh) 3 = body.length)
    (h1 : ¬ (body.length < rns ∨ body.length < rnd))
    (he : (if pos = 0 then eraseFront body rns else eraseBack body rnd) = some data) :
    (readROB det).run (ROB :: total :: hsize :: ver :: src :: st.length :: (st ++ sp.length :: (sp ++
      ROD :: rodh :: (ex ++ (body ++ rns :: rnd :: pos :: rest))))) = .ok (fillDigi det data, total) rest := by
  unfold readROB
  rw [read_bind, if_neg (fun h => h rfl), read_bind, read_bind, read_bind, read_bind, read_bind,
    skip_bind _ _ _ _ rfl, read_bind, skip_bind _ _ _ _ rfl, read_bind, if_neg (fun h => h rfl),
    read_bind, skip_bind _ _ _ _ hex.symm, readN_bind _ _ _ _ hn, read_bind, read_bind, read_bind,
    if_neg h1, he, liftErase_some_bind]
  rfl

/-- payload area of an encoded ROB (status and data in the order chosen by `statusFirst`) -/
def robBody (r : Rob) : List Nat := if r.statusFirst then r.status ++ r.data else r.data ++ r.status

theorem robBody_length (r : Rob) : (robBody r).length = r.status.length + r.data.length := by
  unfold robBody
  split <;> simp only [List.length_append] <;> omega

theorem encRob_eq (r : Rob) (rest : List Nat) :
    encRob r ++ rest =
      ROB :: (7 + r.robStatus.length + r.robSpec.length + 9 + (robBody r).length + 3) ::
        (7 + r.robStatus.length + r.robSpec.length) :: FORMAT_VERSION :: r.src :: r.robStatus.length ::
        (r.robStatus ++ r.robSpec.length :: (r.robSpec ++ ROD :: 9 :: (r.rodExtra ++ (robBody r ++
          r.status.length :: r.data.length :: (if r.statusFirst then 0 else r.posWord) :: rest)))) := by
  simp only [encRob, robBody, List.append_assoc, List.cons_append, List.nil_append]

theorem encRob_length (r : Rob) (hex : r.rodExtra.length = 7) :
    (encRob r).length = 7 + r.robStatus.length + r.robSpec.length + 9 + (robBody r).length + 3 := by
  have := congrArg List.length (encRob_eq r [])
  rw [List.append_nil] at this
  rw [this]
  simp only [List.length_cons, List.length_append, List.length_nil, hex]
  omega

theorem readROB_enc' (det : Nat) (r : Rob) (rest : List Nat) (h : r.wf = true) :
    (readROB det).run (encRob r ++ rest) = .ok (robRows det r.data, (encRob r).length) rest := by
  simp only [Rob.wf, Bool.and_eq_true, decide_eq_true_eq, Bool.or_eq_true] at h
  obtain ⟨⟨⟨_, hlen⟩, hex⟩, hpos⟩ := h
  rw [encRob_length r hex] at hlen ⊢
  rw [encRob_eq, ← fillDigi_eq_robRows']
  have hb := robBody_length r
  apply readROB_run
  · exact hex
  · have e1 : sub32 (7 + r.robStatus.length + r.robSpec.length + 9 + (robBody r).length + 3)
        (7 + r.robStatus.length + r.robSpec.length) = 9 + (robBody r).length + 3 := by
      rw [sub32_cancel _ _ (by omega) hlen]; omega
    have e2 : sub32 (9 + (robBody r).length + 3) 9 = (robBody r).length + 3 := by
      rw [sub32_cancel _ _ (by omega) (by omega)]; omega
    have e3 : sub32 ((robBody r).length + 3) 3 = (robBody r).length := by
      rw [sub32_cancel _ _ (by omega) (by omega)]; omega
    rw [e1, e2, e3]
  · omega
  · cases hsf : r.statusFirst
    · have hp : r.posWord ≠ 0 := by
        rcases hpos with h | h
        · rw [hsf] at h; exact absurd h (by decide)
        · exact h
      simp only [Bool.false_eq_true, if_false, if_neg hp, robBody, hsf, eraseBack]
      rw [if_pos (by simp only [List.length_append]; omega), List.take_left]
    · simp only [if_true, robBody, hsf, eraseFront]
      rw [if_pos (by simp only [List.length_append]; omega), List.drop_left]

end Pybes3Verif.Raw
