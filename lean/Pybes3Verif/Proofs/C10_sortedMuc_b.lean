import Pybes3Verif.Proofs.C10Defs
namespace Pybes3Verif.C10
open Pybes3Verif.Util Pybes3Verif.Gen Pybes3Verif.Gen.Reid Pybes3Verif.Gen.DigiId

theorem sortedMuc_b : ∀ k, k < 572 → sortedOk tbl_muc_raw sorted_muc_raw 572 k = true :=
  forall_lt_of_allBlock (sortedOk tbl_muc_raw sorted_muc_raw 572) 572 10 (by decide +kernel) (by decide)

end Pybes3Verif.C10
