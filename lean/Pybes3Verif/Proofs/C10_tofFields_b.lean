import Pybes3Verif.Proofs.C10Defs
namespace Pybes3Verif.C10
open Pybes3Verif.Util Pybes3Verif.Gen Pybes3Verif.Gen.Reid Pybes3Verif.Gen.DigiId

theorem tofFields_b : ∀ i, i < 16384 → tofFieldsOk i = true :=
  forall_lt_of_allBlock tofFieldsOk 16384 14 (by decide +kernel) (by decide)

end Pybes3Verif.C10
