import Pybes3Verif.Props.C11
import Pybes3Verif.Props.C12
/-!
Helper lemmas for Group D (C11/C12): the Jacobians of successive pivot changes multiply, hence the
error matrices compose.  Everything lives in the sub-namespace `Pybes3Verif.Helix.D`.
-/
namespace Pybes3Verif.Helix.D
open Real B

local notation "R" => realOps

theorem A_alpha0_pos : 0 < alpha0 := by unfold alpha0; norm_num

/-! ### the algebraic core: `jacobianWith` is multiplicative in the turning angle -/

/-- product of two `jacobianWith` blocks that share `r, κ, tanλ` and whose `dr`s chain:
`J(dr₁ → dr₂, δ₂) · J(dr → dr₁, δ₁) = J(dr → dr₂, δ₁ + δ₂)` -/
theorem jacobianWith_mul (r ka dr dr1 dr2 tl δ1 δ2 : ℝ) (hb : r + dr1 ≠ 0) (hc : r + dr2 ≠ 0)
    (i j : Fin 5) :
    (∑ k : Fin 5, jacobianWith r ka dr1 dr2 tl δ2 i k * jacobianWith r ka dr dr1 tl δ1 k j) =
      jacobianWith r ka dr dr2 tl (δ1 + δ2) i j := by
  fin_cases i <;> fin_cases j <;>
    simp only [Fin.sum_univ_five, jacobianWith, Fin.coe_ofNat_eq_mod, Nat.reduceMod, cos_add, sin_add] <;>
    field_simp <;> ring

/-- special case: the block with the opposite angle and swapped `dr`s is the inverse -/
theorem jacobianWith_inv (r ka dr dr1 tl δ : ℝ) (ha : r + dr ≠ 0) (hb : r + dr1 ≠ 0) (i j : Fin 5) :
    (∑ k : Fin 5, jacobianWith r ka dr1 dr tl (-δ) i k * jacobianWith r ka dr dr1 tl δ k j) =
      if i = j then 1 else 0 := by
  rw [jacobianWith_mul r ka dr dr1 dr tl δ (-δ) hb ha i j, add_neg_cancel]
  exact jacobianWith_zero r ka dr tl ha i j

/-! ### the model's turning angles -/

/-- the turning angle of the way back is the opposite of the turning angle of the way there
(away from the branch point π) -/
theorem dphiOf_back (h : Params ℝ) (p p' : Vec3 ℝ) (hv : Valid h) (hpi : dphiOf R h p p' ≠ π) :
    dphiOf R (changePivot R h p p') p' p = -dphiOf R h p p' := by
  have hk := hv.kappa_ne
  have hself := cp_self h p hv
  obtain ⟨-, e2⟩ := cp_cp_dr_phi h p p' p hk
  rw [hself] at e2
  rw [dphiOf_eq (changePivot R h p p') p' p, e2, dphiOf_eq h p p',
    ← neg_sub (changePivot R h p p').phi0 h.phi0]
  exact normDphi_neg (by rw [← dphiOf_eq]; exact hpi)

/-- when the accumulated turning angle stays within half a turn it is the direct turning angle -/
theorem dphiOf_add (h : Params ℝ) (p p₁ p₂ : Vec3 ℝ) (hk : h.kappa ≠ 0)
    (hs : -π < dphiOf R h p p₁ + dphiOf R (changePivot R h p p₁) p₁ p₂ ∧
          dphiOf R h p p₁ + dphiOf R (changePivot R h p p₁) p₁ p₂ ≤ π) :
    dphiOf R h p p₂ = dphiOf R h p p₁ + dphiOf R (changePivot R h p p₁) p₁ p₂ := by
  obtain ⟨k, e⟩ := dphi_sum_congr h p p₁ p₂ hk
  obtain ⟨g1, g2, -⟩ := normDphi_spec ((changePivot R h p p₂).phi0 - h.phi0)
  rw [← dphiOf_eq] at g1 g2
  exact (eq_of_congr_window (lo := -π) (k := k) hs.1 (by linarith [hs.2]) g1 (by linarith) e).symm

/-- `r + dr' ≠ 0` after a move to a pivot that is not the centre -/
theorem rho_add_dr_cp_ne_zero (h : Params ℝ) (p p' : Vec3 ℝ) (hk : h.kappa ≠ 0) (hoff : OffCentre h p p') :
    signedRadius R h.kappa + (changePivot R h p p').dr ≠ 0 := by
  have hv' := changePivot_valid h p p' hk hoff
  have := rho_add_dr_ne_zero _ hv'
  rwa [cp_rho, ← B.signedRadius_eq_rho' h hk] at this

/-! ### the model's Jacobians -/

theorem jacobian_mul_back (h : Params ℝ) (p p' : Vec3 ℝ) (hv : Valid h) (hoff : OffCentre h p p')
    (hpi : dphiOf R h p p' ≠ π) (i j : Fin 5) :
    (∑ k : Fin 5, jacobian R (changePivot R h p p') p' p i k * jacobian R h p p' k j) =
      if i = j then 1 else 0 := by
  have hk := hv.kappa_ne
  rw [jacobian_eq_jacobianWith, jacobian_eq_jacobianWith, there_and_back h p p' hv hoff hpi,
    dphiOf_back h p p' hv hpi, cp_kappa, cp_tanl]
  refine jacobianWith_inv _ _ _ _ _ _ ?_ (rho_add_dr_cp_ne_zero h p p' hk hoff) i j
  rw [B.signedRadius_eq_rho' h hk]
  exact rho_add_dr_ne_zero h hv

theorem jacobian_mul (h : Params ℝ) (p p₁ p₂ : Vec3 ℝ) (hk : h.kappa ≠ 0) (h1 : OffCentre h p p₁)
    (h2 : OffCentre h p p₂)
    (hs : -π < dphiOf R h p p₁ + dphiOf R (changePivot R h p p₁) p₁ p₂ ∧
          dphiOf R h p p₁ + dphiOf R (changePivot R h p p₁) p₁ p₂ ≤ π) (i j : Fin 5) :
    (∑ k : Fin 5, jacobian R (changePivot R h p p₁) p₁ p₂ i k * jacobian R h p p₁ k j) =
      jacobian R h p p₂ i j := by
  rw [jacobian_eq_jacobianWith, jacobian_eq_jacobianWith, jacobian_eq_jacobianWith,
    (cp_cp_dr_phi h p p₁ p₂ hk).1, dphiOf_add h p p₁ p₂ hk hs, cp_kappa, cp_tanl]
  exact jacobianWith_mul _ _ _ _ _ _ _ _ (rho_add_dr_cp_ne_zero h p p₁ hk h1)
    (rho_add_dr_cp_ne_zero h p p₂ hk h2) i j

/-! ### propagation of the error matrix along a product of Jacobians -/

/-- if `J₂ · J₁ = J` as 5×5 matrices then propagating with `J₁` and then with `J₂` is propagating with `J` -/
theorem propagate_comp (J1 J2 J E : Nat → Nat → ℝ)
    (hJ : ∀ i j : Fin 5, (∑ k : Fin 5, J2 i k * J1 k j) = J i j) (i j : Fin 5) :
    propagate R J2 (propagate R J1 E) i j = propagate R J E i j := by
  have hmul : (Matrix.of fun (i j : Fin 5) => J2 i j) * (Matrix.of fun (i j : Fin 5) => J1 i j) =
      Matrix.of fun (i j : Fin 5) => J i j := by
    ext a b
    rw [Matrix.mul_apply]
    simpa using hJ a b
  have h2 := propagate_eq_matrix J2 (propagate R J1 E)
  have h1 := propagate_eq_matrix J1 E
  have h0 := propagate_eq_matrix J E
  rw [h1] at h2
  have : (Matrix.of fun (i j : Fin 5) => propagate R J2 (propagate R J1 E) i j) =
      Matrix.of fun (i j : Fin 5) => propagate R J E i j := by
    rw [h2, h0, ← hmul, Matrix.transpose_mul]
    simp only [Matrix.mul_assoc]
  have := congrFun (congrFun this i) j
  simpa using this

/-- if `J₂ · J₁ = 1` then propagating with `J₁` and then with `J₂` restores the error matrix -/
theorem propagate_inv (J1 J2 E : Nat → Nat → ℝ)
    (hJ : ∀ i j : Fin 5, (∑ k : Fin 5, J2 i k * J1 k j) = if i = j then 1 else 0) (i j : Fin 5) :
    propagate R J2 (propagate R J1 E) i j = E i j := by
  rw [propagate_comp J1 J2 (fun a b => if a = b then 1 else 0) E ?_ i j]
  · exact propagate_id _ E (fun a b => by simp [Fin.ext_iff]) i j
  · intro a b
    rw [hJ a b]
    simp [Fin.ext_iff]

/-! ### a family of non-trivial moves with known turning angle (for the satisfiability examples) -/

/-- the pivot moved by `t` along the direction `φ0` (towards / away from the centre), to height `z` -/
noncomputable def radialPivot (h : Params ℝ) (p : Vec3 ℝ) (t z : ℝ) : Vec3 ℝ :=
  ⟨p.x + t * cos h.phi0, p.y + t * sin h.phi0, z⟩

theorem specCentre_radial (h : Params ℝ) (p : Vec3 ℝ) (t z : ℝ) :
    specCentre h p = ((radialPivot h p t z).x + (h.dr - t + rho h) * cos h.phi0,
                      (radialPivot h p t z).y + (h.dr - t + rho h) * sin h.phi0) := by
  unfold specCentre radialPivot
  refine Prod.ext ?_ ?_ <;> simp only <;> ring

/-- a radial move that does not cross the centre keeps `φ0`: its turning angle is 0 -/
theorem dphiOf_radial (h : Params ℝ) (p : Vec3 ℝ) (t z : ℝ) (hv : Valid h)
    (ht : 0 < (h.dr - t + rho h) / rho h) : dphiOf R h p (radialPivot h p t z) = 0 := by
  have hk := hv.kappa_ne
  have e := cp_dr_phi h p (radialPivot h p t z) hk
  have hs := fromCentre_self (h.dr - t) h.phi0 (rho h) (radialPivot h p t z).x (radialPivot h p t z).y
    (radialPivot h p t z) (rho_ne_zero h hk) ht hv.phi_lo hv.phi_hi rfl rfl
  rw [specCentre_radial h p t z, hs] at e
  have e2 : (changePivot R h p (radialPivot h p t z)).phi0 = h.phi0 := congrArg Prod.snd e
  rw [dphiOf_eq, e2, sub_self, normDphi_zero]

/-- … and the new pivot is not the centre -/
theorem offCentre_radial (h : Params ℝ) (p : Vec3 ℝ) (t z : ℝ)
    (ht : 0 < (h.dr - t + rho h) / rho h) : OffCentre h p (radialPivot h p t z) := by
  have hne : h.dr - t + rho h ≠ 0 := by
    intro e; rw [e, zero_div] at ht; exact lt_irrefl _ ht
  unfold OffCentre
  rw [specCentre_radial h p t z]
  simp only [add_sub_cancel_left]
  by_contra hc
  push Not at hc
  have h1 : cos h.phi0 = 0 := (mul_eq_zero.1 hc.1).resolve_left hne
  have h2 : sin h.phi0 = 0 := (mul_eq_zero.1 hc.2).resolve_left hne
  have := Real.sin_sq_add_cos_sq h.phi0
  rw [h1, h2] at this
  norm_num at this

/-- for `exHelixPos` (κ = 1, ρ = −α₀, dr = −1, φ0 = 3) a radial step of 1 cm does not cross the centre -/
theorem exHelixPos_radial_ok : 0 < (exHelixPos.dr - 1 + rho exHelixPos) / rho exHelixPos := by
  rw [exHelixPos_rho]
  have := A_alpha0_pos
  simp only [exHelixPos]
  apply div_pos_of_neg_of_neg <;> linarith

end Pybes3Verif.Helix.D
