import Pybes3Verif.Proofs.C09Defs
namespace Pybes3Verif.C09
open Pybes3Verif.Util Pybes3Verif.IEEE Pybes3Verif.Gen
open Pybes3Verif.Gen.Mdc Pybes3Verif.Gen.MdcTables

def chunkEq_superlayer (j : Nat) : Bool := mod__superlayer_chunk j == npz_superlayer_chunk j
theorem chunks_superlayer : ∀ j, j < 107 → chunkEq_superlayer j = true :=
  forall_lt_of_allBlock chunkEq_superlayer 107 7 (by decide +kernel) (by decide)
def chunkEq_layer (j : Nat) : Bool := mod__layer_chunk j == npz_layer_chunk j
theorem chunks_layer : ∀ j, j < 107 → chunkEq_layer j = true :=
  forall_lt_of_allBlock chunkEq_layer 107 7 (by decide +kernel) (by decide)
def chunkEq_wire (j : Nat) : Bool := mod__wire_chunk j == npz_wire_chunk j
theorem chunks_wire : ∀ j, j < 107 → chunkEq_wire j = true :=
  forall_lt_of_allBlock chunkEq_wire 107 7 (by decide +kernel) (by decide)
def chunkEq_east_x (j : Nat) : Bool := mod__east_x_chunk j == npz_east_x_chunk j
theorem chunks_east_x : ∀ j, j < 107 → chunkEq_east_x j = true :=
  forall_lt_of_allBlock chunkEq_east_x 107 7 (by decide +kernel) (by decide)
def chunkEq_east_y (j : Nat) : Bool := mod__east_y_chunk j == npz_east_y_chunk j
theorem chunks_east_y : ∀ j, j < 107 → chunkEq_east_y j = true :=
  forall_lt_of_allBlock chunkEq_east_y 107 7 (by decide +kernel) (by decide)
def chunkEq_east_z (j : Nat) : Bool := mod__east_z_chunk j == npz_east_z_chunk j
theorem chunks_east_z : ∀ j, j < 107 → chunkEq_east_z j = true :=
  forall_lt_of_allBlock chunkEq_east_z 107 7 (by decide +kernel) (by decide)
def chunkEq_west_x (j : Nat) : Bool := mod__west_x_chunk j == npz_west_x_chunk j
theorem chunks_west_x : ∀ j, j < 107 → chunkEq_west_x j = true :=
  forall_lt_of_allBlock chunkEq_west_x 107 7 (by decide +kernel) (by decide)
def chunkEq_west_y (j : Nat) : Bool := mod__west_y_chunk j == npz_west_y_chunk j
theorem chunks_west_y : ∀ j, j < 107 → chunkEq_west_y j = true :=
  forall_lt_of_allBlock chunkEq_west_y 107 7 (by decide +kernel) (by decide)
def chunkEq_west_z (j : Nat) : Bool := mod__west_z_chunk j == npz_west_z_chunk j
theorem chunks_west_z : ∀ j, j < 107 → chunkEq_west_z j = true :=
  forall_lt_of_allBlock chunkEq_west_z 107 7 (by decide +kernel) (by decide)
def chunkEq_stereo (j : Nat) : Bool := mod__stereo_chunk j == npz_stereo_chunk j
theorem chunks_stereo : ∀ j, j < 107 → chunkEq_stereo j = true :=
  forall_lt_of_allBlock chunkEq_stereo 107 7 (by decide +kernel) (by decide)
def chunkEq_is_stereo (j : Nat) : Bool := mod__is_stereo_chunk j == npz_is_stereo_chunk j
theorem chunks_is_stereo : ∀ j, j < 107 → chunkEq_is_stereo j = true :=
  forall_lt_of_allBlock chunkEq_is_stereo 107 7 (by decide +kernel) (by decide)

end Pybes3Verif.C09
