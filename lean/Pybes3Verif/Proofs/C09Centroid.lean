import Pybes3Verif.Proofs.C09_centroidX0
import Pybes3Verif.Proofs.C09_centroidX1
import Pybes3Verif.Proofs.C09_centroidY0
import Pybes3Verif.Proofs.C09_centroidY1
import Pybes3Verif.Proofs.C09_centroidZ0
import Pybes3Verif.Proofs.C09_centroidZ1
/-! C09: barrel crystal centres are the centroids of their corner points — assembled from six kernel evaluations. -/
namespace Pybes3Verif.C09
open Pybes3Verif.Util Pybes3Verif.IEEE Pybes3Verif.Gen
open Pybes3Verif.Gen.Emc Pybes3Verif.Gen.EmcTables

theorem centroidX_b : ∀ g, g < 6240 → centroidOk npz_part_raw npz_points_x_chunk npz_center_x_raw npz_front_center_x_raw g = true := by
  intro g hg
  by_cases h : g < 4096
  · exact allBlock_spec _ 12 0 centroidX_b0 g (Nat.zero_le _) (by omega)
  · have := allBlock_spec _ 12 4096 centroidX_b1 g (by omega) (by omega)
    simp at this
    rcases this with h1 | h1
    · omega
    · exact h1

/-- the 8 corner entries of crystal g read from their chunk are the entries 8g … 8g+7 of the column -/
theorem ent_points_x (g k : Nat) (hk : k < 8) : ent (npz_points_x_chunk (g / 8)) g k = npz_points_x_raw (8 * g + k) := by
  unfold ent npz_points_x_raw
  have h1 : (8 * g + k) / 64 = g / 8 := by omega
  have h2 : (8 * g + k) % 64 = 8 * (g % 8) + k := by omega
  rw [h1, h2]

theorem centroidY_b : ∀ g, g < 6240 → centroidOk npz_part_raw npz_points_y_chunk npz_center_y_raw npz_front_center_y_raw g = true := by
  intro g hg
  by_cases h : g < 4096
  · exact allBlock_spec _ 12 0 centroidY_b0 g (Nat.zero_le _) (by omega)
  · have := allBlock_spec _ 12 4096 centroidY_b1 g (by omega) (by omega)
    simp at this
    rcases this with h1 | h1
    · omega
    · exact h1

/-- the 8 corner entries of crystal g read from their chunk are the entries 8g … 8g+7 of the column -/
theorem ent_points_y (g k : Nat) (hk : k < 8) : ent (npz_points_y_chunk (g / 8)) g k = npz_points_y_raw (8 * g + k) := by
  unfold ent npz_points_y_raw
  have h1 : (8 * g + k) / 64 = g / 8 := by omega
  have h2 : (8 * g + k) % 64 = 8 * (g % 8) + k := by omega
  rw [h1, h2]

theorem centroidZ_b : ∀ g, g < 6240 → centroidOk npz_part_raw npz_points_z_chunk npz_center_z_raw npz_front_center_z_raw g = true := by
  intro g hg
  by_cases h : g < 4096
  · exact allBlock_spec _ 12 0 centroidZ_b0 g (Nat.zero_le _) (by omega)
  · have := allBlock_spec _ 12 4096 centroidZ_b1 g (by omega) (by omega)
    simp at this
    rcases this with h1 | h1
    · omega
    · exact h1

/-- the 8 corner entries of crystal g read from their chunk are the entries 8g … 8g+7 of the column -/
theorem ent_points_z (g k : Nat) (hk : k < 8) : ent (npz_points_z_chunk (g / 8)) g k = npz_points_z_raw (8 * g + k) := by
  unfold ent npz_points_z_raw
  have h1 : (8 * g + k) / 64 = g / 8 := by omega
  have h2 : (8 * g + k) % 64 = 8 * (g % 8) + k := by omega
  rw [h1, h2]

end Pybes3Verif.C09
