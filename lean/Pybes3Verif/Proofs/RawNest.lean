import Pybes3Verif.Props.C03a
/-!
Helper lemmas for C03 (part 2): stepping lemmas for the parser monad, the generic `loopLeft` lemma,
and the round-trip lemmas for ROS / sub-detector / event fragments.
-/
namespace Pybes3Verif.Raw.Nest
open Pybes3Verif.Raw
open Pybes3Verif.Raw.Spec

/-! ### stepping through `P` -/

theorem run_bind {α β : Type} (p : P α) (f : α → P β) (ws : List Nat) :
    (p >>= f).run ws = match p.run ws with
      | .ok a r => (f a).run r | .err e => .err e | .oob => .oob | .fuel => .fuel := rfl

theorem bind_ok {α β : Type} (p : P α) (f : α → P β) (ws : List Nat) (a : α) (ws' : List Nat)
    (h : p.run ws = .ok a ws') : (p >>= f).run ws = (f a).run ws' := by
  rw [run_bind, h]

theorem run_pure {α : Type} (a : α) (ws : List Nat) : (pure a : P α).run ws = .ok a ws := rfl

theorem read_cons (w : Nat) (ws : List Nat) : read.run (w :: ws) = .ok w ws := by
  have h : (require 1).run (w :: ws) = .ok () (w :: ws) := by
    simp only [require, List.length_cons]
    rw [if_pos (by omega)]
  unfold read
  rw [bind_ok _ _ _ _ _ h]
  rfl

theorem read_bind {β : Type} (f : Nat → P β) (w : Nat) (ws : List Nat) :
    (read >>= f).run (w :: ws) = (f w).run ws := bind_ok _ _ _ _ _ (read_cons w ws)

theorem skip_append (n : Nat) (a rest : List Nat) (h : n = a.length) :
    (skip n).run (a ++ rest) = .ok () rest := by
  subst h
  have h1 : (require a.length).run (a ++ rest) = .ok () (a ++ rest) := by
    simp only [require, List.length_append]
    rw [if_pos (by omega)]
  have h2 : (rawSkip a.length).run (a ++ rest) = .ok () rest := by
    simp only [rawSkip, List.length_append]
    rw [if_pos (by omega), List.drop_left]
  unfold skip
  rw [bind_ok _ _ _ _ _ h1]
  exact h2

theorem skip_bind {β : Type} (f : Unit → P β) (n : Nat) (a rest : List Nat) (h : n = a.length) :
    (skip n >>= f).run (a ++ rest) = (f ()).run rest := bind_ok _ _ _ _ _ (skip_append n a rest h)

theorem skip_len_bind {β : Type} (f : Unit → P β) (a rest : List Nat) :
    (skip a.length >>= f).run (a ++ rest) = (f ()).run rest := skip_bind f _ a rest rfl

/-! ### `sub32` -/

theorem sub32_add_left (a b : Nat) (h : a + b < W) : sub32 (a + b) a = b := by
  unfold sub32 W at *
  omega

/-! ### `flatMap` lengths -/

theorem length_le_flatMap_length {β : Type} (enc : β → List Nat) (xs : List β)
    (hpos : ∀ x ∈ xs, 0 < (enc x).length) : xs.length ≤ (xs.flatMap enc).length := by
  induction xs with
  | nil => simp
  | cons x xs ih =>
    have h1 := hpos x (List.mem_cons_self)
    have h2 := ih (fun y hy => hpos y (List.mem_cons_of_mem _ hy))
    simp only [List.flatMap_cons, List.length_append, List.length_cons]
    omega

theorem mem_length_le_flatMap_length {β : Type} (enc : β → List Nat) (xs : List β) (x : β)
    (hx : x ∈ xs) : (enc x).length ≤ (xs.flatMap enc).length := by
  induction xs with
  | nil => cases hx
  | cons y ys ih =>
    simp only [List.flatMap_cons, List.length_append]
    rcases List.mem_cons.mp hx with h | h
    · subst h; omega
    · have := ih h; omega

/-! ### the generic loop lemma -/

theorem loopLeft_flatMap {α β : Type} (body : P (List α × Nat)) (enc : β → List Nat)
    (rows : β → List α) (xs : List β) (rest : List Nat) (fuel : Nat)
    (hbody : ∀ x ∈ xs, ∀ r, body.run (enc x ++ r) = .ok (rows x, (enc x).length) r)
    (hpos : ∀ x ∈ xs, 0 < (enc x).length)
    (hW : (xs.flatMap enc).length < W)
    (hfuel : xs.length < fuel) :
    (loopLeft body fuel (xs.flatMap enc).length).run (xs.flatMap enc ++ rest)
      = .ok (xs.flatMap rows) rest := by
  induction xs generalizing fuel with
  | nil =>
    cases fuel with
    | zero => simp at hfuel
    | succ f =>
      simp only [List.flatMap_nil, List.length_nil, List.nil_append]
      unfold loopLeft
      rw [if_pos rfl]
      rfl
  | cons x xs ih =>
    cases fuel with
    | zero => simp at hfuel
    | succ f =>
      have hx := hpos x List.mem_cons_self
      simp only [List.flatMap_cons, List.length_append] at hW ⊢
      unfold loopLeft
      rw [if_neg (by omega), List.append_assoc,
        bind_ok _ _ _ _ _ (hbody x List.mem_cons_self _)]
      simp only []
      rw [sub32_add_left _ _ hW]
      have hrec := ih f (fun y hy => hbody y (List.mem_cons_of_mem _ hy))
        (fun y hy => hpos y (List.mem_cons_of_mem _ hy)) (by omega)
        (by simp only [List.length_cons] at hfuel; omega)
      rw [bind_ok _ _ _ _ _ hrec]
      rfl

/-! ### ROS fragments -/

theorem encRos_eq (s : Ros) : encRos s =
    ROS :: (7 + s.status.length + 3 + (s.robs.flatMap encRob).length) :: (7 + s.status.length + 3)
      :: FORMAT_VERSION :: s.src :: s.status.length ::
      (s.status ++ 3 :: (s.spec ++ s.robs.flatMap encRob)) := by
  simp only [encRos, List.cons_append, List.nil_append, List.append_assoc]

theorem wordsOk_second (a b : Nat) (l : List Nat) (h : wordsOk (a :: b :: l) = true) : b < W := by
  simp only [wordsOk, List.all_cons, Bool.and_eq_true, decide_eq_true_eq] at h
  exact h.2.1

theorem Ros.wf_iff (s : Ros) : s.wf = true ↔
    (∀ r ∈ s.robs, r.wf = true) ∧ wordsOk (encRos s) = true ∧ (encRos s).length < W ∧ s.spec.length = 3 := by
  simp only [Ros.wf, Bool.and_eq_true, decide_eq_true_eq, List.all_eq_true, and_assoc]

theorem encRob_length_pos (r : Rob) : 0 < (encRob r).length := by
  simp only [encRob, List.cons_append, List.length_cons]
  omega

theorem encRos_length (s : Ros) : (encRos s).length =
    7 + s.status.length + s.spec.length + (s.robs.flatMap encRob).length := by
  rw [encRos_eq]
  simp only [List.length_cons, List.length_append]
  omega

theorem readROS_enc (fuel det : Nat) (s : Ros) (rest : List Nat) (h : s.wf = true)
    (hf : (encRos s).length ≤ fuel) :
    (readROS fuel det).run (encRos s ++ rest) =
      .ok (s.robs.flatMap (fun r => robRows det r.data), (encRos s).length) rest := by
  obtain ⟨hrobs, hw, hlen, hspec⟩ := (Ros.wf_iff s).mp h
  have hlen' := encRos_length s
  have hW : 7 + s.status.length + 3 + (s.robs.flatMap encRob).length < W := by
    rw [encRos_eq] at hw; exact wordsOk_second _ _ _ hw
  have hloop := loopLeft_flatMap (readROB det) encRob (fun r => robRows det r.data) s.robs rest fuel
    (fun r hr rr => readROB_enc det r rr (hrobs r hr)) (fun r _ => encRob_length_pos r)
    (by omega)
    (by have := length_le_flatMap_length encRob s.robs (fun r _ => encRob_length_pos r); omega)
  rw [hlen', hspec]
  rw [encRos_eq]
  unfold readROS
  simp only [List.cons_append, List.append_assoc, read_bind, skip_len_bind, ne_eq,
    not_true_eq_false, if_false]
  rw [skip_bind _ 3 _ _ hspec.symm, sub32_add_left _ _ hW, bind_ok _ _ _ _ _ hloop]
  rfl

/-! ### sub-detector fragments -/

/-- rows one sub-detector fragment contributes to the event record -/
def subRows (sel : List Nat) (d : SubDet) : List (Nat × Row) :=
  if sel.contains d.det then
    (d.roses.flatMap (fun s => s.robs.flatMap (fun r => robRows d.det r.data))).map
      (fun row => (d.det, row))
  else []

theorem encSubDet_eq (d : SubDet) : encSubDet d =
    SUB_DETECTOR :: (7 + d.status.length + d.spec.length + (d.roses.flatMap encRos).length)
      :: (7 + d.status.length + d.spec.length)
      :: FORMAT_VERSION :: (d.det * 65536 + d.srcLow) :: d.status.length ::
      (d.status ++ d.spec.length :: (d.spec ++ d.roses.flatMap encRos)) := by
  simp only [encSubDet, List.cons_append, List.nil_append, List.append_assoc]

theorem encSubDet_length (d : SubDet) : (encSubDet d).length =
    7 + d.status.length + d.spec.length + (d.roses.flatMap encRos).length := by
  rw [encSubDet_eq]
  simp only [List.length_cons, List.length_append]
  omega

theorem encRos_length_pos (s : Ros) : 0 < (encRos s).length := by
  rw [encRos_length]; omega

theorem encSubDet_length_pos (d : SubDet) : 0 < (encSubDet d).length := by
  rw [encSubDet_length]; omega

theorem SubDet.wf_iff (d : SubDet) : d.wf = true ↔
    (∀ s ∈ d.roses, s.wf = true) ∧ wordsOk (encSubDet d) = true ∧ (encSubDet d).length < W ∧
      d.det < 65536 ∧ d.srcLow < 65536 := by
  simp only [SubDet.wf, Bool.and_eq_true, decide_eq_true_eq, List.all_eq_true, and_assoc]

theorem det_of_src (det lo : Nat) (h1 : det < 65536) (h2 : lo < 65536) :
    (det * 65536 + lo) >>> 16 &&& 0xFFFF = det := by
  have h : (0xFFFF : Nat) = 2 ^ 16 - 1 := by decide
  rw [h, Nat.and_two_pow_sub_one_eq_mod, Nat.shiftRight_eq_div_pow]
  omega

theorem readSubDet_enc (fuel : Nat) (sel : List Nat) (d : SubDet) (rest : List Nat)
    (h : d.wf = true) (hf : (encSubDet d).length ≤ fuel) :
    (readSubDet fuel sel).run (encSubDet d ++ rest) =
      .ok (subRows sel d, (encSubDet d).length) rest := by
  obtain ⟨hroses, hw, hlen, hdet, hlo⟩ := (SubDet.wf_iff d).mp h
  have hlen' := encSubDet_length d
  have hW : 7 + d.status.length + d.spec.length + (d.roses.flatMap encRos).length < W := by
    rw [encSubDet_eq] at hw; exact wordsOk_second _ _ _ hw
  rw [hlen', encSubDet_eq]
  unfold readSubDet
  simp only [List.cons_append, List.append_assoc, read_bind, skip_len_bind, ne_eq,
    not_true_eq_false, if_false, det_of_src _ _ hdet hlo, sub32_add_left _ _ hW]
  unfold subRows
  cases hsel : sel.contains d.det with
  | false =>
    simp only [Bool.false_eq_true, not_false_eq_true, if_true, if_false, skip_len_bind]
    rfl
  | true =>
    have hloop := loopLeft_flatMap (readROS fuel d.det) encRos
      (fun s => s.robs.flatMap (fun r => robRows d.det r.data)) d.roses rest fuel
      (fun s hs rr => readROS_enc fuel d.det s rr (hroses s hs) (by
        have := mem_length_le_flatMap_length encRos d.roses s hs; omega))
      (fun s _ => encRos_length_pos s)
      (by omega)
      (by have := length_le_flatMap_length encRos d.roses (fun s _ => encRos_length_pos s); omega)
    simp only [not_true_eq_false, if_true, if_false]
    rw [bind_ok _ _ _ _ _ hloop]
    rfl


/-! ### event fragments -/

theorem encEvent_eq (e : Event) : encEvent e =
    FULL_EVENT :: (7 + e.status.length + 10 + (e.subdets.flatMap encSubDet).length)
      :: (7 + e.status.length + 10)
      :: FORMAT_VERSION :: e.src :: e.status.length ::
      (e.status ++ 10 :: (e.header ++ e.subdets.flatMap encSubDet)) := by
  simp only [encEvent, List.cons_append, List.nil_append, List.append_assoc]

theorem encEvent_length (e : Event) : (encEvent e).length =
    7 + e.status.length + e.header.length + (e.subdets.flatMap encSubDet).length := by
  rw [encEvent_eq]
  simp only [List.length_cons, List.length_append]
  omega

theorem encEvent_length_pos (e : Event) : 0 < (encEvent e).length := by
  rw [encEvent_length]; omega

theorem Event.wf_iff (e : Event) : e.wf = true ↔
    (∀ d ∈ e.subdets, d.wf = true) ∧ wordsOk (encEvent e) = true ∧ (encEvent e).length < W ∧
      e.header.length = 10 := by
  simp only [Event.wf, Bool.and_eq_true, decide_eq_true_eq, List.all_eq_true, and_assoc]

theorem length_eq_ten (l : List Nat) (h : l.length = 10) :
    ∃ a0 a1 a2 a3 a4 a5 a6 a7 a8 a9, l = [a0, a1, a2, a3, a4, a5, a6, a7, a8, a9] := by
  match l, h with
  | [a0, a1, a2, a3, a4, a5, a6, a7, a8, a9], _ => exact ⟨_, _, _, _, _, _, _, _, _, _, rfl⟩

theorem expectedEvent_eq (sel : List Nat) (e : Event) (a0 a1 a2 a3 a4 a5 a6 a7 a8 a9 : Nat)
    (hh : e.header = [a0, a1, a2, a3, a4, a5, a6, a7, a8, a9]) :
    expectedEvent sel e =
      { header := [a0, a1, a2, a3, a6, a7, a8, a9], rows := e.subdets.flatMap (subRows sel) } := by
  unfold expectedEvent
  rw [hh]
  rfl

theorem FULL_EVENT_ne_DATA_SEPERATOR : FULL_EVENT ≠ DATA_SEPERATOR := by decide

theorem skip1_bind {β : Type} (f : Unit → P β) (a : Nat) (ws : List Nat) :
    (skip 1 >>= f).run (a :: ws) = (f ()).run ws := skip_bind f 1 [a] ws rfl
theorem skip2_bind {β : Type} (f : Unit → P β) (a b : Nat) (ws : List Nat) :
    (skip 2 >>= f).run (a :: b :: ws) = (f ()).run ws := skip_bind f 2 [a, b] ws rfl
theorem skip3_bind {β : Type} (f : Unit → P β) (a b c : Nat) (ws : List Nat) :
    (skip 3 >>= f).run (a :: b :: c :: ws) = (f ()).run ws := skip_bind f 3 [a, b, c] ws rfl

theorem pure_bind_run {α β : Type} (a : α) (f : α → P β) (ws : List Nat) :
    (pure a >>= f).run ws = (f a).run ws := rfl

theorem bind_assoc_run {α β γ : Type} (p : P α) (f : α → P β) (g : β → P γ) (ws : List Nat) :
    ((p >>= f) >>= g).run ws = (p >>= fun a => f a >>= g).run ws := by
  simp only [run_bind]
  cases p.run ws <;> rfl

/-- an event without a block separator in front -/
theorem readEvent_enc (fuel : Nat) (sel : List Nat) (e : Event) (rest : List Nat)
    (h : e.wf = true) (hf : (encEvent e).length ≤ fuel) :
    (readEvent fuel sel).run (encEvent e ++ rest) = .ok (expectedEvent sel e) rest := by
  obtain ⟨hsub, hw, hlen, hhead⟩ := (Event.wf_iff e).mp h
  obtain ⟨a0, a1, a2, a3, a4, a5, a6, a7, a8, a9, hh⟩ := length_eq_ten _ hhead
  have hlen' := encEvent_length e
  have hW : 7 + e.status.length + 10 + (e.subdets.flatMap encSubDet).length < W := by
    rw [encEvent_eq] at hw; exact wordsOk_second _ _ _ hw
  have hloop := loopLeft_flatMap (readSubDet fuel sel) encSubDet (subRows sel) e.subdets rest fuel
    (fun d hd rr => readSubDet_enc fuel sel d rr (hsub d hd) (by
      have := mem_length_le_flatMap_length encSubDet e.subdets d hd; omega))
    (fun d _ => encSubDet_length_pos d)
    (by omega)
    (by have := length_le_flatMap_length encSubDet e.subdets (fun d _ => encSubDet_length_pos d); omega)
  rw [expectedEvent_eq sel e _ _ _ _ _ _ _ _ _ _ hh, encEvent_eq, hh]
  unfold readEvent
  simp only [List.cons_append, List.append_assoc, List.nil_append, read_bind, skip_len_bind, ne_eq,
    not_true_eq_false, if_false, if_neg FULL_EVENT_ne_DATA_SEPERATOR, pure_bind_run,
    skip1_bind, skip2_bind, sub32_add_left _ _ hW]
  rw [bind_ok _ _ _ _ _ hloop]
  rfl

/-- an event preceded by the 4-word block separator -/
theorem readEvent_sep (fuel : Nat) (sel : List Nat) (w1 w2 w3 : Nat) (ws : List Nat) :
    (readEvent fuel sel).run (DATA_SEPERATOR :: w1 :: w2 :: w3 :: FULL_EVENT :: ws) =
      (readEvent fuel sel).run (FULL_EVENT :: ws) := by
  unfold readEvent
  simp only [read_bind, if_true, if_neg FULL_EVENT_ne_DATA_SEPERATOR, pure_bind_run,
    bind_assoc_run, skip3_bind]


/-! ### the event loop -/

/-- `ws` decodes to `R` (consuming everything) with every fuel exceeding its length -/
def Good (sel : List Nat) (ws : List Nat) (R : List EventRec) : Prop :=
  ∀ fuel, ws.length < fuel → (readEvents sel fuel).run ws = .ok R []

theorem Good_nil (sel : List Nat) : Good sel [] [] := by
  intro fuel hf
  cases fuel with
  | zero => simp at hf
  | succ f =>
    unfold readEvents
    rfl

theorem readEvents_cons (sel : List Nat) (f : Nat) (w : Nat) (ws : List Nat) :
    (readEvents sel (f + 1)).run (w :: ws) =
      (readEvent (f + 1) sel >>= fun ev => readEvents sel f >>= fun more => pure (ev :: more)).run
        (w :: ws) := by
  rw [readEvents]
  rfl

theorem Good_event (sel : List Nat) (e : Event) (rest : List Nat) (R : List EventRec)
    (h : e.wf = true) (hR : Good sel rest R) :
    Good sel (encEvent e ++ rest) (expectedEvent sel e :: R) := by
  intro fuel hf
  have hpos := encEvent_length_pos e
  rw [List.length_append] at hf
  cases fuel with
  | zero => omega
  | succ f =>
    have h1 := readEvent_enc (f + 1) sel e rest h (by omega)
    have h2 := hR f (by omega)
    rw [encEvent_eq] at h1 ⊢
    rw [List.cons_append, readEvents_cons, ← List.cons_append, bind_ok _ _ _ _ _ h1,
      bind_ok _ _ _ _ _ h2]
    rfl

theorem Good_sep_event (sel : List Nat) (w1 w2 w3 : Nat) (e : Event) (rest : List Nat)
    (R : List EventRec) (h : e.wf = true) (hR : Good sel rest R) :
    Good sel (DATA_SEPERATOR :: w1 :: w2 :: w3 :: (encEvent e ++ rest)) (expectedEvent sel e :: R) := by
  intro fuel hf
  have hpos := encEvent_length_pos e
  simp only [List.length_cons, List.length_append] at hf
  cases fuel with
  | zero => omega
  | succ f =>
    have h1 := readEvent_enc (f + 1) sel e rest h (by omega)
    have h2 := hR f (by omega)
    rw [encEvent_eq] at h1 ⊢
    rw [List.cons_append] at h1 ⊢
    rw [readEvents_cons, bind_ok _ _ _ _ _ ((readEvent_sep _ _ _ _ _ _).trans h1),
      bind_ok _ _ _ _ _ h2]
    rfl

theorem Good_events (sel : List Nat) (es : List Event) (rest : List Nat) (R : List EventRec)
    (h : ∀ e ∈ es, e.wf = true) (hR : Good sel rest R) :
    Good sel (es.flatMap encEvent ++ rest) (es.map (expectedEvent sel) ++ R) := by
  induction es with
  | nil => exact hR
  | cons e es ih =>
    simp only [List.flatMap_cons, List.map_cons, List.append_assoc, List.cons_append]
    exact Good_event sel e _ _ (h e List.mem_cons_self)
      (ih (fun x hx => h x (List.mem_cons_of_mem _ hx)))

theorem Block.wf_iff (b : Block) : b.wf = true →
    (∀ e ∈ b.events, e.wf = true) ∧ b.events ≠ [] := by
  intro h
  simp only [Block.wf, Bool.and_eq_true, decide_eq_true_eq, List.all_eq_true, and_assoc,
    Bool.not_eq_true', List.isEmpty_eq_false_iff] at h
  exact ⟨h.1, h.2.1⟩

theorem Good_block (sel : List Nat) (b : Block) (rest : List Nat) (R : List EventRec)
    (h : b.wf = true) (hR : Good sel rest R) :
    Good sel (encBlock b ++ rest) (b.events.map (expectedEvent sel) ++ R) := by
  obtain ⟨hev, hne⟩ := Block.wf_iff b h
  unfold encBlock
  cases hes : b.events with
  | nil => exact absurd hes hne
  | cons e es =>
    rw [hes] at hev
    simp only [List.flatMap_cons, List.map_cons, List.append_assoc, List.cons_append,
      List.nil_append]
    exact Good_sep_event sel _ _ _ e _ _ (hev e List.mem_cons_self)
      (Good_events sel es rest R (fun x hx => hev x (List.mem_cons_of_mem _ hx)) hR)

theorem Good_blocks (sel : List Nat) (bs : List Block) (h : ∀ b ∈ bs, b.wf = true) :
    Good sel (encBlocks bs) ((bs.flatMap (·.events)).map (expectedEvent sel)) := by
  unfold encBlocks
  induction bs with
  | nil => exact Good_nil sel
  | cons b bs ih =>
    simp only [List.flatMap_cons, List.map_append]
    exact Good_block sel b _ _ (h b List.mem_cons_self)
      (ih (fun x hx => h x (List.mem_cons_of_mem _ hx)))

/-! ### facts about the intended decode -/

theorem expectedEvent_rows (sel : List Nat) (e : Event) :
    (expectedEvent sel e).rows = e.subdets.flatMap (subRows sel) := rfl

theorem robRows_unknown (det : Nat) (data : List Nat)
    (h : [MDC, TOF, EMC, MUC, TRG, EF].contains det = false) : robRows det data = [] := by
  simp only [List.contains_eq_mem, List.mem_cons, List.not_mem_nil, or_false,
    decide_eq_false_iff_not, not_or] at h
  obtain ⟨h1, h2, h3, h4, h5, h6⟩ := h
  unfold robRows
  rw [if_neg h1, if_neg h2, if_neg h3, if_neg h4, if_neg (by intro hc; cases hc <;> contradiction)]

/-- untagged rows of one sub-detector fragment -/
def detRows (d : SubDet) : List Row :=
  d.roses.flatMap (fun s => s.robs.flatMap (fun r => robRows d.det r.data))

theorem subRows_eq (sel : List Nat) (d : SubDet) :
    subRows sel d = if sel.contains d.det then (detRows d).map (fun row => (d.det, row)) else [] := rfl

theorem flatMap_const_nil {α β : Type} (l : List α) : l.flatMap (fun _ => ([] : List β)) = [] := by
  induction l with
  | nil => rfl
  | cons a l ih => rw [List.flatMap_cons, ih]; rfl

theorem detRows_unknown (d : SubDet)
    (h : [MDC, TOF, EMC, MUC, TRG, EF].contains d.det = false) : detRows d = [] := by
  unfold detRows
  simp only [robRows_unknown d.det _ h, flatMap_const_nil]

theorem tag_filter (t det : Nat) (l : List Row) :
    ((l.map (fun row => (t, row))).filter (fun r => r.1 == det)).map (·.2) =
      if t = det then l else [] := by
  induction l with
  | nil => split <;> rfl
  | cons a l ih =>
    by_cases h : t = det
    · rw [if_pos h] at ih ⊢
      rw [List.map_cons, List.filter_cons_of_pos (by simpa using h), List.map_cons, ih]
    · rw [if_neg h] at ih ⊢
      rw [List.map_cons, List.filter_cons_of_neg (by simpa using h), ih]

theorem rowsOf_expectedEvent (sel : List Nat) (e : Event) (det : Nat) :
    rowsOf det (expectedEvent sel e) =
      e.subdets.flatMap (fun d => if d.det = det ∧ sel.contains d.det = true then detRows d else []) := by
  unfold rowsOf
  rw [expectedEvent_rows]
  induction e.subdets with
  | nil => rfl
  | cons d ds ih =>
    rw [List.flatMap_cons, List.flatMap_cons, List.filter_append, List.map_append, ih]
    congr 1
    rw [subRows_eq]
    cases hs : sel.contains d.det with
    | true =>
      rw [if_pos rfl, tag_filter]
      by_cases h : d.det = det
      · rw [if_pos h, if_pos ⟨h, rfl⟩]
      · rw [if_neg h, if_neg (fun hc => h hc.1)]
    | false =>
      rw [if_neg (by simp), if_neg (by simp)]
      rfl

end Pybes3Verif.Raw.Nest
