import Pybes3Verif.Proofs.C10Defs
namespace Pybes3Verif.C10
open Pybes3Verif.Util Pybes3Verif.Gen Pybes3Verif.Gen.Reid Pybes3Verif.Gen.DigiId

theorem rankTof_b : ∀ i, i < 16384 → rankOk tbl_tof_raw rank_tof_raw sorted_tof_raw 450 i = true :=
  forall_lt_of_allBlock (rankOk tbl_tof_raw rank_tof_raw sorted_tof_raw 450) 16384 14 (by decide +kernel) (by decide)

end Pybes3Verif.C10
