import Pybes3Verif.Model.TObjArray
import Pybes3Verif.Spec.RootStream
/-!
Helper lemmas for C01 (TObjArray collection streams): stepping lemmas for the cursor parser `P`,
big-endian encode/decode, the byte-count mask arithmetic, zero-terminated strings, `times`, and the
`dictSet` fold used by `processDigi`.
-/
namespace Pybes3Verif.Root
open Pybes3Verif.Root.Spec

/-! ### parser stepping -/

theorem run_bind {α β : Type} (p : P α) (f : α → P β) (bs : List Nat) :
    (p >>= f).run bs = match p.run bs with | some (a, r) => (f a).run r | none => none := rfl

theorem bind_ok {α β : Type} (p : P α) (f : α → P β) (bs : List Nat) (a : α) (r : List Nat)
    (h : p.run bs = some (a, r)) : (p >>= f).run bs = (f a).run r := by
  rw [run_bind, h]

theorem pure_run {α : Type} (a : α) (bs : List Nat) : (pure a : P α).run bs = some (a, bs) := rfl

theorem take_append (a rest : List Nat) : (take a.length).run (a ++ rest) = some (a, rest) := by
  show (if a.length ≤ (a ++ rest).length then some ((a ++ rest).take a.length, (a ++ rest).drop a.length) else none) = _
  rw [if_pos (by rw [List.length_append]; omega), List.take_left, List.drop_left]

theorem take_append' (n : Nat) (a rest : List Nat) (h : a.length = n) :
    (take n).run (a ++ rest) = some (a, rest) := by
  subst h; exact take_append a rest

theorem skip_append (a rest : List Nat) : (skip a.length).run (a ++ rest) = some ((), rest) := by
  show (if a.length ≤ (a ++ rest).length then some ((), (a ++ rest).drop a.length) else none) = _
  rw [if_pos (by rw [List.length_append]; omega), List.drop_left]

theorem skip_append' (n : Nat) (a rest : List Nat) (h : a.length = n) :
    (skip n).run (a ++ rest) = some ((), rest) := by
  subst h; exact skip_append a rest

theorem skip_one (b : Nat) (rest : List Nat) : (skip 1).run (b :: rest) = some ((), rest) :=
  skip_append' 1 [b] rest rfl

/-! ### big-endian bytes -/

theorem be_succ (n v : Nat) : be (n + 1) v = (v / 256 ^ n) % 256 :: be n v := by
  unfold be
  rw [List.range_succ_eq_map, List.map_cons, List.map_map]
  congr 1
  apply List.map_congr_left
  intro i _
  show v / 256 ^ (n + 1 - 1 - (i + 1)) % 256 = v / 256 ^ (n - 1 - i) % 256
  have : n + 1 - 1 - (i + 1) = n - 1 - i := by omega
  rw [this]

theorem be_zero (v : Nat) : be 0 v = [] := rfl

theorem be_length' (n v : Nat) : (be n v).length = n := by
  unfold be; rw [List.length_map, List.length_range]

theorem foldl_be (n v acc : Nat) :
    (be n v).foldl (fun acc b => acc * 256 + b) acc = acc * 256 ^ n + v % 256 ^ n := by
  induction n generalizing acc with
  | zero => rw [be_zero, List.foldl_nil, Nat.pow_zero, Nat.mod_one]; omega
  | succ n ih =>
    rw [be_succ, List.foldl_cons, ih, Nat.mod_pow_succ, Nat.pow_succ, Nat.add_mul, Nat.mul_assoc,
      Nat.mul_comm 256 (256 ^ n), Nat.mul_comm (v / 256 ^ n % 256) (256 ^ n)]
    omega

theorem beVal_be_mod (n v : Nat) : beVal (be n v) = v % 256 ^ n := by
  unfold beVal; rw [foldl_be]; omega

theorem beVal_be' (n v : Nat) (h : v < 256 ^ n) : beVal (be n v) = v := by
  rw [beVal_be_mod, Nat.mod_eq_of_lt h]

theorem pow256_2 : 256 ^ 2 = 65536 := rfl
theorem pow256_4 : 256 ^ 4 = 4294967296 := rfl

theorem u32_be (v : Nat) (rest : List Nat) (h : v < 4294967296) :
    u32.run (be 4 v ++ rest) = some (v, rest) := by
  unfold u32
  rw [bind_ok _ _ _ _ _ (take_append' 4 _ _ (be_length' 4 v)), pure_run,
    beVal_be' 4 v (by rw [pow256_4]; exact h)]

/-! ### byte-count mask -/

theorem and_two_pow_ne (c i : Nat) (h : c < 2 ^ i) : (c + 2 ^ i) &&& 2 ^ i ≠ 0 := by
  intro h0
  have h1 : ((c + 2 ^ i) &&& 2 ^ i).testBit i = true := by
    rw [Nat.testBit_and, Nat.add_comm, Nat.testBit_two_pow_add_eq, Nat.testBit_lt_two_pow h,
      Nat.testBit_two_pow_self]; rfl
  rw [h0, Nat.zero_testBit] at h1
  exact Bool.noConfusion h1

theorem kByteCountMask_eq : kByteCountMask = 2 ^ 30 := rfl

theorem mask_and (c : Nat) (h : c < kByteCountMask) : (c + kByteCountMask) &&& kByteCountMask ≠ 0 := by
  rw [kByteCountMask_eq] at h ⊢
  exact and_two_pow_ne c 30 h

theorem mask_sub (c : Nat) : (c + kByteCountMask) - kByteCountMask = c := Nat.add_sub_cancel ..

theorem mask_lt (c : Nat) (h : c < kByteCountMask) : c + kByteCountMask < 4294967296 := by
  have hm : kByteCountMask = 1073741824 := rfl
  rw [hm] at h ⊢; omega

theorem ite_run {α : Type} (c : Prop) [Decidable c] (p q : P α) (bs : List Nat) :
    (if c then p else q).run bs = if c then p.run bs else q.run bs := by
  split <;> rfl

theorem readNBytes_eq : readNBytes =
    (u32 >>= fun c => if c &&& kByteCountMask = 0 then fail else pure (c - kByteCountMask)) := rfl

/-- stated for a *variable* word `v` (the kernel must never be led to evaluate `c + 0x40000000`
in unary while reducing the `.run` projection of a stuck `ite`) -/
theorem readNBytes_ok (v : Nat) (rest : List Nat) (hv : v < 4294967296)
    (hm : v &&& kByteCountMask ≠ 0) :
    readNBytes.run (be 4 v ++ rest) = some (v - kByteCountMask, rest) := by
  rw [readNBytes_eq, bind_ok _ _ _ _ _ (u32_be v rest hv), if_neg hm, pure_run]

theorem readNBytes_be (c : Nat) (rest : List Nat) (h : c < kByteCountMask) :
    readNBytes.run (be 4 (c + kByteCountMask) ++ rest) = some (c, rest) := by
  have := readNBytes_ok (c + kByteCountMask) rest (mask_lt c h) (mask_and c h)
  rw [mask_sub] at this
  exact this

/-! ### zero-terminated strings -/

theorem takeWhile_nz (nm rest : List Nat) (h : ∀ b ∈ nm, 0 < b) :
    (nm ++ 0 :: rest).takeWhile (· ≠ 0) = nm := by
  induction nm with
  | nil => rw [List.nil_append, List.takeWhile_cons]; simp
  | cons b nm ih =>
    have hb : 0 < b := h b (List.mem_cons_self)
    rw [List.cons_append, List.takeWhile_cons, if_pos (by simp; omega),
      ih (fun x hx => h x (List.mem_cons_of_mem _ hx))]

theorem skipCStr_run (nm rest : List Nat) (h : ∀ b ∈ nm, 0 < b) :
    skipCStr.run (nm ++ 0 :: rest) = some ((), rest) := by
  show (if ((nm ++ 0 :: rest).takeWhile (· ≠ 0)).length < (nm ++ 0 :: rest).length
      then some ((), (nm ++ 0 :: rest).drop (((nm ++ 0 :: rest).takeWhile (· ≠ 0)).length + 1)) else none) = _
  rw [takeWhile_nz nm rest h, if_pos (by rw [List.length_append, List.length_cons]; omega)]
  have : (nm ++ 0 :: rest) = (nm ++ [0]) ++ rest := by rw [List.append_assoc]; rfl
  rw [this, List.drop_left' (by rw [List.length_append]; rfl)]

/-! ### `times` -/

theorem times_zero {α : Type} (p : P α) : times p 0 = pure [] := rfl
theorem times_succ {α : Type} (p : P α) (n : Nat) :
    times p (n + 1) = (do let a ← p; let r ← times p n; pure (a :: r)) := rfl

/-- if `p` reads exactly one encoded element, `times p` reads exactly a concatenation of them -/
theorem times_flatMap {α β : Type} (p : P β) (enc : α → List Nat) (val : α → β) (xs : List α)
    (hp : ∀ x ∈ xs, ∀ rest, p.run (enc x ++ rest) = some (val x, rest)) (rest : List Nat) :
    (times p xs.length).run (xs.flatMap enc ++ rest) = some (xs.map val, rest) := by
  induction xs with
  | nil => rfl
  | cons x xs ih =>
    rw [List.length_cons, times_succ, List.flatMap_cons, List.append_assoc,
      bind_ok _ _ _ _ _ (hp x List.mem_cons_self _),
      bind_ok _ _ _ _ _ (ih (fun y hy => hp y (List.mem_cons_of_mem _ hy))), pure_run, List.map_cons]

/-- `times_flatMap` specialised to (object header, element) pairs, with every term in the
syntactic normal form produced by `simp only [encTObjArray, List.append_assoc]` (no function
variable, hence no β-redex inside an argument of `P.run`) -/
theorem times_objs {ε : Type} (p : P ε) (encE : ε → List Nat) (objs : List (ObjHdr × ε))
    (hp : ∀ o ∈ objs, ∀ rest, p.run (encObjHdr o.1 ++ (encE o.2 ++ rest)) = some (o.2, rest))
    (rest : List Nat) :
    (times p objs.length).run (List.flatMap (fun x => encObjHdr x.fst ++ encE x.snd) objs ++ rest) =
      some (List.map (fun x => x.snd) objs, rest) := by
  induction objs with
  | nil => rfl
  | cons o os ih =>
    simp only [List.flatMap_cons, List.append_assoc, List.length_cons, List.map_cons]
    rw [times_succ, bind_ok _ _ _ _ _ (hp o List.mem_cons_self _),
      bind_ok _ _ _ _ _ (ih (fun y hy => hp y (List.mem_cons_of_mem _ hy))), pure_run]

/-! ### words given as abstract byte lists

The stepping lemmas below are stated for *abstract* words (`w : List Nat` with a length and a
`beVal` hypothesis), so that neither `whnf` nor the kernel can be led to evaluate
`count + 0x40000000` in unary; they are instantiated with `be 4 (count + kByteCountMask)` afterwards. -/

theorem u32_words (w rest : List Nat) (h : w.length = 4) : u32.run (w ++ rest) = some (beVal w, rest) := by
  unfold u32
  rw [bind_ok _ _ _ _ _ (take_append' 4 _ _ h), pure_run]

theorem readNBytes_words (w rest : List Nat) (hl : w.length = 4) (hm : beVal w &&& kByteCountMask ≠ 0) :
    readNBytes.run (w ++ rest) = some (beVal w - kByteCountMask, rest) := by
  rw [readNBytes_eq, bind_ok _ _ _ _ _ (u32_words w rest hl), if_neg hm, pure_run]

theorem beVal_mask (c : Nat) (h : c < kByteCountMask) :
    beVal (be 4 (c + kByteCountMask)) &&& kByteCountMask ≠ 0 := by
  rw [beVal_be' 4 _ (by rw [pow256_4]; exact mask_lt c h)]
  exact mask_and c h

theorem skipObjHeader_eq : skipObjHeader =
    (readNBytes >>= fun _ => u32 >>= fun tag => if tag = kNewClassTag then skipCStr else pure ()) := rfl

theorem skipObjHeader_new (w1 w2 nm rest : List Nat) (h1 : w1.length = 4)
    (hm : beVal w1 &&& kByteCountMask ≠ 0) (h2 : w2.length = 4) (ht : beVal w2 = kNewClassTag)
    (hnm : ∀ b ∈ nm, 0 < b) :
    skipObjHeader.run (w1 ++ (w2 ++ (nm ++ 0 :: rest))) = some ((), rest) := by
  rw [skipObjHeader_eq, bind_ok _ _ _ _ _ (readNBytes_words w1 _ h1 hm),
    bind_ok _ _ _ _ _ (u32_words w2 _ h2), if_pos ht]
  exact skipCStr_run nm rest hnm

theorem skipObjHeader_ref (w1 w2 rest : List Nat) (h1 : w1.length = 4)
    (hm : beVal w1 &&& kByteCountMask ≠ 0) (h2 : w2.length = 4) (ht : beVal w2 ≠ kNewClassTag) :
    skipObjHeader.run (w1 ++ (w2 ++ rest)) = some ((), rest) := by
  rw [skipObjHeader_eq, bind_ok _ _ _ _ _ (readNBytes_words w1 _ h1 hm),
    bind_ok _ _ _ _ _ (u32_words w2 _ h2), if_neg ht, pure_run]

theorem skipTObject_eq : skipTObject =
    (skip 2 >>= fun _ => skip 4 >>= fun _ => u32 >>= fun bits =>
      if bits &&& kIsReferenced ≠ 0 then skip 2 else pure ()) := rfl

theorem skipTObject_words (s1 s2 wb rest : List Nat) (h1 : s1.length = 2) (h2 : s2.length = 4)
    (h3 : wb.length = 4) :
    skipTObject.run (s1 ++ (s2 ++ (wb ++ rest))) =
      (if beVal wb &&& kIsReferenced ≠ 0 then skip 2 else pure ()).run rest := by
  rw [skipTObject_eq, bind_ok _ _ _ _ _ (skip_append' 2 s1 _ h1),
    bind_ok _ _ _ _ _ (skip_append' 4 s2 _ h2), bind_ok _ _ _ _ _ (u32_words wb _ h3)]

theorem readTObjArray_eq {ε : Type} (elem : P ε) : readTObjArray elem =
    (readNBytes >>= fun _ => skip 2 >>= fun _ => skip 2 >>= fun _ => skip 4 >>= fun _ =>
      skip 4 >>= fun _ => skip 1 >>= fun _ => u32 >>= fun n => skip 4 >>= fun _ =>
        times (do skipObjHeader; elem) n) := rfl

theorem readTObjArray_words {ε : Type} (elem : P ε) (w0 s1 s2 s3 s4 s5 wn s6 tail : List Nat)
    (h0 : w0.length = 4) (hm : beVal w0 &&& kByteCountMask ≠ 0) (h1 : s1.length = 2)
    (h2 : s2.length = 2) (h3 : s3.length = 4) (h4 : s4.length = 4) (h5 : s5.length = 1)
    (hn : wn.length = 4) (h6 : s6.length = 4) :
    (readTObjArray elem).run (w0 ++ (s1 ++ (s2 ++ (s3 ++ (s4 ++ (s5 ++ (wn ++ (s6 ++ tail)))))))) =
      (times (do skipObjHeader; elem) (beVal wn)).run tail := by
  rw [readTObjArray_eq, bind_ok _ _ _ _ _ (readNBytes_words w0 _ h0 hm),
    bind_ok _ _ _ _ _ (skip_append' 2 s1 _ h1), bind_ok _ _ _ _ _ (skip_append' 2 s2 _ h2),
    bind_ok _ _ _ _ _ (skip_append' 4 s3 _ h3), bind_ok _ _ _ _ _ (skip_append' 4 s4 _ h4),
    bind_ok _ _ _ _ _ (skip_append' 1 s5 _ h5), bind_ok _ _ _ _ _ (u32_words wn _ hn),
    bind_ok _ _ _ _ _ (skip_append' 4 s6 _ h6)]

/-! ### `dictSet` folds -/

theorem dictSet_fresh {α : Type} (d : List (String × α)) (k : String) (v : α)
    (h : k ∉ d.map (·.1)) : dictSet d k v = d ++ [(k, v)] := by
  unfold dictSet
  rw [if_neg]
  intro hany
  rw [List.any_eq_true] at hany
  obtain ⟨x, hx, hxk⟩ := hany
  apply h
  rw [List.mem_map]
  exact ⟨x, hx, by simpa using hxk⟩

theorem foldl_dictSet_fresh {α : Type} (l acc : List (String × α))
    (h : ((acc ++ l).map (·.1)).Nodup) :
    l.foldl (fun a (nc : String × α) => dictSet a nc.1 nc.2) acc = acc ++ l := by
  induction l generalizing acc with
  | nil => rw [List.foldl_nil, List.append_nil]
  | cons x l ih =>
    have hx : x.1 ∉ acc.map (·.1) := by
      rw [List.map_append, List.map_cons] at h
      have := (List.nodup_append.1 h).2.2
      intro hm
      exact this _ hm _ (List.mem_cons_self) rfl
    rw [List.foldl_cons, dictSet_fresh _ _ _ hx]
    have e : acc ++ x :: l = (acc ++ [(x.1, x.2)]) ++ l := by
      rw [List.append_assoc]; rfl
    rw [ih _ (by rw [← e]; exact h), ← e]

/-- the body of the `processDigi` fold, with projections instead of pattern matching -/
def digiStep {α : Type} (acc : List (String × Col α)) (x : String × Col α) : List (String × Col α) :=
  if x.1 == "TRawData" then
    match x.2 with
    | .record sub => sub.foldl (fun a nc => dictSet a nc.1 nc.2) acc
    | .leaf _ => acc
  else dictSet acc x.1 x.2

theorem processDigi_eq {α : Type} (fields : List (String × Col α)) :
    processDigi fields = fields.foldl digiStep [] := by
  rfl

theorem digiStep_raw {α : Type} (acc sub : List (String × Col α)) :
    digiStep acc ("TRawData", Col.record sub) = sub.foldl (fun a nc => dictSet a nc.1 nc.2) acc := by
  unfold digiStep
  rw [if_pos (beq_self_eq_true _)]

theorem foldl_digiStep_fresh {α : Type} (l acc : List (String × Col α))
    (hr : "TRawData" ∉ l.map (·.1)) (h : ((acc ++ l).map (·.1)).Nodup) :
    l.foldl digiStep acc = acc ++ l := by
  have : l.foldl digiStep acc = l.foldl (fun a nc => dictSet a nc.1 nc.2) acc := by
    clear h
    induction l generalizing acc with
    | nil => rfl
    | cons x l ih =>
      have hx : x.1 ≠ "TRawData" := by
        intro e; apply hr; rw [List.map_cons, e]; exact List.mem_cons_self
      have hl : "TRawData" ∉ l.map (·.1) := by
        intro hm; apply hr; rw [List.map_cons]; exact List.mem_cons_of_mem _ hm
      have hstep : digiStep acc x = dictSet acc x.1 x.2 := by
        unfold digiStep
        rw [if_neg (by simpa using hx)]
      rw [List.foldl_cons, List.foldl_cons, hstep, ih _ hl]
  rw [this, foldl_dictSet_fresh l acc h]

/-! ### well-formedness unpacked, closed numerals -/

theorem ObjHdr.wf_some {count refTag : Nat} {nm : List Nat}
    (hw : (ObjHdr.mk count (some nm) refTag).wf = true) :
    count < kByteCountMask ∧ ∀ b ∈ nm, 0 < b := by
  simp only [ObjHdr.wf, Bool.and_eq_true, decide_eq_true_eq, List.all_eq_true] at hw
  exact ⟨hw.1, fun b hb => (hw.2 b hb).1⟩

theorem ObjHdr.wf_none {count refTag : Nat}
    (hw : (ObjHdr.mk count none refTag).wf = true) :
    count < kByteCountMask ∧ refTag < 4294967296 ∧ refTag ≠ kNewClassTag := by
  simp only [ObjHdr.wf, Bool.and_eq_true, decide_eq_true_eq] at hw
  exact ⟨hw.1, hw.2.1, hw.2.2⟩

theorem ArrHdr.wf_iff (a : ArrHdr) (hw : a.wf = true) :
    a.count < kByteCountMask ∧ a.version < 65536 ∧ a.tobjVersion < 65536 ∧
      a.uniqueID < 4294967296 ∧ a.bits < 4294967296 ∧ a.lowerBound < 4294967296 := by
  simp only [ArrHdr.wf, Bool.and_eq_true, decide_eq_true_eq] at hw
  omega

theorem kNewClassTag_lt : kNewClassTag < 256 ^ 4 := by
  have h : kNewClassTag = 4294967295 := rfl
  rw [h, pow256_4]; omega

end Pybes3Verif.Root
