import Pybes3Verif.Model.RawFile
import Pybes3Verif.Spec.RawFormat
/-! Byte-level encoder of a raw file (Lean twin of `tools/lib/rawfile.py::enc_file`). -/
namespace Pybes3Verif.RawFile.Spec
open Pybes3Verif.Raw Pybes3Verif.Raw.Spec Pybes3Verif.RawFile

/-- little-endian bytes of a 32-bit word -/
def leBytes (w : Nat) : List Nat := [w % 256, w / 256 % 256, w / 65536 % 256, w / 16777216 % 256]
def wordsToBytes (ws : List Nat) : List Nat := ws.flatMap leBytes

/-- text padded with blanks to a multiple of four bytes -/
def padText (t : List Nat) : List Nat := t ++ List.replicate (padded t.length - t.length) 32

structure FileSpec where
  name : List Nat            -- bytes of the application name
  tag : List Nat
  header : List Nat          -- the 7 words after FILE_START
  params : List Nat          -- the 8 words after RUN_PARAMS
  tail : List Nat            -- 3 + 1 (entries) + 4 words between FILE_TAIL_START and FILE_END
  blocks : List Block

def encFile (f : FileSpec) : List Nat :=
  wordsToBytes (FILE_START :: f.header) ++
  wordsToBytes [FILE_NAME, f.name.length] ++ padText f.name ++ wordsToBytes [f.tag.length] ++ padText f.tag ++
  wordsToBytes (RUN_PARAMS :: f.params) ++
  wordsToBytes (f.blocks.flatMap (fun b => [DATA_SEPERATOR, b.w1, b.w2, 4 * (b.events.flatMap encEvent).length] ++ b.events.flatMap encEvent)) ++
  wordsToBytes (FILE_TAIL_START :: f.tail ++ [FILE_END])

/-- a block as the file stores it: the separator header's last word is the payload size in bytes -/
def blockOnDisk (b : Block) : Block := { b with w3 := 4 * (b.events.flatMap encEvent).length }

def FileSpec.wf (f : FileSpec) : Bool :=
  f.header.length == 7 && f.params.length == 8 && f.tail.length == 8 &&
  wordsOk f.header && wordsOk f.params && wordsOk f.tail &&
  f.name.all (fun b => decide (b < 256)) && f.tag.all (fun b => decide (b < 256)) &&
  decide (f.name.length < W) && decide (f.tag.length < W) &&
  (f.blocks.map blockOnDisk).all Block.wf && decide ((encFile f).length < W)

end Pybes3Verif.RawFile.Spec
