import Pybes3Verif.Model.RawParser
/-!
Specification of the BES3 raw event format (DESIGN.md §6 C03): datatypes, encoders and the *intended*
decode `expected`, stated without reference to the parser.  Python twin: `tools/lib/rawfile.py`
(checked against this file on every run by decoding its output with the Lean model).
-/
namespace Pybes3Verif.Raw.Spec
open Pybes3Verif.Raw

structure Rob where
  data : List Nat            -- payload words (digis)
  status : List Nat          -- ROD status words
  statusFirst : Bool         -- status before the data (position word 0) or after it
  posWord : Nat              -- the non-zero position word used when status comes last
  robStatus : List Nat
  robSpec : List Nat
  rodExtra : List Nat        -- the 7 remaining ROD header words
  src : Nat
  deriving Repr

structure Ros where
  robs : List Rob
  status : List Nat
  spec : List Nat            -- exactly 3 special words
  src : Nat
  deriving Repr

structure SubDet where
  det : Nat                  -- 16-bit sub-detector id (upper half of the source identifier)
  srcLow : Nat
  roses : List Ros
  status : List Nat
  spec : List Nat
  deriving Repr

structure Event where
  header : List Nat          -- the 10 special words
  subdets : List SubDet
  status : List Nat
  src : Nat
  deriving Repr

/-- a block: separator header (4 words) followed by one or several events -/
structure Block where
  w1 : Nat
  w2 : Nat
  w3 : Nat
  events : List Event
  deriving Repr

def encRob (r : Rob) : List Nat :=
  let body := if r.statusFirst then r.status ++ r.data else r.data ++ r.status
  let hsize := 7 + r.robStatus.length + r.robSpec.length
  let total := hsize + 9 + body.length + 3
  [ROB, total, hsize, FORMAT_VERSION, r.src, r.robStatus.length] ++ r.robStatus ++ [r.robSpec.length] ++ r.robSpec
    ++ [ROD, 9] ++ r.rodExtra ++ body ++ [r.status.length, r.data.length, if r.statusFirst then 0 else r.posWord]

def encRos (s : Ros) : List Nat :=
  let inner := s.robs.flatMap encRob
  let hsize := 7 + s.status.length + 3
  [ROS, hsize + inner.length, hsize, FORMAT_VERSION, s.src, s.status.length] ++ s.status ++ [3] ++ s.spec ++ inner

def encSubDet (d : SubDet) : List Nat :=
  let inner := d.roses.flatMap encRos
  let hsize := 7 + d.status.length + d.spec.length
  [SUB_DETECTOR, hsize + inner.length, hsize, FORMAT_VERSION, d.det * 65536 + d.srcLow, d.status.length] ++ d.status
    ++ [d.spec.length] ++ d.spec ++ inner

def encEvent (e : Event) : List Nat :=
  let inner := e.subdets.flatMap encSubDet
  let hsize := 7 + e.status.length + 10
  [FULL_EVENT, hsize + inner.length, hsize, FORMAT_VERSION, e.src, e.status.length] ++ e.status ++ [10] ++ e.header ++ inner

def encBlock (b : Block) : List Nat := [DATA_SEPERATOR, b.w1, b.w2, b.w3] ++ b.events.flatMap encEvent

def encBlocks (bs : List Block) : List Nat := bs.flatMap encBlock

/-! ### well-formedness (decidable): what a writer of the format guarantees -/

def wordsOk (ws : List Nat) : Bool := ws.all (fun w => decide (w < W))

def Rob.wf (r : Rob) : Bool :=
  wordsOk (encRob r) && decide ((encRob r).length < W) && decide (r.rodExtra.length = 7) &&
    (r.statusFirst || decide (r.posWord ≠ 0))
def Ros.wf (s : Ros) : Bool :=
  s.robs.all Rob.wf && wordsOk (encRos s) && decide ((encRos s).length < W) && decide (s.spec.length = 3)
def SubDet.wf (d : SubDet) : Bool :=
  d.roses.all Ros.wf && wordsOk (encSubDet d) && decide ((encSubDet d).length < W) &&
    decide (d.det < 65536) && decide (d.srcLow < 65536)
def Event.wf (e : Event) : Bool :=
  e.subdets.all SubDet.wf && wordsOk (encEvent e) && decide ((encEvent e).length < W) && decide (e.header.length = 10)
def Block.wf (b : Block) : Bool :=
  b.events.all Event.wf && !b.events.isEmpty && decide (b.w1 < W) && decide (b.w2 < W) && decide (b.w3 < W)

/-! ### the intended decode -/

/-- value of the last word of the same channel and kind (`tq` = 0 time, 1 charge); 0 when there is none -/
def lastVal (fields : Nat → Nat × Nat × Nat × Nat) (ws : List Nat) (id tq : Nat) : Nat :=
  match (ws.reverse.find? (fun w => (fields w).1 == id && (fields w).2.1 == tq)) with
  | some w => (fields w).2.2.1
  | none => 0

/-- OR of the overflow bits of all words of the channel -/
def orOv (fields : Nat → Nat × Nat × Nat × Nat) (ws : List Nat) (id : Nat) : Nat :=
  (ws.filter (fun w => (fields w).1 == id)).foldl (fun a w => a ||| (fields w).2.2.2) 0

/-- insertion of a key into a strictly increasing list (no duplicates) -/
def insKey (k : Nat) : List Nat → List Nat
  | [] => [k]
  | x :: xs => if k < x then k :: x :: xs else if k = x then x :: xs else x :: insKey k xs

/-- distinct channel ids of a payload, ascending -/
def idsAsc (fields : Nat → Nat × Nat × Nat × Nat) (ws : List Nat) : List Nat :=
  ws.foldl (fun acc w => insKey (fields w).1 acc) []

/-- rows one ROB payload must produce -/
def robRows (det : Nat) (data : List Nat) : List Row :=
  if det = MDC then (idsAsc mdcFields data).map (fun id => [id, lastVal mdcFields data id 0, lastVal mdcFields data id 1, orOv mdcFields data id])
  else if det = TOF then (idsAsc tofFields data).map (fun id => [id, lastVal tofFields data id 0, lastVal tofFields data id 1, orOv tofFields data id])
  else if det = EMC then data.map (fun w => [(w >>> 19) &&& 0x1FFF, (w >>> 13) &&& 0x3F, w &&& 0x7FF, (w >>> 11) &&& 3])
  else if det = MUC then data.map (fun w => [(w >>> 16) &&& 0x7FF, w &&& 0xFFFF])
  else if det = TRG ∨ det = EF then data.map (fun w => [w])
  else []

/-- the record one event must decode to: kept header words and, for every *selected known* sub-detector
fragment in stream order, the rows of its ROB payloads; status words, unselected and unknown
sub-detectors contribute nothing -/
def expectedEvent (sel : List Nat) (e : Event) : EventRec :=
  { header := [e.header.getD 0 0, e.header.getD 1 0, e.header.getD 2 0, e.header.getD 3 0,
               e.header.getD 6 0, e.header.getD 7 0, e.header.getD 8 0, e.header.getD 9 0],
    rows := e.subdets.flatMap (fun d =>
      if sel.contains d.det then
        (d.roses.flatMap (fun s => s.robs.flatMap (fun r => robRows d.det r.data))).map (fun row => (d.det, row))
      else []) }

def expected (sel : List Nat) (bs : List Block) : List EventRec :=
  (bs.flatMap (·.events)).map (expectedEvent (effectiveSel sel))

end Pybes3Verif.Raw.Spec
