import Pybes3Verif.Model.TObjArray
import Pybes3Verif.Spec.RootStream
/-!
Specification of the serialised `m_recCgemClusterCol` stream (a `TObjArray` of `TRecCgemCluster` written
without a `TCgemCluster` streamer, DESIGN.md §6 C01): encoders for one cluster object of class layout `v`
(0 = with `m_recPositionY`, 1 = without), for one entry (event), and the well-formedness a ROOT writer
guarantees.  Written from the ROOT object-wise streaming rules, not from the parser:

  object header | byte count (mask bit set, = length of what follows) | class version (2 bytes) |
  TObject (version, unique id, bits [, pidf iff referenced]) | 5 × Int_t | doubles | Int_t[2] | Int_t[2][2]

The byte count is the true length of the body: 96 / 88 for a TObject that is not referenced, 98 / 90 for
a referenced one (which carries the 2-byte pidf).  Both are well-formed.
-/
namespace Pybes3Verif.Root.Spec
open Pybes3Verif.Root

/-- number of `Double_t` members of `TRecCgemCluster` in layout `v`:
energyDeposit, recPhi, [recPositionY iff `v = 0`], recV, recZ -/
def nDoubles (v : Nat) : Nat := if v = 0 then 5 else 4

/-- one serialised cluster object: the bytes the reader skips (header, class version, TObject words) and
the member values it must deliver -/
structure ClusterEnc where
  hdr : ObjHdr          -- object header in front of the element (new-class tag + name, or class reference)
  clsVersion : Nat      -- Version_t of TRecCgemCluster as written (2 bytes)
  tVersion : Nat        -- TObject: fVersion
  uid : Nat             -- TObject: fUniqueID
  bits : Nat            -- TObject: fBits
  pidf : Nat            -- TObject: process-id index, written iff the referenced bit is set
  value : Cluster
  deriving Repr

/-- everything the byte count of a cluster object covers: class version, TObject, members.
Layout `v` has `nDoubles v` doubles. -/
def encClusterBody (v : Nat) (c : ClusterEnc) : List Nat :=
  be 2 c.clsVersion ++ encTObject c.tVersion c.uid c.bits c.pidf ++
    c.value.ints.flatMap (be 4) ++ (c.value.doubles.take (nDoubles v)).flatMap (be 8) ++
    c.value.clusterFlag.flatMap (be 4) ++ c.value.stripID.flatMap (be 4)

/-- one array element: object header, byte count (the actual length of the body, mask bit set), body -/
def encCluster (v : Nat) (c : ClusterEnc) : List Nat :=
  encObjHdr c.hdr ++ be 4 ((encClusterBody v c).length + kByteCountMask) ++ encClusterBody v c

/-- well-formed cluster of layout `v`: header and TObject words in range (referenced or not),
member counts of the layout, every member in the range of its machine type (raw bit patterns) -/
def ClusterEnc.wf (v : Nat) (c : ClusterEnc) : Bool :=
  c.hdr.wf && decide (c.clsVersion < 65536) && decide (c.tVersion < 65536) &&
    decide (c.uid < 4294967296) && decide (c.bits < 4294967296) && decide (c.pidf < 65536) &&
    decide (c.value.ints.length = 5) && c.value.ints.all (fun x => decide (x < 4294967296)) &&
    decide (c.value.doubles.length = nDoubles v) &&
    c.value.doubles.all (fun x => decide (x < 18446744073709551616)) &&
    decide (c.value.clusterFlag.length = 2) && c.value.clusterFlag.all (fun x => decide (x < 4294967296)) &&
    decide (c.value.stripID.length = 4) && c.value.stripID.all (fun x => decide (x < 4294967296))

/-- one entry (event) of the branch: object header of the `TObjArray`, its header, the clusters -/
structure CgemEntryEnc where
  hdr : ObjHdr
  arr : ArrHdr
  clusters : List ClusterEnc
  deriving Repr

def encCgemEntry (v : Nat) (e : CgemEntryEnc) : List Nat :=
  encObjHdr e.hdr ++ be 4 (e.arr.count + kByteCountMask) ++ be 2 e.arr.version ++ be 2 e.arr.tobjVersion ++
    be 4 e.arr.uniqueID ++ be 4 e.arr.bits ++ [0] ++ be 4 e.clusters.length ++ be 4 e.arr.lowerBound ++
    e.clusters.flatMap (encCluster v)

def CgemEntryEnc.wf (v : Nat) (e : CgemEntryEnc) : Bool :=
  e.hdr.wf && e.arr.wf && decide (e.clusters.length < 4294967296) && e.clusters.all (fun c => c.wf v)

/-- the member values of the clusters of one event -/
def CgemEntryEnc.values (e : CgemEntryEnc) : List Cluster := e.clusters.map (·.value)

/-! ### sample values (used by the satisfiability example and the layout witness) -/

/-- a layout-0 cluster with a new-class-tag header ("TRecCgemCluster") and non-trivial members -/
def sampleCluster0 : ClusterEnc :=
  { hdr := { count := 118, className := some [84, 82, 101, 99, 67, 103, 101, 109, 67, 108, 117, 115, 116, 101, 114], refTag := 0 }
    clsVersion := 2, tVersion := 1, uid := 0, bits := 0x03000000, pidf := 0
    value := { ints := [7, 4294967295, 2, 1, 3]
               doubles := [0x3FB999999999999A, 0x400921FB54442D18, 0xC05EDD2F1A9FBE77, 0x4024000000000000, 0xBFF0000000000000]
               clusterFlag := [0, 12], stripID := [10, 11, 20, 21] } }

/-- a layout-1 cluster behind a class-reference tag -/
def sampleCluster1 : ClusterEnc :=
  { hdr := { count := 92, className := none, refTag := 0x80000042 }
    clsVersion := 1, tVersion := 1, uid := 5, bits := 0x03000000, pidf := 0
    value := { ints := [8, 0, 1, 0, 2]
               doubles := [0x3FB999999999999A, 0x400921FB54442D18, 0x4024000000000000, 0xBFF0000000000000]
               clusterFlag := [1, 2], stripID := [3, 4, 5, 6] } }

/-- a layout-0 cluster whose TObject is referenced (`kIsReferenced` set, pidf written: byte count 98) -/
def sampleCluster0Ref : ClusterEnc :=
  { sampleCluster0 with uid := 0x01000007, bits := 0x03000010, pidf := 1 }

def sampleArrHdr : ArrHdr :=
  { count := 30, version := 3, tobjVersion := 1, uniqueID := 0, bits := 0x03000000, lowerBound := 0 }

def sampleObjHdr : ObjHdr := { count := 40, className := none, refTag := 0x80000010 }

/-- an event holding one layout-0 cluster -/
def sampleEventOne : CgemEntryEnc := { hdr := sampleObjHdr, arr := sampleArrHdr, clusters := [sampleCluster0] }

/-- an event whose first cluster is referenced, followed by an unreferenced one -/
def sampleEventRef : CgemEntryEnc :=
  { hdr := sampleObjHdr, arr := sampleArrHdr, clusters := [sampleCluster0Ref, sampleCluster0] }

/-- an event holding no cluster -/
def sampleEventNone : CgemEntryEnc := { hdr := sampleObjHdr, arr := sampleArrHdr, clusters := [] }

end Pybes3Verif.Root.Spec
