import Pybes3Verif.Model.TObjArray
/-!
Specification of the serialised `TObjArray` collection stream (DESIGN.md §6 C01): encoders with the
per-object choices the ROOT format allows (new-class tag with class name vs. class-reference tag, any byte
count carrying the mask bit, referenced bit on or off) and the well-formedness a BES3 writer guarantees.
Python twin: `tools/lib/rootstream.py`.
-/
namespace Pybes3Verif.Root.Spec
open Pybes3Verif.Root

/-- big-endian bytes of `v` on `n` bytes -/
def be (n v : Nat) : List Nat := (List.range n).map (fun i => (v / 256 ^ (n - 1 - i)) % 256)

/-- object header in front of every element of the array -/
structure ObjHdr where
  count : Nat                 -- byte count (without the mask), any value < 2^30
  /-- `some name`: kNewClassTag followed by the zero-terminated class name; `none`: a class-reference tag -/
  className : Option (List Nat)
  refTag : Nat                -- the tag value used when `className = none` (≠ kNewClassTag)
  deriving Repr

def encObjHdr (h : ObjHdr) : List Nat :=
  be 4 (h.count + kByteCountMask) ++
    (match h.className with
     | some nm => be 4 kNewClassTag ++ nm ++ [0]
     | none => be 4 h.refTag)

def ObjHdr.wf (h : ObjHdr) : Bool :=
  decide (h.count < kByteCountMask) &&
    (match h.className with
     | some nm => nm.all (fun b => decide (0 < b) && decide (b < 256))
     | none => decide (h.refTag < 4294967296) && decide (h.refTag ≠ kNewClassTag))

/-- the TObjArray's own header fields -/
structure ArrHdr where
  count : Nat
  version : Nat
  tobjVersion : Nat
  uniqueID : Nat
  bits : Nat
  lowerBound : Nat
  deriving Repr

def ArrHdr.wf (a : ArrHdr) : Bool :=
  decide (a.count < kByteCountMask) && decide (a.version < 65536) && decide (a.tobjVersion < 65536) &&
    decide (a.uniqueID < 4294967296) && decide (a.bits < 4294967296) && decide (a.lowerBound < 4294967296)

/-- one entry (event): array header, empty name, size, lower bound, then (object header, object)* -/
def encTObjArray {ε : Type} (encE : ε → List Nat) (a : ArrHdr) (objs : List (ObjHdr × ε)) : List Nat :=
  be 4 (a.count + kByteCountMask) ++ be 2 a.version ++ be 2 a.tobjVersion ++ be 4 a.uniqueID ++ be 4 a.bits ++ [0] ++
    be 4 objs.length ++ be 4 a.lowerBound ++ objs.flatMap (fun (h, x) => encObjHdr h ++ encE x)

/-- TObject base as written by ROOT: version, unique id, bits, and a 2-byte pidf iff referenced -/
def encTObject (version uid bits pidf : Nat) : List Nat :=
  be 2 version ++ be 4 uid ++ be 4 bits ++ (if bits &&& kIsReferenced ≠ 0 then be 2 pidf else [])

mutual
/-- encoder matching `readKind` (TObject encoded with the given bits taken from the value tree is not
representable in `Val.unit`, so the encoder takes the TObject words from an environment list) -/
def encKind : Kind → Val → List Nat
  | .i8, .bits v | .bool_, .bits v => be 1 v
  | .i16, .bits v => be 2 v
  | .i32, .bits v | .f32, .bits v => be 4 v
  | .i64, .bits v | .f64, .bits v => be 8 v
  | .arr _ k, .list vs => encKindL k vs
  | .cls ms, .list vs =>
      let body := be 2 1 ++ encKinds ms vs
      be 4 (body.length + kByteCountMask) ++ body
  | _, _ => []
def encKindL (k : Kind) : List Val → List Nat
  | [] => []
  | v :: vs => encKind k v ++ encKindL k vs
def encKinds : List Kind → List Val → List Nat
  | k :: ks, v :: vs => encKind k v ++ encKinds ks vs
  | _, _ => []
end

end Pybes3Verif.Root.Spec
