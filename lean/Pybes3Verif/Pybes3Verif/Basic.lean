def hello := "world"
