/-!
Hand-written model of `RawBinaryReader.arrays` (`src/pybes3/besio/raw_io.py`), DESIGN.md §6 C04:
the batch loop over the blocks of a file, the thread pool as "tasks completed in an arbitrary order",
the gather in submission order, and the cursor reset.  `β` is the type of a block, decoding is a
parameter.  Mirrors the code after the two `fix:` commits (stop at end of data; empty batch when no
block was read).  Mathlib-free.
-/
namespace Pybes3Verif.RawReader

variable {β ε : Type}

/-- reader state: the blocks of the file and the file cursor (index of the next block) -/
structure Reader (β : Type) where
  blocks : List β
  cursor : Nat

/-- `_read_batch(n)`: up to `n` blocks from the cursor, stopping at the end of data -/
def readBatch (r : Reader β) (n : Nat) : List β × Reader β :=
  let b := (r.blocks.drop r.cursor).take n
  (b, { r with cursor := r.cursor + b.length })

/-- the `while` loop of `arrays`: `nBlocks = none` models `n_blocks == -1`.
Returns the submitted batches in submission order; `none` = out of fuel. -/
def submitLoop (perBatch : Nat) (nBlocks : Option Nat) : Nat → Reader β → Nat → Option (List (List β) × Reader β)
  | 0, _, _ => none
  | fuel + 1, r, nRead =>
    let continue_ := match nBlocks with
      | some n => decide (nRead < n)
      | none => decide (r.cursor < r.blocks.length)
    if !continue_ then some ([], r)
    else
      let toRead := match nBlocks with
        | some n => min (n - nRead) perBatch
        | none => perBatch
      let (batch, r') := readBatch r toRead
      if batch.length = 0 then some ([], r')
      else match submitLoop perBatch nBlocks fuel r' (nRead + batch.length) with
        | none => none
        | some (rest, r'') => some (batch :: rest, r'')

/-- a thread pool run: the tasks complete in the order `sched` (any list of task indices; indices not
listed complete afterwards in index order); each completion stores its own task's value in its own slot.
The gather then reads the slots in submission order. -/
def runPool (tasks : List (List β)) (decode : List β → List ε) (sched : List Nat) : List (Option (List ε)) :=
  let order := sched ++ List.range tasks.length
  order.foldl (fun slots i =>
    match tasks[i]? with
    | some t => slots.set i (some (decode t))
    | none => slots) (List.replicate tasks.length none)

def gather (slots : List (Option (List ε))) : List ε := (slots.map (fun s => s.getD [])).flatten

/-- `arrays(n_blocks, n_block_per_batch, …)`: reset the cursor, submit batches, (decode an empty batch when
none was submitted), gather in submission order, concatenate. -/
def arrays (decode : List β → List ε) (perBatch : Nat) (nBlocks : Option Nat) (sched : List Nat) (fuel : Nat)
    (r : Reader β) : Option (List ε × Reader β) :=
  let r0 : Reader β := { r with cursor := 0 }     -- `_reset_cursor`
  match submitLoop perBatch nBlocks fuel r0 0 with
  | none => none
  | some (batches, r1) =>
    let tasks := if batches.isEmpty then [[]] else batches
    some (gather (runPool tasks decode sched), r1)

end Pybes3Verif.RawReader
