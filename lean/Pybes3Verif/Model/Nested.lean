/-!
Nested (jagged) arrays of uniform depth and the flatten / counts / unflatten round trip used by
`helix.py::_awk_change_pivot` + `_utils.py::_extract_index` (C07) and by the ufunc-style kernels of
`pybes3.detectors` (C14).  DESIGN.md §5.5.  Mathlib-free.
-/
namespace Pybes3Verif.Nested

/-- `Nested α d`: `d` levels of lists around `α`. An awkward array of type `n * var * … * α` with `d`
list levels below the top level is a `Nested α (d + 1)` (the top level is the array itself). -/
def Nested (α : Type) : Nat → Type
  | 0 => α
  | d + 1 => List (Nested α d)

variable {α β : Type}

/-- `ak.flatten(array, axis=None)`: all leaves in order -/
def flat : (d : Nat) → Nested α (d + 1) → List α
  | 0, xs => xs
  | d + 1, xs => flat d (List.flatten xs)

/-- `_extract_index(layout)`: the per-level counts, outermost level first -/
def levels : (d : Nat) → Nested α (d + 1) → List (List Nat)
  | 0, _ => []
  | d + 1, xs => (List.map List.length xs) :: levels d (List.flatten xs)

/-- `ak.unflatten(l, counts)` -/
def unflat (counts : List Nat) (l : List β) : List (List β) :=
  match counts with
  | [] => []
  | c :: cs => l.take c :: unflat cs (l.drop c)

/-- `for count in reversed(raw_shape): res = ak.unflatten(res, count)` — innermost level first -/
def rebuild : (d : Nat) → List (List Nat) → List α → Nested α (d + 1)
  | 0, _, l => l
  | d + 1, [], _ => []
  | d + 1, c :: cs, l => unflat c (rebuild d cs l)

/-- element-wise map through all levels (what a ufunc does) -/
def mapN (f : α → β) : (d : Nat) → Nested α d → Nested β d
  | 0, x => f x
  | d + 1, xs => List.map (mapN f d) xs

/-- the array-mode operation: flatten, apply a per-track function to the flat list, rebuild the nesting -/
def viaFlat (f : List α → List β) (d : Nat) (t : Nested α (d + 1)) : Nested β (d + 1) :=
  rebuild d (levels d t) (f (flat d t))

/-- `ak.flatten(array)` (axis = 1): remove the first list level below the top -/
def flatten1 (d : Nat) (t : Nested α (d + 2)) : Nested α (d + 1) := List.flatten t

end Pybes3Verif.Nested
