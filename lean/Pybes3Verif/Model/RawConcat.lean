import Pybes3Verif.Model.RawFile
/-! `raw_io.concatenate` on top of the file-level model (Mathlib-free). -/
namespace Pybes3Verif.RawFile
open Pybes3Verif.Raw

/-- `raw_io.concatenate(files, n_block_per_batch, sub_detectors, max_workers, decode_reid=False)` for an explicit list of files:
files whose first word is not the file-start flag are skipped (`_is_raw`), no file left is an error, each remaining file is read
completely by a fresh reader and the arrays are concatenated in list order -/
def concatModel (sel : List Nat) (perBatch : Nat) (sched : List Nat) (files : List (List Nat)) : Option (List EventRec) :=
  let raws := files.filter (fun f => wordAt f 0 == FILE_START)
  if raws.isEmpty then none else (raws.mapM (arraysModel sel perBatch none sched)).map List.flatten

end Pybes3Verif.RawFile
