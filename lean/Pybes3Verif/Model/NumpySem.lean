import Pybes3Verif.Model.Helix
/-!
Meaning of the numpy / `vector` primitives that `tools/translate/helix.py` emits, over the same `Ops α` as the hand-written
helix model (trusted, hand-written; Mathlib-free).  Over ℝ there is no signed zero: `np.copysign(a, -0.0)` and `np.sign(±0.0)`
are the one place where the IEEE behaviour differs; both occur only for `kappa = 0`, which every theorem excludes.
-/
namespace Pybes3Verif.Helix

variable {α : Type} (R : Ops α)

/-- `np.copysign(a, b)`: magnitude of `a`, sign of `b` -/
def npCopysign (a b : α) : α := if R.lt b R.zero then R.neg (R.abs a) else R.abs a

/-- `np.sign(a)`: -1, 0, +1 -/
def npSign (a : α) : α := if R.lt a R.zero then R.neg R.one else if R.lt R.zero a then R.one else R.zero

/-- `(condition) * x` with a Python/numpy boolean: `x` or `0` -/
def boolTimes (c : Bool) (x : α) : α := if c then x else R.zero

/-- `vector`'s `.rho` of a cartesian 2-D vector -/
def vecRho (x y : α) : α := R.sqrt (R.add (R.mul x x) (R.mul y y))

/-- `vector`'s `.phi` of a cartesian 2-D vector -/
def vecPhi (x y : α) : α := R.atan2 y x

end Pybes3Verif.Helix
