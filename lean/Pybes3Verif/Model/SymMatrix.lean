/-!
Hand-written model of `Bes3SymMatrixArrayReader` (`root_io.hh`) and of the dimension computed by
`Bes3SymMatrixArrayFactory.build_factory` (`root_io.py`), DESIGN.md §6 C16.  The index expression itself
is *translated* from the C++ source into `Gen/SymIndex.lean` on every run; this model is parametrised by it.
Valid for dimensions ≤ 46340 (no `int` overflow in `j * (j + 1)`; beyond that the C++ is undefined).
-/
namespace Pybes3Verif.SymMatrix

/-- constructor: the double loop over `(i, j)` throws iff some index is `≥ flat_size` -/
def accepts (idx : Nat → Nat → Nat) (flat n : Nat) : Bool :=
  (List.range n).all (fun i => (List.range n).all (fun j => decide (idx i j < flat)))

/-- `read`: `flat` values are read into `flat_array`, then `n × n` pushes `flat_array[idx i j]` in row-major
order; `none` when an index is outside `flat_array` (undefined behaviour in C++, excluded by `accepts`) -/
def expand {α : Type} (idx : Nat → Nat → Nat) (n : Nat) (packed : List α) : Option (List α) :=
  ((List.range n).flatMap (fun i => (List.range n).map (fun j => packed[idx i j]?))).mapM id

/-- one event with several objects: the reader is called once per object on consecutive packed blocks -/
def expandMany {α : Type} (idx : Nat → Nat → Nat) (flat n : Nat) (stream : List α) : Nat → Option (List α)
  | 0 => some []
  | k + 1 =>
    match expand idx n (stream.take flat), expandMany idx flat n (stream.drop flat) k with
    | some a, some b => some (a ++ b)
    | _, _ => none

/-- `full_dim = int((np.sqrt(1 + 8 * flat_size) - 1) / 2)` evaluated in exact arithmetic -/
def fullDim (flat : Nat) : Nat := (Nat.sqrt (1 + 8 * flat) - 1) / 2

end Pybes3Verif.SymMatrix
