/-!
Hand-written model of `Bes3TObjArrayReader`, `Bes3CgemClusterColReader` (`root_io.hh`), of the
`BinaryBuffer` primitives they use (`uproot-custom.hh`: big-endian reads, `read_fNBytes` with the byte-count
mask, `skip_obj_header`, `skip_TObject` with the referenced bit), of the per-entry driver loop
(`read_data`: one `read` per entry, the cursor must land on the next entry offset) and of
`process_digi_subbranch` (`root_io.py`).  DESIGN.md §6 C01.  Bytes are `Nat`s `< 256`. Mathlib-free.
-/
namespace Pybes3Verif.Root

/-- cursor parser on the remaining bytes; `none` = exception / mis-framed -/
structure P (α : Type) where
  run : List Nat → Option (α × List Nat)

instance : Monad P where
  pure a := ⟨fun bs => some (a, bs)⟩
  bind p f := ⟨fun bs => match p.run bs with | some (a, r) => (f a).run r | none => none⟩

def fail {α : Type} : P α := ⟨fun _ => none⟩

def kNewClassTag : Nat := 0xFFFFFFFF
def kByteCountMask : Nat := 0x40000000
def kIsReferenced : Nat := 16

def byte : P Nat := ⟨fun bs => match bs with | [] => none | b :: r => some (b, r)⟩
def skip (n : Nat) : P Unit := ⟨fun bs => if n ≤ bs.length then some ((), bs.drop n) else none⟩
def take (n : Nat) : P (List Nat) := ⟨fun bs => if n ≤ bs.length then some (bs.take n, bs.drop n) else none⟩

/-- big-endian value of a byte string -/
def beVal (bs : List Nat) : Nat := bs.foldl (fun acc b => acc * 256 + b) 0

def u16 : P Nat := do let b ← take 2; pure (beVal b)
def u32 : P Nat := do let b ← take 4; pure (beVal b)
def u64 : P Nat := do let b ← take 8; pure (beVal b)

/-- `read_fNBytes`: fails unless the byte-count mask bit is set; returns the count without the mask -/
def readNBytes : P Nat := do
  let c ← u32
  if c &&& kByteCountMask = 0 then fail else pure (c - kByteCountMask)

/-- `skip_null_terminated_string` -/
def skipCStr : P Unit := ⟨fun bs =>
  let name := bs.takeWhile (· ≠ 0)
  if name.length < bs.length then some ((), bs.drop (name.length + 1)) else none⟩

/-- `skip_obj_header`: fNBytes (mask checked), fTag, class name iff the tag is kNewClassTag -/
def skipObjHeader : P Unit := do
  let _ ← readNBytes
  let tag ← u32
  if tag = kNewClassTag then skipCStr else pure ()

/-- `skip_TObject`: fVersion, fUniqueID, fBits, and the 2-byte pidf iff the referenced bit is set -/
def skipTObject : P Unit := do
  skip 2
  skip 4
  let bits ← u32
  if bits &&& kIsReferenced ≠ 0 then skip 2 else pure ()

/-- `skip_TObject`, returning the number of bytes it consumed (10, or 12 for a referenced object) -/
def skipTObjectLen : P Nat := do
  skip 2
  skip 4
  let bits ← u32
  if bits &&& kIsReferenced ≠ 0 then do skip 2; pure 12 else pure 10

/-- repeat a parser `n` times -/
def times {α : Type} (p : P α) : Nat → P (List α)
  | 0 => pure []
  | n + 1 => do let a ← p; let r ← times p n; pure (a :: r)

/-- `Bes3TObjArrayReader::read` for one entry: returns the objects of this event -/
def readTObjArray {ε : Type} (elem : P ε) : P (List ε) := do
  let _ ← readNBytes
  skip 2     -- fVersion
  skip 2     -- fVersion (TObject)
  skip 4     -- fUniqueID
  skip 4     -- fBits
  skip 1     -- fName (empty TString)
  let n ← u32
  skip 4     -- fLowerBound
  times (do skipObjHeader; elem) n

/-- the per-entry loop (`read_data`): every entry must be consumed exactly -/
def readEntries {ε : Type} (reader : P (List ε)) (entries : List (List Nat)) : Option (List (List ε)) :=
  entries.mapM (fun bs => match reader.run bs with | some (objs, []) => some objs | _ => none)

/-! ### member values and the element readers used by the correspondence -/

inductive Kind
  | i8 | i16 | i32 | i64 | f32 | f64 | bool_
  | tobject                       -- TObject base (version, id, bits [, pidf])
  | arr (n : Nat) (k : Kind)      -- fixed-size array member
  | cls (members : List Kind)     -- class / base class with its own fNBytes + fVersion header
  deriving Repr

/-- decoded value: raw bit patterns (big-endian value), lists for arrays / classes, `unit` for TObject -/
inductive Val
  | bits (v : Nat)
  | unit
  | list (vs : List Val)
  deriving Repr

mutual
def readKind : Kind → P Val
  | .i8 | .bool_ => do let b ← byte; pure (.bits b)
  | .i16 => do let v ← u16; pure (.bits v)
  | .i32 | .f32 => do let v ← u32; pure (.bits v)
  | .i64 | .f64 => do let v ← u64; pure (.bits v)
  | .tobject => do skipTObject; pure .unit
  | .arr n k => do let vs ← readKindN k n; pure (.list vs)
  | .cls ms => do
      -- AnyClassReader: fNBytes, fVersion, members; the byte count must match what was read
      let nb ← readNBytes
      let body ← take nb
      match (do skip 2; readKinds ms).run body with
      | some (vs, []) => pure (.list vs)
      | _ => fail
def readKindN (k : Kind) : Nat → P (List Val)
  | 0 => pure []
  | n + 1 => do let v ← readKind k; let r ← readKindN k n; pure (v :: r)
def readKinds : List Kind → P (List Val)
  | [] => pure []
  | k :: ks => do let v ← readKind k; let r ← readKinds ks; pure (v :: r)
end

/-! ### Bes3CgemClusterColReader -/

structure Cluster where
  ints : List Nat        -- clusterID, trkID, layerID, sheetID, flag
  doubles : List Nat     -- energyDeposit, recPhi, [recPositionY,] recV, recZ
  clusterFlag : List Nat -- int[2]
  stripID : List Nat     -- int[2][2]
  deriving Repr, DecidableEq

/-- one cluster object; `version` 0 = with recPositionY (84 member bytes after the TObject base), 1 = without (76);
`none` = not yet determined (first object decides) -/
def readCluster (version : Option Nat) : P (Cluster × Nat) := do
  skipObjHeader
  let nb ← readNBytes
  skip 2
  let tobj ← skipTObjectLen
  -- the class version is decided by the size of the members that follow the TObject base (`fNBytes - (cursor - obj_start)`):
  -- 84 bytes with m_recPositionY, 76 without
  let v ← (match version with
    | some v => pure v
    | none => if nb = 2 + tobj + 84 then pure 0 else if nb = 2 + tobj + 76 then pure 1 else fail)
  let ints ← times u32 5
  let d1 ← times u64 2
  let dy ← (if v = 0 then times u64 1 else pure [])
  let d2 ← times u64 2
  let cf ← times u32 2
  let st ← times u32 4
  pure ({ ints := ints, doubles := d1 ++ dy ++ d2, clusterFlag := cf, stripID := st }, v)

def readClusters : Nat → Option Nat → P (List Cluster × Option Nat)
  | 0, v => pure ([], v)
  | n + 1, v => do
    let (c, v') ← readCluster v
    let (cs, v'') ← readClusters n (some v')
    pure (c :: cs, v'')

/-- `Bes3CgemClusterColReader::read` for one entry, threading the version decided so far -/
def readCgemCol (version : Option Nat) : P (List Cluster × Option Nat) := do
  skipObjHeader
  let _ ← readNBytes
  skip 2; skip 2; skip 4; skip 4; skip 1
  let n ← u32
  skip 4
  readClusters n version

/-! ### process_digi_subbranch -/

/-- an awkward record array as an association list of columns; a column is a leaf or a nested record -/
inductive Col (α : Type)
  | leaf (data : α)
  | record (fields : List (String × Col α))

/-- `fields = {}; for f in arr.fields: if f == "TRawData": fields[raw_f] = … else fields[f] = …; ak.zip(fields)`.
Python dict semantics: assigning an existing key keeps its position and overwrites the value. -/
def dictSet {α : Type} (d : List (String × α)) (k : String) (v : α) : List (String × α) :=
  if d.any (fun x => x.1 == k) then d.map (fun x => if x.1 == k then (k, v) else x) else d ++ [(k, v)]

def processDigi {α : Type} (fields : List (String × Col α)) : List (String × Col α) :=
  fields.foldl (fun acc (name, col) =>
    if name == "TRawData" then
      match col with
      | .record sub => sub.foldl (fun a (n, c) => dictSet a n c) acc
      | .leaf _ => acc
    else dictSet acc name col) []

end Pybes3Verif.Root
