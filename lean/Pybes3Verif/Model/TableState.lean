/-!
Tiny heap model for the history part of C09: the module-level geometry columns, the tables handed out to callers
(`get_mdc_wire_position` / `get_emc_crystal_position`: `{k: v.copy() for k, v in table.items()}`), in-place writes by the
caller, and lookups (`_col[gid]`).  Whether a handed-out column is a fresh copy or an alias of the module's column is a
parameter (`fresh`), extracted from the source by the harness; the theorem says what follows when it is `true`.
-/
namespace Pybes3Verif.TableState

/-- module columns (column name ↦ values) and the handed-out tables; `alias = some c` means the handed-out column IS
module column `c` (a view), `none` means it owns its data -/
structure Handed where
  col : Nat
  alias : Bool
  data : List Int

structure St where
  module : Nat → List Int
  handed : List Handed

inductive Op
  | get (cols : List Nat)                -- hand out a table with these columns
  | write (k : Nat) (i : Nat) (v : Int)  -- caller writes value v at index i of handed-out column number k
  | lookup (c i : Nat)

/-- `fresh = true`: every handed-out column is a copy (what the source does); `false`: views are handed out -/
def step (fresh : Bool) (s : St) : Op → St × Option Int
  | .get cols => ({ s with handed := s.handed ++ cols.map (fun c => ⟨c, !fresh, s.module c⟩) }, none)
  | .write k i v =>
    match s.handed[k]? with
    | none => (s, none)
    | some h =>
      let h' : Handed := { h with data := h.data.set i v }
      let handed := s.handed.set k h'
      if h.alias then
        -- a view: the write lands in the module's own array
        ({ module := fun c => if c = h.col then (s.module c).set i v else s.module c, handed := handed }, none)
      else ({ s with handed := handed }, none)
  | .lookup c i => (s, (s.module c)[i]?)

def run (fresh : Bool) (s : St) : List Op → St × List (Option Int)
  | [] => (s, [])
  | op :: ops =>
    let (s', o) := step fresh s op
    let (s'', os) := run fresh s' ops
    (s'', o :: os)

/-- with fresh copies the module columns never change, whatever the caller does with the tables it received -/
theorem module_unchanged (s : St) (h0 : ∀ h ∈ s.handed, h.alias = false) (ops : List Op) :
    (run true s ops).1.module = s.module ∧ ∀ h ∈ (run true s ops).1.handed, h.alias = false := by
  induction ops generalizing s with
  | nil => exact ⟨rfl, h0⟩
  | cons op ops ih =>
    simp only [run]
    cases op with
    | get cols =>
      have := ih { s with handed := s.handed ++ cols.map (fun c => ⟨c, !true, s.module c⟩) } (by
        intro h hh
        simp only [List.mem_append, List.mem_map] at hh
        rcases hh with hh | ⟨c, _, rfl⟩
        · exact h0 h hh
        · rfl)
      simpa [step] using this
    | write k i v =>
      simp only [step]
      cases hk : s.handed[k]? with
      | none => simpa using ih s h0
      | some h =>
        have ha : h.alias = false := h0 h (List.mem_of_getElem? hk)
        obtain ⟨hc, hal, hd⟩ := h
        simp only at ha
        subst ha
        simp only [Bool.false_eq_true, ↓reduceIte]
        exact ih { s with handed := s.handed.set k ⟨hc, false, hd.set i v⟩ } (by
          intro x hx
          rcases List.mem_or_eq_of_mem_set hx with hx | rfl
          · exact h0 x hx
          · rfl)
    | lookup c i => simpa [step] using ih s h0

/-- hence every lookup in any history returns the value of the initial tables -/
theorem lookups_are_initial (s : St) (h0 : ∀ h ∈ s.handed, h.alias = false) (ops : List Op) :
    ∀ o ∈ (run true s ops).2, o = none ∨ ∃ (c i : Nat), o = (s.module c)[i]? := by
  induction ops generalizing s with
  | nil => intro o ho; simp [run] at ho
  | cons op ops ih =>
    intro o ho
    simp only [run, List.mem_cons] at ho
    have hm := module_unchanged s h0 [op]
    rcases ho with rfl | ho
    · cases op with
      | get cols => left; simp [step]
      | write k i v =>
        left; simp only [step]
        split
        · rfl
        · split <;> rfl
      | lookup c i => right; exact ⟨c, i, by simp [step]⟩
    · have h1 : (step true s op).1.module = s.module := by simpa [run] using hm.1
      have h2 : ∀ h ∈ (step true s op).1.handed, h.alias = false := by simpa [run] using hm.2
      rcases ih (step true s op).1 h2 o ho with h | ⟨c, i, h⟩
      · exact Or.inl h
      · exact Or.inr ⟨c, i, by rw [h, h1]⟩

/-- non-vacuity / the failure the property guards against: with views handed out a caller's write changes a later lookup -/
example : (run false { module := fun _ => [1, 2, 3], handed := [] } [.get [0], .write 0 1 99, .lookup 0 1]).2 = [none, none, some 99] := by
  decide

end Pybes3Verif.TableState
