/-!
Hand-written model of `AsCustom.final_array` (uproot-custom, to which `Bes3Interpretation.final_array`
delegates), of the per-basket reader output (`offsets` restart at 0 for every basket) and of the offset
re-basing that `ak.concatenate` performs on `ListOffsetArray`s (DESIGN.md §6 C02).  Mathlib-free.
-/
namespace Pybes3Verif.FinalArray

variable {ε : Type}

/-- `entry_offsets`: cumulative number of entries per basket, starting at 0 -/
def entryOffsets (baskets : List (List ε)) : List Nat :=
  baskets.foldl (fun acc b => acc ++ [acc.getLast! + b.length]) [0]

/-- `np.where(cond)[0].max()` : index of the last element satisfying `p` (`none` = ValueError on empty) -/
def lastIdx (p : Nat → Bool) (xs : List Nat) : Option Nat :=
  (List.range xs.length).foldl (fun acc i => if p (xs.getD i 0) then some i else acc) none

/-- `np.where(cond)[0].min()` : index of the first element satisfying `p` -/
def firstIdx (p : Nat → Bool) (xs : List Nat) : Option Nat :=
  (List.range xs.length).find? (fun i => p (xs.getD i 0))

/-- `AsCustom.final_array(basket_arrays, entry_start = a, entry_stop = b, entry_offsets)`;
`none` models the exceptions (no basket found / empty concatenation) -/
def finalArray (baskets : List (List ε)) (a b : Nat) : Option (List ε) :=
  let offs := entryOffsets baskets
  let starts := offs.dropLast
  let stops := offs.tail
  match lastIdx (fun s => decide (s ≤ a)) starts, firstIdx (fun s => decide (b ≤ s)) stops with
  | some i0, some i1 =>
    if i1 < i0 then none      -- `range(i0, i1 + 1)` empty: `ak.concatenate([])` raises
    else
      let tot := ((baskets.drop i0).take (i1 + 1 - i0)).flatten
      let base := starts.getD i0 0
      some ((tot.drop (a - base)).take (b - a))    -- `tot[a - base : b - base]` (Python slice, a ≤ b)
  | _, _ => none

/-! ### per-basket reader output and its concatenation -/

/-- what one fresh `Bes3TObjArrayReader` returns for the events of one basket:
`offsets` (cumulative object counts starting at 0) and the flat content -/
def readerOut {α : Type} (events : List (List α)) : List Nat × List α :=
  (events.foldl (fun acc e => acc ++ [acc.getLast! + e.length]) [0], events.flatten)

/-- `ListOffsetArray(offsets, content)` as a list of events -/
def toEvents {α : Type} (oc : List Nat × List α) : List (List α) :=
  (List.range (oc.1.length - 1)).map (fun i => (oc.2.drop (oc.1.getD i 0)).take (oc.1.getD (i + 1) 0 - oc.1.getD i 0))

/-- `ak.concatenate` of two `ListOffsetArray`s: the second array's offsets are re-based by the first
array's last offset, contents are appended -/
def concatOffsets {α : Type} (x y : List Nat × List α) : List Nat × List α :=
  (x.1 ++ (y.1.tail.map (· + x.1.getLast!)), x.2 ++ y.2)

/-- chunked reading: the entry intervals `[i k, min n ((i+1) k))` -/
def chunks (n k : Nat) : List (Nat × Nat) :=
  (List.range ((n + k - 1) / k)).map (fun i => (i * k, min n ((i + 1) * k)))

end Pybes3Verif.FinalArray
