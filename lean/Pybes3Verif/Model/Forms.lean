import Pybes3Verif.Model.TObjArray
/-!
Model of the lazy (dask) side of `root_io.py` for C18: the *form* announced before computing and the *content* computed
are both trees over the same record structure; `process_digi_subbranch` (arrays) and `process_digi_subbranch_form`
(forms, added by the `fix:` commit) are the same dict-building loop, modelled by the one polymorphic `processDigi`.
`typeOfCol` forgets the data of a content tree and keeps its type, so "announced type = computed type = eager type"
for digi collections is the naturality of `processDigi` with respect to `typeOfCol`.
-/
namespace Pybes3Verif.Forms
open Pybes3Verif.Root

/-- map a function over the leaves of a column tree (e.g. data ↦ its dtype) -/
def mapCol {α β : Type} (f : α → β) : Col α → Col β
  | .leaf d => .leaf (f d)
  | .record fs => .record (mapFields f fs)
where
  mapFields {α β : Type} (f : α → β) : List (String × Col α) → List (String × Col β)
    | [] => []
    | (n, c) :: rest => (n, mapCol f c) :: mapFields f rest

/-- the eager path: per-basket content → `final_array` → `process_digi_subbranch`; its type -/
def eagerType {α β : Type} (ty : α → β) (content : List (String × Col α)) : List (String × Col β) :=
  mapCol.mapFields ty (processDigi content)

/-- the lazy path: the announced form is the factories' form (the type of the raw content) post-processed by
`process_digi_subbranch_form` -/
def lazyType {α β : Type} (ty : α → β) (content : List (String × Col α)) : List (String × Col β) :=
  processDigi (mapCol.mapFields ty content)

/-- `Bes3SymMatrixArrayFactory`: content is the raw data regrouped as `n × n` blocks (nested `RegularArray`s of size n over the flat
buffer, i.e. shape `(-1, n, n)`), the form announces the regular dimensions `[n, n]` (nested `RegularForm`s) -/
def symContentShape (rawLen n : Nat) : List Nat := [rawLen / (n * n), n, n]
def symFormInner (n : Nat) : List Nat := [n, n]

end Pybes3Verif.Forms
