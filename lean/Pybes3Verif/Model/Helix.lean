/-!
Hand-written model of `src/pybes3/tracks/helix.py` (DESIGN.md §5.3, §6 C06/C07/C11/C12/C13).

One definition, polymorphic over a record of arithmetic operations `Ops α`:
* instantiated with `Float` it is *executed* by `Driver/Helix.lean` and compared with the real
  `HelixObject` / `HelixAwkwardArray` on generated inputs (correspondence check);
* instantiated with `ℝ` (in `Proofs/HelixReal.lean`) it is the subject of the theorems.

The model mirrors the control flow of `_change_pivot` *after* the `fix:` commits (signed radius,
per-track turning-angle normalisation) and of the `position/momentum/charge/radius` properties and the
`helix_obj(momentum=…, position=…, charge=…)` constructor.  Mathlib-free.
-/
namespace Pybes3Verif.Helix

/-- arithmetic used by the helix code -/
structure Ops (α : Type) where
  add : α → α → α
  sub : α → α → α
  mul : α → α → α
  div : α → α → α
  neg : α → α
  abs : α → α
  sqrt : α → α
  cos : α → α
  sin : α → α
  /-- `atan2 y x` -/
  atan2 : α → α → α
  floor : α → α
  pi : α
  zero : α
  one : α
  two : α
  /-- 1000 / 2.99792458 -/
  alpha : α
  /-- the dead zone 1e-10 of `charge` -/
  eps : α
  lt : α → α → Bool

variable {α : Type}

structure Params (α : Type) where
  dr : α
  phi0 : α
  kappa : α
  dz : α
  tanl : α

structure Vec3 (α : Type) where
  x : α
  y : α
  z : α

section
variable (R : Ops α)

/-- Python float `a % m` for `m > 0`:  `a - m * floor (a / m)` -/
def pmod (a m : α) : α := R.sub a (R.mul m (R.floor (R.div a m)))

def twoPi : α := R.mul R.two R.pi

/-- `HelixObject.radius` / `kappa_to_radius`: 1000 / 2.99792458 / |kappa|  (always positive) -/
def radius (kappa : α) : α := R.div R.alpha (R.abs kappa)

/-- `np.copysign(r, -kappa)`: the signed radius rho (positive for kappa < 0, negative for kappa > 0) -/
def signedRadius (kappa : α) : α :=
  if R.lt R.zero kappa then R.neg (radius R kappa) else radius R kappa

/-- `np.sign` restricted to non-zero arguments as used on `r` -/
def sgn (r : α) : α := if R.lt r R.zero then R.neg R.one else R.one

/-- centre of the circle: `old_pivot.to_2D() + polar(rho = dr + r, phi = phi0)` -/
def centre (h : Params α) (p : Vec3 α) : α × α :=
  let r := signedRadius R h.kappa
  (R.add p.x (R.mul (R.add h.dr r) (R.cos h.phi0)), R.add p.y (R.mul (R.add h.dr r) (R.sin h.phi0)))

/-- turning angle normalised to (-pi, pi] -/
def normDphi (d : α) : α :=
  let m := pmod R d (twoPi R)
  if R.lt R.pi m then R.sub m (twoPi R) else m

/-- new `(dr, phi0)` from the centre `c`, the new pivot and the signed radius -/
def fromCentre (c : α × α) (p' : Vec3 α) (r : α) : α × α :=
  let vx := R.sub c.1 p'.x
  let vy := R.sub c.2 p'.y
  let rho := R.sqrt (R.add (R.mul vx vx) (R.mul vy vy))
  let phi := R.atan2 vy vx
  let newDr := R.sub (R.mul (sgn R r) rho) r
  let shift := if R.lt r R.zero then R.pi else R.zero
  let newPhi0 := pmod R (R.add phi shift) (twoPi R)
  (newDr, newPhi0)

/-- turning angle of a pivot change -/
def dphiOf (h : Params α) (p p' : Vec3 α) : α :=
  let r := signedRadius R h.kappa
  let n := fromCentre R (centre R h p) p' r
  normDphi R (R.sub n.2 h.phi0)

/-- `_change_pivot`: new helix parameters about the pivot `p'` -/
def changePivot (h : Params α) (p p' : Vec3 α) : Params α :=
  let r := signedRadius R h.kappa
  let n := fromCentre R (centre R h p) p' r
  let dphi := normDphi R (R.sub n.2 h.phi0)
  let newDz := R.sub (R.sub (R.add p.z h.dz) (R.mul (R.mul r h.tanl) dphi)) p'.z
  { dr := n.1, phi0 := n.2, kappa := h.kappa, dz := newDz, tanl := h.tanl }

/-- the Jacobian block of `_change_pivot` (row, column), all other entries 0 -/
def jacobian (h : Params α) (p p' : Vec3 α) : Nat → Nat → α :=
  let r := signedRadius R h.kappa
  let h' := changePivot R h p p'
  let dphi := dphiOf R h p p'
  let c := R.cos dphi
  let s := R.sin dphi
  let rdr := R.add r h.dr
  let rdrpr := R.div R.one (R.add r h'.dr)
  let rk := R.div r h.kappa
  fun i j =>
    match i, j with
    | 0, 0 => c
    | 0, 1 => R.mul rdr s
    | 0, 2 => R.mul rk (R.sub R.one c)
    | 1, 0 => R.neg (R.mul rdrpr s)
    | 1, 1 => R.mul (R.mul rdr rdrpr) c
    | 1, 2 => R.mul (R.mul rk rdrpr) s
    | 2, 2 => R.one
    | 3, 0 => R.mul (R.mul (R.mul r rdrpr) h.tanl) s
    | 3, 1 => R.mul (R.mul r h.tanl) (R.sub R.one (R.mul (R.mul rdr rdrpr) c))
    | 3, 2 => R.mul (R.mul rk h.tanl) (R.sub dphi (R.mul (R.mul r rdrpr) s))
    | 3, 3 => R.one
    | 3, 4 => R.neg (R.mul r dphi)
    | 4, 4 => R.one
    | _, _ => R.zero

def sum5 (f : Nat → α) : α :=
  R.add (R.add (R.add (R.add (f 0) (f 1)) (f 2)) (f 3)) (f 4)

/-- `jacobian @ old_error @ jacobian.T` -/
def propagate (J E : Nat → Nat → α) : Nat → Nat → α :=
  fun i j => sum5 R (fun k => sum5 R (fun l => R.mul (R.mul (J i k) (E k l)) (J j l)))

/-- `.position`: pivot + (dr cos phi0, dr sin phi0, dz) -/
def position (h : Params α) (p : Vec3 α) : Vec3 α :=
  { x := R.add p.x (R.mul h.dr (R.cos h.phi0)), y := R.add p.y (R.mul h.dr (R.sin h.phi0)), z := R.add p.z h.dz }

/-- `.momentum` as (pt, phi, pz) -/
def momentum (h : Params α) : α × α × α :=
  let pt := R.div R.one (R.abs h.kappa)
  (pt, pmod R (R.add h.phi0 (R.div R.pi R.two)) (twoPi R), R.mul pt h.tanl)

/-- `.charge`: +1 / -1 / 0 with the 1e-10 dead zone -/
def charge (h : Params α) : α :=
  if R.lt R.eps h.kappa then R.one else if R.lt h.kappa (R.neg R.eps) then R.neg R.one else R.zero

/-- `helix_obj(momentum=(pt, phi, pz), position=pos, charge=q, pivot=p)` -/
def fromPhysics (pos : Vec3 α) (mom : α × α × α) (q : α) (p : Vec3 α) : Params α :=
  let pt := mom.1
  let kappa := R.div q pt
  let phi0 := pmod R (R.sub mom.2.1 (R.div R.pi R.two)) (twoPi R)
  let dx := R.sub pos.x p.x
  let dy := R.sub pos.y p.y
  let rho := R.sqrt (R.add (R.mul dx dx) (R.mul dy dy))
  let ang := R.atan2 dy dx
  let dr := if R.lt (R.cos (R.sub ang phi0)) R.zero then R.neg rho else rho
  { dr := dr, phi0 := phi0, kappa := kappa, dz := R.sub pos.z p.z, tanl := R.div mom.2.2 pt }

end

/-- `Float` instance (executed by the driver) -/
def floatOps : Ops Float where
  add := (· + ·)
  sub := (· - ·)
  mul := (· * ·)
  div := (· / ·)
  neg := fun x => -x
  abs := Float.abs
  sqrt := Float.sqrt
  cos := Float.cos
  sin := Float.sin
  atan2 := Float.atan2
  floor := Float.floor
  pi := 3.141592653589793
  zero := 0.0
  one := 1.0
  two := 2.0
  alpha := 1000.0 / 2.99792458
  eps := 1e-10
  lt := fun a b => a < b

end Pybes3Verif.Helix
