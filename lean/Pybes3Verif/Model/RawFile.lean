import Pybes3Verif.Model.RawParser
import Pybes3Verif.Model.RawReader
/-!
Hand-written model of the Python framing of raw files (`src/pybes3/besio/raw_io.py`: `_preprocess_file`, `_read_batch`,
and the composition with the C++ parser in `arrays`), DESIGN.md §6 C03.  A file is a list of bytes (`Nat`s `< 256`); words
are little-endian (`int.from_bytes(…, "little")`, `np.frombuffer(dtype=uint32)`).  Mathlib-free.
-/
namespace Pybes3Verif.RawFile
open Pybes3Verif.Raw

def FILE_START : Nat := 0x1234AAAA
def FILE_NAME : Nat := 0x1234AABB
def RUN_PARAMS : Nat := 0x1234BBBB
def FILE_TAIL_START : Nat := 0x1234DDDD
def FILE_END : Nat := 0x1234EEEE

/-- little-endian value of (up to) four bytes -/
def le32 (bs : List Nat) : Nat := (bs.take 4).foldr (fun b acc => b + 256 * acc) 0

/-- `self._read()` at byte position `pos`: `none` when fewer than 4 bytes remain is NOT what Python does — a short read gives
a short value — but every position the reader visits in a well-formed file is inside it; the model returns the value of the
bytes that are there -/
def wordAt (file : List Nat) (pos : Nat) : Nat := le32 (file.drop pos)

/-- `np.ceil(nchar / 4).astype(int) * 4` -/
def padded (nchar : Nat) : Nat := (nchar + 3) / 4 * 4

structure Layout where
  dataStart : Nat
  dataEnd : Nat
  entries : Nat
  deriving Repr, DecidableEq

/-- `_preprocess_file`: the assertions become `none` -/
def preprocess (file : List Nat) : Option Layout :=
  if wordAt file 0 ≠ FILE_START then none else
  let p := 32                                   -- 8 words of file header
  if wordAt file p ≠ FILE_NAME then none else
  let ncharName := wordAt file (p + 4)
  let p := p + 8 + padded ncharName
  let ncharTag := wordAt file p
  let p := p + 4 + padded ncharTag
  if wordAt file p ≠ RUN_PARAMS then none else
  let dataStart := p + 36                       -- flag, one skipped word, seven parameters
  let dataEnd := file.length - 40
  if wordAt file dataEnd ≠ FILE_TAIL_START then none else
  if wordAt file (dataEnd + 36) ≠ FILE_END then none else
  some { dataStart := dataStart, dataEnd := dataEnd, entries := wordAt file (dataEnd + 16) }

/-- all words of the byte range `[a, b)` (`np.frombuffer(self._file.read(b - a), dtype=np.uint32)`) -/
def wordsOf (file : List Nat) (a b : Nat) : List Nat :=
  (List.range ((b - a) / 4)).map (fun i => wordAt file (a + 4 * i))

/-- the block walk of `_read_batch`, from byte position `pos`: returns the (start, stop) byte ranges of the blocks up to
`dataEnd`; `none` on a failed assertion (bad separator flag, or a block running past `dataEnd`) or when fuel runs out -/
def blockRanges (file : List Nat) (dataEnd : Nat) : Nat → Nat → Option (List (Nat × Nat))
  | 0, _ => none
  | fuel + 1, pos =>
    if dataEnd ≤ pos then (if pos = dataEnd then some [] else none)
    else if wordAt file pos ≠ DATA_SEPERATOR then none
    else
      let blockSize := wordAt file (pos + 12)
      let stop := pos + 16 + blockSize / 4 * 4
      match blockRanges file dataEnd fuel stop with
      | none => none
      | some rest => some ((pos, stop) :: rest)

/-- the blocks of a file as word lists (what the batches handed to the C++ parser are made of) -/
def fileBlocks (file : List Nat) : Option (List (List Nat)) :=
  match preprocess file with
  | none => none
  | some lay =>
    match blockRanges file lay.dataEnd (file.length + 1) lay.dataStart with
    | none => none
    | some rs => some (rs.map (fun r => wordsOf file r.1 r.2))

/-- `RawBinaryReader(file).arrays(n_blocks, n_block_per_batch, sub_detectors, …, decode_reid=False)`:
framing, batch loop (`RawReader.arrays`, any schedule), every batch decoded by the C++ parser model, results concatenated.
`none` = an assertion failed / the parser raised. -/
def arraysModel (sel : List Nat) (perBatch : Nat) (nBlocks : Option Nat) (sched : List Nat) (file : List Nat) :
    Option (List EventRec) :=
  match fileBlocks file with
  | none => none
  | some blocks =>
    let decode := fun (batch : List (List Nat)) =>
      match parse sel batch.flatten with
      | .ok evs _ => evs.map some
      | _ => [none]
    match RawReader.arrays decode perBatch nBlocks sched (blocks.length + 2) { blocks := blocks, cursor := 0 } with
    | none => none
    | some (out, _) => out.mapM id

end Pybes3Verif.RawFile
