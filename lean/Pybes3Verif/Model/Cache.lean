/-!
Hand-written model of `src/pybes3/_cache_numba.py` (`cache_auto_clear`, `check_numba_cache`,
`clear_numba_cache`) together with the part of numba's on-disk cache that matters for C17
(DESIGN.md §6 C17).  Mathlib-free; executed by `Driver/Cache.lean`.

State: per geometry table its modification time and content version; the set of cache files, each with
its owning table, its kind, its modification time and the table version it was compiled from (the last is *not*
observable by the code — it is what the property is about); processes with the table version they hold
in memory; a logical clock that ticks on every operation.

numba keeps two kinds of files per cached kernel: one *index* file (`<module>.<kernel>-<line>.py<ver>.nbi`), rewritten
every time the kernel is compiled for a new argument signature, and one *data* file per signature (`….<n>.nbc`) holding
the machine code - the only place where table values are frozen in.  Both kinds match the glob `<module>.*.nb[ci]`.
-/
namespace Pybes3Verif.Cache

structure CacheFile where
  table : Nat        -- which table's glob matches this file (0 = mdc, 1 = emc)
  kernel : Nat       -- which cached kernel of that module
  sig : Option Nat   -- `none`: the kernel's index file (*.nbi); `some s`: the data file (*.nbc) of argument signature s
  mtime : Nat
  builtFrom : Nat    -- data files: version of the table whose values are frozen into the code (ghost); index files: 0, unused
  deriving Repr, DecidableEq

def CacheFile.isData (f : CacheFile) : Bool := f.sig.isSome

structure Proc where
  loaded : List (Nat × Nat)   -- (table, version held in memory); absent = not loaded yet
  deriving Repr, DecidableEq

structure St where
  tableMtime : Nat → Nat
  tableVersion : Nat → Nat
  files : List CacheFile
  procs : List Proc
  clock : Nat

def nTables : Nat := 2

inductive Op
  /-- the table file is replaced (new content, new mtime) -/
  | touchTable (t : Nat)
  /-- a new interpreter starts (runs the import-time check first: see `step`) -/
  | spawn
  /-- process `p` loads table `t` into memory (`_ensure_loaded`) if it has not yet -/
  | load (p t : Nat)
  /-- first use of kernel `k` of table `t` with argument signature `sg` in process `p`: load the table if necessary, then
  either reuse the data file of that signature (if present) or compile from the version in memory, write the data file
  and (re)write the kernel's index file -/
  | firstUse (p t k sg : Nat)
  /-- `import pybes3` in a fresh interpreter: `check_numba_cache()`, interrupted after `crash` removals -/
  | importCheck (crash : Option Nat)
  /-- `clear_numba_cache()` -/
  | forceClear
  deriving Repr

def filesOf (s : St) (t : Nat) : List CacheFile := s.files.filter (fun f => f.table == t)

def minMtime (fs : List CacheFile) : Nat := fs.foldl (fun m f => min m f.mtime) (fs.headD ⟨0, 0, none, 0, 0⟩).mtime

/-- `cache_auto_clear(sources = table t, caches = glob of t, force)`; `budget` = removals still possible
before the interruption (`none` = unlimited). Returns the new file list and the remaining budget. -/
def cacheAutoClear (s : St) (t : Nat) (force : Bool) (files : List CacheFile) (budget : Option Nat) :
    List CacheFile × Option Nat :=
  let mine := files.filter (fun f => f.table == t)
  if mine.isEmpty then (files, budget)
  else if decide (s.tableMtime t > minMtime mine) || force then
    -- remove the matching files in glob order until the budget runs out
    match budget with
    | none => (files.filter (fun f => f.table != t), none)
    | some k =>
      let doomed := mine.take k
      (files.filter (fun f => !(doomed.contains f)), some (k - doomed.length))
  else (files, budget)

/-- `check_numba_cache` / `clear_numba_cache`: the (table, glob) pairs in order. `crash = some k`: the process
is interrupted after `k` file removals in total (nothing is removed afterwards); `none`: uninterrupted. -/
def sweep (s : St) (force : Bool) (crash : Option Nat) : List CacheFile :=
  ((List.range nTables).foldl
    (fun (acc : List CacheFile × Option Nat) t => cacheAutoClear s t force acc.1 acc.2) (s.files, crash)).1

def lookupLoaded (p : Proc) (t : Nat) : Option Nat := (p.loaded.find? (fun x => x.1 == t)).map (·.2)

def step (s : St) (op : Op) : St :=
  let s := { s with clock := s.clock + 1 }
  match op with
  | .touchTable t =>
    { s with tableMtime := fun x => if x = t then s.clock else s.tableMtime x,
             tableVersion := fun x => if x = t then s.tableVersion x + 1 else s.tableVersion x }
  | .spawn => { s with procs := s.procs ++ [⟨[]⟩] }
  | .load p t =>
    { s with procs := s.procs.mapIdx (fun i pr =>
        if i = p ∧ (lookupLoaded pr t).isNone then ⟨pr.loaded ++ [(t, s.tableVersion t)]⟩ else pr) }
  | .firstUse p t k sg =>
    match s.procs[p]? with
    | none => s
    | some pr =>
      let v := (lookupLoaded pr t).getD (s.tableVersion t)
      let procs := s.procs.mapIdx (fun i q =>
        if i = p ∧ (lookupLoaded q t).isNone then ⟨q.loaded ++ [(t, s.tableVersion t)]⟩ else q)
      if s.files.any (fun f => f.table == t && f.kernel == k && f.sig == some sg) then { s with procs := procs }   -- cache hit: files reused as they are
      else
        -- the index file is rewritten (new modification time) or created; the new data file is written
        let isIdx := fun (f : CacheFile) => f.table == t && f.kernel == k && f.sig == none
        let withIndex :=
          if s.files.any isIdx then s.files.map (fun f => if isIdx f then { f with mtime := s.clock } else f)
          else s.files ++ [⟨t, k, none, s.clock, 0⟩]
        { s with procs := procs, files := withIndex ++ [⟨t, k, some sg, s.clock, v⟩] }
  | .importCheck crash => { s with files := sweep s false crash }
  | .forceClear => { s with files := sweep s true none }

def init : St := { tableMtime := fun _ => 0, tableVersion := fun _ => 0, files := [], procs := [], clock := 0 }

def run (ops : List Op) : St := ops.foldl step init

/-- observable criterion: no cache file is older than its table -/
def MtimeFresh (s : St) : Prop := ∀ f ∈ s.files, s.tableMtime f.table ≤ f.mtime

/-- what the property is about: every compiled kernel on disk (data file) was compiled from the current table -/
def ContentFresh (s : St) : Prop := ∀ f ∈ s.files, f.isData = true → f.builtFrom = s.tableVersion f.table

end Pybes3Verif.Cache
