import Pybes3Verif.Model.TObjArray
/-!
Basket-level model of `Bes3CgemClusterColReader` (`root_io.hh`): one reader object per basket, its
`m_version` member starts at -1 (`none`), `read_data` calls `read` once per entry (the cursor must land on
the next entry offset), the version decided by the first cluster object ever read is kept for the rest of the
basket, and `data()` emits the key `m_recPositionY` iff `m_version == 0` at the end of the basket.
The per-entry parser `readCgemCol` lives in `Model/TObjArray.lean`.  Mathlib-free, computable.
-/
namespace Pybes3Verif.Root

/-- the per-entry loop of `read_data` for this reader: every entry must be consumed exactly, the version
decided so far (`m_version`) is threaded from entry to entry -/
def readCgemEntries : Option Nat → List (List Nat) → Option (List (List Cluster) × Option Nat)
  | v, [] => some ([], v)
  | v, bs :: rest =>
    match (readCgemCol v).run bs with
    | some ((cs, v'), []) =>
      (match readCgemEntries v' rest with
       | some (css, v'') => some (cs :: css, v'')
       | none => none)
    | _ => none

/-- one basket: a fresh reader (`m_version{ -1 }`) reads all entries of the basket -/
def cgemBasket (entries : List (List Nat)) : Option (List (List Cluster) × Option Nat) :=
  readCgemEntries none entries

/-- the member keys of the dict returned by `data()` (without "offsets"), in insertion order;
`m_recPositionY` is present iff `m_version == 0` -/
def cgemDataKeys (version : Option Nat) : List String :=
  ["m_clusterID", "m_trkID", "m_layerID", "m_sheetID", "m_flag", "m_energyDeposit", "m_recPhi"] ++
    (if version = some 0 then ["m_recPositionY"] else []) ++
    ["m_recV", "m_recZ", "m_clusterFlag", "m_stripID"]

/-- the keys a basket read delivers (`none` = the read raised) -/
def cgemBasketKeys (entries : List (List Nat)) : Option (List String) :=
  (cgemBasket entries).map (fun r => cgemDataKeys r.2)

end Pybes3Verif.Root
