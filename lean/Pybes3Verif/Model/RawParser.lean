/-!
Hand-written model of `src/pybes3/besio/cpp/raw_io.cc` (DESIGN.md §5.4, §6 C03/C15).

The parser state is the list of words *remaining* in the buffer (the C++ cursor is `buffer.length -
remaining.length`).  Words are `Nat`s `< 2^32`; `uint32_t` arithmetic is modelled with explicit wrap
(`sub32`).  Every memory access the C++ performs is explicit:

* `rawRead`, `rawSkip n`, `rawReadN n` are the *unchecked* pointer operations; used beyond the end of the
  buffer they yield the distinguished outcome `Res.oob` (an out-of-bounds read / a pointer past the end);
* `require n` is the bounds check added by the `fix:` commit; `read`, `skip`, `readN` are
  "check, then access", exactly as in the repaired source;
* the two `std::vector::erase` ranges of `read_ROB` are `eraseFront`/`eraseBack`, `oob` when the range
  exceeds the vector, and are preceded by the trailer validation of the repaired source.

Loops carry a fuel argument and return `Res.fuel` when it runs out, so termination is a theorem
(`Props/C15.lean`), not an assumption.  Mathlib-free; executed by `Driver/Raw.lean`.
-/
namespace Pybes3Verif.Raw

def W : Nat := 4294967296   -- 2^32

/-- `a - b` on `uint32_t` -/
def sub32 (a b : Nat) : Nat := (a + W - b % W) % W

inductive Err
  | eof | badEventFlag | badVersion | badEventSpec | badSubDetFlag | badRosFlag | badRosSpec
  | badRobFlag | badRodFlag | badTrailer | badEventSize
  deriving Repr, DecidableEq

inductive Res (α : Type)
  | ok (a : α) (rest : List Nat)
  | err (e : Err)
  | oob
  | fuel
  deriving Repr

structure P (α : Type) where
  run : List Nat → Res α

instance : Monad P where
  pure a := ⟨fun ws => .ok a ws⟩
  bind p f := ⟨fun ws => match p.run ws with
    | .ok a ws' => (f a).run ws'
    | .err e => .err e
    | .oob => .oob
    | .fuel => .fuel⟩

def fail {α : Type} (e : Err) : P α := ⟨fun _ => .err e⟩
def outOfFuel {α : Type} : P α := ⟨fun _ => .fuel⟩

/-! ### memory primitives -/

/-- `*(m_cursor++)` without a check -/
def rawRead : P Nat := ⟨fun ws => match ws with | [] => .oob | w :: r => .ok w r⟩
/-- `m_cursor += n` without a check (a pointer beyond one-past-the-end is already out of bounds) -/
def rawSkip (n : Nat) : P Unit := ⟨fun ws => if n ≤ ws.length then .ok () (ws.drop n) else .oob⟩
/-- `std::vector<uint32_t>(m_cursor, m_cursor + n); m_cursor += n` without a check -/
def rawReadN (n : Nat) : P (List Nat) :=
  ⟨fun ws => if n ≤ ws.length then .ok (ws.take n) (ws.drop n) else .oob⟩
/-- `RawBinaryParser::require` -/
def require (n : Nat) : P Unit := ⟨fun ws => if n ≤ ws.length then .ok () ws else .err .eof⟩
/-- is the cursor at the end of the buffer? (`m_cursor < m_data_end` negated) -/
def atEnd : P Bool := ⟨fun ws => .ok ws.isEmpty ws⟩

def read : P Nat := do require 1; rawRead
def skip (n : Nat) : P Unit := do require n; rawSkip n
def readN (n : Nat) : P (List Nat) := do require n; rawReadN n

/-- `v.erase(v.begin(), v.begin() + n)`; undefined behaviour (here: `none`) when `n > v.size()` -/
def eraseFront (v : List Nat) (n : Nat) : Option (List Nat) := if n ≤ v.length then some (v.drop n) else none
/-- `v.erase(v.begin() + n, v.end())` -/
def eraseBack (v : List Nat) (n : Nat) : Option (List Nat) := if n ≤ v.length then some (v.take n) else none

def liftErase (o : Option (List Nat)) : P (List Nat) := ⟨fun ws => match o with | some v => .ok v ws | none => .oob⟩

/-! ### constants (the generated file `Gen/RawConsts.lean` re-states them from the source; see Props) -/

def DATA_SEPERATOR : Nat := 0x1234CCCC
def FULL_EVENT : Nat := 0xAA1234AA
def SUB_DETECTOR : Nat := 0xBB1234BB
def ROS : Nat := 0xCC1234CC
def ROB : Nat := 0xDD1234DD
def ROD : Nat := 0xEE1234EE
def FORMAT_VERSION : Nat := 0x3000000

def MDC : Nat := 0xA1
def TOF : Nat := 0xA2
def EMC : Nat := 0xA3
def MUC : Nat := 0xA4
def TRG : Nat := 0xA5
def EF : Nat := 0x7C

/-- a decoded row: the fields of one digi in the column order of the returned dict -/
abbrev Row := List Nat

/-! ### fill_digi -/

/-- `std::map<uint16_t, std::array<uint16_t,3>>` as an association list kept sorted by key;
`upd m id f` is `f(m[id])` with `m[id]` default-initialised to (0,0,0) -/
def upd (m : List (Nat × Nat × Nat × Nat)) (id : Nat) (f : Nat × Nat × Nat → Nat × Nat × Nat) :
    List (Nat × Nat × Nat × Nat) :=
  match m with
  | [] => [(id, f (0, 0, 0))]
  | (k, v) :: rest =>
    if id < k then (id, f (0, 0, 0)) :: (k, v) :: rest
    else if id = k then (k, f v) :: rest
    else (k, v) :: upd rest id f

/-- one MDC/TOF word merged into the map: `digi_data[id][t_or_q] = value; digi_data[id][2] |= overflow` -/
def mergeWord (m : List (Nat × Nat × Nat × Nat)) (id tq val ov : Nat) : List (Nat × Nat × Nat × Nat) :=
  upd m id (fun (t, q, o) => if tq = 0 then (val, q, o ||| ov) else (t, val, o ||| ov))

def mdcFields (w : Nat) : Nat × Nat × Nat × Nat :=
  ((w &&& 0xFFFC0000) >>> 18, (w &&& 0x20000) >>> 17, w &&& 0xFFFF, (w &&& 0x10000) >>> 16)
def tofFields (w : Nat) : Nat × Nat × Nat × Nat :=
  ((w &&& 0x7FE00000) >>> 21, (w &&& 0x100000) >>> 20, w &&& 0x7FFF, (w &&& 0x80000) >>> 19)

/-- rows contributed by one ROB payload for sub-detector `det`
(MDC/TOF columns: id, t, q, overflow; EMC: id, t, q, measure; MUC: id, fec; TRG/EF: the raw word) -/
def fillDigi (det : Nat) (data : List Nat) : List Row :=
  if det = MDC then
    (data.foldl (fun m w => let (id, tq, val, ov) := mdcFields w; mergeWord m id tq val ov) []).map
      (fun (id, t, q, o) => [id, t, q, o])
  else if det = TOF then
    (data.foldl (fun m w => let (id, tq, val, ov) := tofFields w; mergeWord m id tq val ov) []).map
      (fun (id, t, q, o) => [id, t, q, o])
  else if det = EMC then
    data.map (fun w => [(w &&& 0xFFF80000) >>> 19, (w &&& 0x7E000) >>> 13, w &&& 0x7FF, (w &&& 0x1800) >>> 11])
  else if det = MUC then
    data.map (fun w => [(w >>> 16) &&& 0x7FF, w &&& 0xFFFF])
  else if det = TRG ∨ det = EF then
    data.map (fun w => [w])
  else []

/-! ### nested fragments -/

/-- `while (n_left > 0) n_left -= body()` on `uint32_t`; collects what the bodies produced -/
def loopLeft {α : Type} (body : P (List α × Nat)) : Nat → Nat → P (List α)
  | 0, _ => outOfFuel
  | f + 1, n =>
    if n = 0 then pure []
    else do
      let (rows, k) ← body
      let more ← loopLeft body f (sub32 n k)
      pure (rows ++ more)

/-- `read_ROB`: returns the rows of this ROB and its declared total size -/
def readROB (det : Nat) : P (List Row × Nat) := do
  let flag ← read
  if flag ≠ ROB then fail .badRobFlag else
  let total ← read
  let hsize ← read
  let _version ← read
  let _src ← read
  let nst ← read
  skip nst
  let nsp ← read
  skip nsp
  let flag2 ← read
  if flag2 ≠ ROD then fail .badRodFlag else
  let rodh ← read
  skip 7
  let sd ← readN (sub32 (sub32 (sub32 total hsize) rodh) 3)
  let rns ← read
  let rnd ← read
  let pos ← read
  if sd.length < rns ∨ sd.length < rnd then fail .badTrailer else
  let data ← liftErase (if pos = 0 then eraseFront sd rns else eraseBack sd rnd)
  pure (fillDigi det data, total)

/-- `read_ROS` -/
def readROS (fuel det : Nat) : P (List Row × Nat) := do
  let flag ← read
  if flag ≠ ROS then fail .badRosFlag else
  let total ← read
  let hsize ← read
  let _version ← read
  let _src ← read
  let nst ← read
  skip nst
  let nsp ← read
  if nsp ≠ 3 then fail .badRosSpec else
  skip 3
  let rows ← loopLeft (readROB det) fuel (sub32 total hsize)
  pure (rows, total)

/-- `read_sub_detector`: `(sub-detector id, rows)` contributions (empty when not selected) -/
def readSubDet (fuel : Nat) (sel : List Nat) : P (List (Nat × Row) × Nat) := do
  let flag ← read
  if flag ≠ SUB_DETECTOR then fail .badSubDetFlag else
  let total ← read
  let hsize ← read
  let _version ← read
  let src ← read
  let det := (src >>> 16) &&& 0xFFFF
  let nst ← read
  skip nst
  let nsp ← read
  skip nsp
  if ¬ sel.contains det then do
    skip (sub32 total hsize)
    pure ([], total)
  else do
    let rows ← loopLeft (readROS fuel det) fuel (sub32 total hsize)
    pure (rows.map (fun r => (det, r)), total)

/-- one decoded event: the 8 kept header words and the rows tagged by sub-detector, in stream order -/
structure EventRec where
  header : List Nat
  rows : List (Nat × Row)
  deriving Repr, DecidableEq

/-- `read_event` -/
def readEvent (fuel : Nat) (sel : List Nat) : P EventRec := do
  let flag0 ← read
  let flag ← (if flag0 = DATA_SEPERATOR then do skip 3; read else pure flag0)
  if flag ≠ FULL_EVENT then fail .badEventFlag else
  let total ← read
  let hsize ← read
  let version ← read
  if version ≠ FORMAT_VERSION then fail .badVersion else
  skip 1
  let nst ← read
  skip nst
  let nsp ← read
  if nsp ≠ 10 then fail .badEventSpec else
  let t ← read
  let no ← read
  let run ← read
  let l1 ← read
  skip 2
  let g1 ← read
  let g2 ← read
  let g3 ← read
  let g4 ← read
  let rows ← loopLeft (readSubDet fuel sel) fuel (sub32 total hsize)
  pure { header := [t, no, run, l1, g1, g2, g3, g4], rows := rows }

/-- `while (m_cursor < m_data_end) read_event()` -/
def readEvents (sel : List Nat) : Nat → P (List EventRec)
  | 0 => outOfFuel
  | f + 1 => do
    let e ← atEnd
    if e then pure [] else do
      let ev ← readEvent (f + 1) sel
      let more ← readEvents sel f
      pure (ev :: more)

/-- `py_read_bes_raw`: an empty selection means mdc, tof, emc, muc -/
def effectiveSel (sel : List Nat) : List Nat := if sel.isEmpty then [MDC, TOF, EMC, MUC] else sel

/-- the whole decode of one buffer, with the fuel that is always sufficient (`Props/C15`) -/
def parse (sel : List Nat) (ws : List Nat) : Res (List EventRec) :=
  (readEvents (effectiveSel sel) (ws.length + 1)).run ws

/-! ### columns and offsets as returned to Python -/

/-- rows of sub-detector `det` in event `e` -/
def rowsOf (det : Nat) (e : EventRec) : List Row := (e.rows.filter (fun r => r.1 == det)).map (·.2)

/-- offsets vector of `det`: starts at 0, one entry per event (`fill_offsets`) -/
def offsetsOf (det : Nat) (evs : List EventRec) : List Nat :=
  (evs.foldl (fun (acc : List Nat × Nat) e => let n := acc.2 + (rowsOf det e).length; (acc.1 ++ [n], n)) ([0], 0)).1

/-- flat rows of `det` over all events -/
def flatRowsOf (det : Nat) (evs : List EventRec) : List Row := evs.flatMap (rowsOf det)

end Pybes3Verif.Raw
