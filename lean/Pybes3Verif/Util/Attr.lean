import Lean
/-- Simp set holding the unfolding equations of every generated kernel (tagged by the translator). -/
register_simp_attr kernel_defs
