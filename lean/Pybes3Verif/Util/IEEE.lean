/-! Exact decoding of IEEE-754 binary64 bit patterns, so that statements about the geometry tables are exact integer
arithmetic and not floating point (DESIGN.md §2.2 (T), §6 C09).  Everything is `Nat`/`Bool` so that the kernel's
GMP-accelerated arithmetic applies: a finite double has value  (-1)^neg * mag * 2^(-1075)  with
`mag = mant * 2^e2` an exact natural number. -/
namespace Pybes3Verif.IEEE

def expField (b : Nat) : Nat := (b >>> 52) &&& 0x7FF
def fracField (b : Nat) : Nat := b &&& 0xFFFFFFFFFFFFF
def isNeg (b : Nat) : Bool := (b >>> 63) &&& 1 == 1
def isFinite (b : Nat) : Bool := expField b != 0x7FF
def mant (b : Nat) : Nat := if expField b = 0 then fracField b else fracField b + 4503599627370496
def e2 (b : Nat) : Nat := if expField b = 0 then 1 else expField b
/-- |value| * 2^1075, exact for every finite double -/
def mag (b : Nat) : Nat := mant b * 2 ^ e2 b

/-- sign of `a*d - b*c` for four finite doubles given by their bit patterns: 0 = negative, 1 = zero, 2 = positive -/
def crossSign (a d b c : Nat) : Nat :=
  let p := mag a * mag d
  let q := mag b * mag c
  let pn := (isNeg a != isNeg d) && p != 0
  let qn := (isNeg b != isNeg c) && q != 0
  if pn then (if qn then (if p < q then 2 else if p = q then 1 else 0) else 0)
  else (if qn then 2 else (if q < p then 2 else if p = q then 1 else 0))

/-- two finite doubles are different real numbers (distinct bit patterns, and not +0 / -0) -/
def valuesDiffer (a b : Nat) : Bool := a != b && !(mant a == 0 && mant b == 0)

end Pybes3Verif.IEEE
