import Pybes3Verif.Model.RawParser
/-! Canonical JSON rendering of decoded events (shared by the line-protocol drivers; not part of any theorem). -/
namespace Pybes3Verif.Raw.Render
open Pybes3Verif.Raw

def detOfBit : List (Nat × Nat × String × List String) :=
  [(0, MDC, "mdc", ["id", "tdc", "adc", "overflow"]), (1, TOF, "tof", ["id", "tdc", "adc", "overflow"]),
   (2, EMC, "emc", ["id", "tdc", "adc", "measure"]), (3, MUC, "muc", ["id", "fec"]),
   (4, TRG, "trg", ["data"]), (5, EF, "ef", ["data"])]

def selOfMask (m : Nat) : List Nat :=
  detOfBit.filterMap (fun (b, id, _, _) => if (m >>> b) &&& 1 = 1 then some id else none)

def jlist (xs : List Nat) : String := "[" ++ ",".intercalate (xs.map toString) ++ "]"

def column (rows : List Row) (i : Nat) : List Nat := rows.map (fun r => r.getD i 0)

def render (sel : List Nat) (evs : List EventRec) : String :=
  let hdrNames := ["evt_time", "evt_no", "run_no", "l1_id", "evt_tag1", "evt_tag2", "evt_tag3", "evt_tag4"]
  let hdr := ",".intercalate (hdrNames.mapIdx (fun i n => "\"" ++ n ++ "\":" ++ jlist (evs.map (fun e => e.header.getD i 0))))
  let dets := detOfBit.filterMap (fun (_, id, name, cols) =>
    if sel.contains id then
      let rows := flatRowsOf id evs
      some ("\"" ++ name ++ "\":{\"offsets\":" ++ jlist (offsetsOf id evs) ++ "," ++
        ",".intercalate (cols.mapIdx (fun i c => "\"" ++ c ++ "\":" ++ jlist (column rows i))) ++ "}")
    else none)
  "{\"evt_header\":{" ++ hdr ++ "}" ++ (if dets.isEmpty then "" else "," ++ ",".intercalate dets) ++ "}"

end Pybes3Verif.Raw.Render
