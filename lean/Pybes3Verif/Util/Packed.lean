/-! Balanced kernel evaluation of a decidable predicate over an initial segment of ℕ (DESIGN.md §5.2).
`allBlock p k lo` checks `p` on `[lo, lo + 2^k)` by halving, so the kernel's recursion depth is `k`
(a linear scan of several thousand entries overflows it). -/
namespace Pybes3Verif.Util

def allBlock (p : Nat → Bool) : Nat → Nat → Bool
  | 0, lo => p lo
  | k+1, lo => allBlock p k lo && allBlock p k (lo + 2^k)

theorem allBlock_spec (p : Nat → Bool) : ∀ k lo, allBlock p k lo = true →
    ∀ i, lo ≤ i → i < lo + 2^k → p i = true := by
  intro k
  induction k with
  | zero =>
    intro lo h i h1 h2
    simp [allBlock] at h
    have : i = lo := by omega
    subst this; exact h
  | succ k ih =>
    intro lo h i h1 h2
    simp [allBlock] at h
    by_cases hi : i < lo + 2^k
    · exact ih lo h.1 i h1 hi
    · exact ih (lo + 2^k) h.2 i (by omega) (by rw [Nat.pow_succ] at h2; omega)

/-- the form used by every table theorem: `p` holds below `n` when the guarded predicate evaluates to
`true` on a power-of-two block covering `n`. -/
theorem forall_lt_of_allBlock (p : Nat → Bool) (n k : Nat)
    (h : allBlock (fun i => decide (n ≤ i) || p i) k 0 = true) (hn : n ≤ 2^k) :
    ∀ i, i < n → p i = true := by
  intro i hi
  have := allBlock_spec _ k 0 h i (Nat.zero_le _) (by omega)
  simp at this
  rcases this with h1 | h1
  · omega
  · exact h1

end Pybes3Verif.Util
