/-
RootCppTie — the C++ readers of `root_io.hh` (`Bes3TObjArrayReader::read`, `Bes3CgemClusterColReader::read` / `data()`,
`Bes3SymMatrixArrayReader<T>`'s constructor / `read` / `get_symmetric_matrix_index`) and the `BinaryBuffer` primitives of the
third-party `uproot-custom.hh` they call, *translated from the C++ text on every run* (`Gen/RootCpp.lean`, by
`tools/translate/cpproot.py`), are the code the hand-written models of C01 / C16 (`Model/TObjArray.lean`, `Model/CgemCol.lean`,
`Model/SymMatrix.lean`) are about:

* the third-party constants and `read_fNBytes` / `skip_obj_header` / `skip_TObject` are the model's primitives;
* `Bes3TObjArrayReader::read` is `readTObjArray`;
* the object loop body / the object loop / `read` of `Bes3CgemClusterColReader` are `readCluster` / `readClusters` / `readCgemCol`
  (the parser `readCgemEntries` / `cgemBasket` of `Model/CgemCol.lean` iterate); the keys of `data()` are `cgemDataKeys`;
* the translated index expression is the one of `Gen/SymIndex.lean`, the constructor is `SymMatrix.accepts`, `read` is
  `SymMatrix.expand` on the first `flat` values of the stream (the block `expandMany` hands it).
-/
import Pybes3Verif.Gen.RootCpp
import Pybes3Verif.Model.CgemCol

namespace Pybes3Verif.Gen.RootCpp
open Pybes3Verif.Root Pybes3Verif.SymMatrix

/-! ### third party: constants and `BinaryBuffer` primitives -/

/-- the facts the translator checked in the sources (`true` is emitted only after the check; anything else is an `Unsupported`) and the
third-party constants it read from `uproot-custom.hh`, against the model's -/
theorem checked_facts :
    kByteCountMaskCpp = 0x40000000 ∧ kNewClassTagCpp = 0xFFFFFFFF ∧ kIsReferencedCpp = 16 ∧
    kByteCountMaskCpp = Root.kByteCountMask ∧ kNewClassTagCpp = Root.kNewClassTag ∧ kIsReferencedCpp = Root.kIsReferenced ∧
    readIsBigEndian = true ∧ skipPrimitivesAsModelled = true ∧
    offsetsAccumulateSize = true ∧ offsetsStartAtZero = true ∧ dataIsOffsetsThenElements = true ∧
    versionInitiallyUnknown = true ∧ symMembersFromCtorArgs = true := by decide

/-- `BinaryBuffer::read_fNBytes` (and `skip_fNBytes`, which only calls it) is the model's `readNBytes` -/
theorem readNBytesCpp_eq : readNBytesCpp = readNBytes := rfl

/-- `BinaryBuffer::skip_obj_header` is the model's `skipObjHeader` -/
theorem skipObjHeaderCpp_eq : skipObjHeaderCpp = skipObjHeader := rfl

/-- `BinaryBuffer::skip_TObject` is the model's `skipTObject` -/
theorem skipTObjectCpp_eq : skipTObjectCpp = skipTObject := rfl

/-- `BinaryBuffer::skip_TObject` with the byte count of each branch (10, or 12 with the pidf) is the model's `skipTObjectLen` -/
theorem skipTObjectLenCpp_eq : skipTObjectLenCpp = skipTObjectLen := rfl

/-! ### `Bes3TObjArrayReader` -/

/-- `Bes3TObjArrayReader::read`, statement by statement, is the model's `readTObjArray`, for every element reader -/
theorem readTObjArrayCpp_eq {ε : Type} (elem : P ε) : readTObjArrayCpp elem = readTObjArray elem := rfl

/-! ### monad laws of the parser monad `P` (it has no `LawfulMonad` instance) -/

/-- left identity -/
theorem P.pure_bind {α β : Type} (a : α) (f : α → P β) : (pure a >>= f) = f a := rfl

/-- associativity -/
theorem P.bind_assoc {α β γ : Type} (p : P α) (f : α → P β) (g : β → P γ) :
    (p >>= f >>= g) = (p >>= fun a => f a >>= g) := by
  show P.mk _ = P.mk _
  congr 1
  funext bs
  show (match (match p.run bs with | some (a, r) => (f a).run r | none => none) with
        | some (b, r) => (g b).run r | none => none) = _
  cases p.run bs with
  | none => rfl
  | some x => rfl

/-- `times` unfolds on a successor -/
theorem times_succ {α : Type} (p : P α) (k : Nat) :
    times p (k + 1) = (p >>= fun a => times p k >>= fun r => pure (a :: r)) := rfl

/-- one repetition -/
theorem times_one {α : Type} (p : P α) : times p 1 = (p >>= fun a => pure [a]) := rfl

/-- two repetitions, as two reads in a row -/
theorem times_two {α : Type} (p : P α) : times p 2 = (p >>= fun a => p >>= fun b => pure [a, b]) := by
  rw [show times p 2 = _ from times_succ p 1, times_one]
  simp only [P.bind_assoc, P.pure_bind]

/-- five repetitions, as five reads in a row -/
theorem times_five {α : Type} (p : P α) :
    times p 5 = (p >>= fun a => p >>= fun b => p >>= fun c => p >>= fun d => p >>= fun e => pure [a, b, c, d, e]) := by
  rw [show times p 5 = _ from times_succ p 4, show times p 4 = _ from times_succ p 3, show times p 3 = _ from times_succ p 2,
    times_two]
  simp only [P.bind_assoc, P.pure_bind]

/-! ### `Bes3CgemClusterColReader` -/

/-- the body of the object loop of `Bes3CgemClusterColReader::read` is the model's `readCluster`: same primitives in the same order,
the version decided by `fNBytes - (get_cursor() - obj_start)` being 84 / 76 (the model's `nb = 2 + tobj + 84 / 76`), the five
`int32`, the doubles with the optional `m_recpositiony`, the two arrays; the record holds the members in the order of `data()` -/
theorem readClusterCpp_eq (v : Option Nat) : readClusterCpp v = readCluster v := by
  have h84 : ∀ a c : Nat, (a - c = 84) = (a = c + 84) := fun a c => propext (by omega)
  have h76 : ∀ a c : Nat, (a - c = 76) = (a = c + 76) := fun a c => propext (by omega)
  unfold readClusterCpp readCluster
  cases v <;> simp only [h84, h76, times_one, times_two, times_five, P.bind_assoc, P.pure_bind]

/-- the object loop, threading `m_version`, is the model's `readClusters` -/
theorem readClustersCpp_eq (k : Nat) (v : Option Nat) : readClustersCpp k v = readClusters k v := by
  induction k generalizing v with
  | zero => rfl
  | succ k ih =>
    show (readClusterCpp v >>= _) = (readCluster v >>= _)
    rw [readClusterCpp_eq]
    congr 1
    funext x
    cases x with
    | mk c v' => show (readClustersCpp k (some v') >>= _) = (readClusters k (some v') >>= _); rw [ih]

/-- `Bes3CgemClusterColReader::read` for one entry is the model's `readCgemCol`, from every state of `m_version` -/
theorem readCgemColCpp_eq (v : Option Nat) : readCgemColCpp v = readCgemCol v := by
  unfold readCgemColCpp readCgemCol
  simp only [readClustersCpp_eq]

/-- the keys `Bes3CgemClusterColReader::data()` emits, in order, are the model's `cgemDataKeys` -/
theorem cgemDataKeysCpp_eq (v : Option Nat) : cgemDataKeysCpp v = cgemDataKeys v := rfl

/-! ### `Bes3SymMatrixArrayReader<T>` -/

/-- the index expression as translated here is the one `tools/translate/gen.py` translates into `Gen/SymIndex.lean` -/
theorem symIdxCpp_eq (i j : Nat) : symIdxCpp i j = Pybes3Verif.Gen.SymIndex.idx i j := by
  unfold symIdxCpp Pybes3Verif.Gen.SymIndex.idx
  first
    | rfl
    | (split <;> split <;> first | rfl | omega | ((obtain rfl : i = j := (by omega)); rfl))

/-- the constructor's double loop with its throw condition is the model's `accepts` on the translated index -/
theorem symAcceptsCpp_eq (flat n : Nat) : symAcceptsCpp flat n = accepts Pybes3Verif.Gen.SymIndex.idx flat n := by
  have h : symIdxCpp = Pybes3Verif.Gen.SymIndex.idx := funext fun i => funext fun j => symIdxCpp_eq i j
  unfold symAcceptsCpp accepts
  rw [h]

/-- `read` is the model's `expand` applied to the first `flat` values of the stream - exactly the block `expandMany` passes per object -/
theorem symExpandCpp_eq_take {α : Type} (flat n : Nat) (stream : List α) :
    symExpandCpp flat n stream = expand Pybes3Verif.Gen.SymIndex.idx n (stream.take flat) := by
  have h : symIdxCpp = Pybes3Verif.Gen.SymIndex.idx := funext fun i => funext fun j => symIdxCpp_eq i j
  unfold symExpandCpp expand
  rw [h]

/-- on a packed block that is not longer than the `flat` values the reader consumes (in particular of length `flat`), `read` is the
model's `expand` -/
theorem symExpandCpp_eq {α : Type} (flat n : Nat) (packed : List α) (hlen : packed.length ≤ flat) :
    symExpandCpp flat n packed = expand Pybes3Verif.Gen.SymIndex.idx n packed := by
  rw [symExpandCpp_eq_take, List.take_of_length_le hlen]

end Pybes3Verif.Gen.RootCpp
