import Pybes3Verif.Model.Forms
import Pybes3Verif.Proofs.FormsLemmas
/-!
C18: forms mirror contents. The type announced lazily equals the type computed eagerly for digi collections
(naturality of `processDigi` with respect to the leaf map), and the symmetric-matrix factory's announced inner
shape is the inner shape of its content.
-/
namespace Pybes3Verif.Forms
open Pybes3Verif.Root

/-- naturality of the dict update -/
theorem dictSet_map {α β : Type} (g : α → β) (d : List (String × α)) (k : String) (v : α) :
    (dictSet d k v).map (fun x => (x.1, g x.2)) = dictSet (d.map (fun x => (x.1, g x.2))) k (g v) :=
  dictSet_map' g d k v

/-- C18 for digi collections: the type announced lazily (form post-processed by `process_digi_subbranch_form`) equals the
type of the eagerly post-processed array — for every field list, duplicate names and name clashes with the lifted
fields included -/
theorem lazy_type_eq_eager_type {α β : Type} (ty : α → β) (content : List (String × Col α)) :
    lazyType ty content = eagerType ty content := by
  unfold lazyType eagerType
  exact processDigi_mapFields ty content

/-- the matrix factory's form mirrors its content: the inner shape of the content is the announced inner shape -/
theorem sym_form_mirrors_content (rawLen n : Nat) : (symContentShape rawLen n).tail = symFormInner n := rfl

end Pybes3Verif.Forms
