import Pybes3Verif.Proofs.HelixD
/-!
C11 / C12 (continued) : error matrices under there-and-back and under composition of pivot changes.

Subject: `jacobian` / `propagate` / `changePivot` of `Model/Helix.lean` instantiated with `realOps`.
Helper lemmas: `Proofs/HelixD.lean` (which builds on `Proofs/HelixA.lean`, `Proofs/HelixB.lean`,
`Props/C11.lean`, `Props/C12.lean`).
-/
namespace Pybes3Verif.Helix
open Real

local notation "R" => realOps

/-! ### Group D — C11/C12 : Jacobians and error matrices of successive pivot changes -/

/-- the Jacobian of the way back is the inverse of the Jacobian of the way there (as 5×5 matrices) -/
theorem jacobian_back_forth (h : Params ℝ) (p p' : Vec3 ℝ) (hv : Valid h) (hoff : OffCentre h p p')
    (hpi : dphiOf R h p p' ≠ π) (i j : Fin 5) :
    (∑ k : Fin 5, jacobian R (changePivot R h p p') p' p i k * jacobian R h p p' k j) = if i = j then 1 else 0 :=
  D.jacobian_mul_back h p p' hv hoff hpi i j

/-- there and back restores the error matrix (C11: "… and back restores the original parameters and error matrix") -/
theorem error_there_and_back (h : Params ℝ) (p p' : Vec3 ℝ) (hv : Valid h) (hoff : OffCentre h p p')
    (hpi : dphiOf R h p p' ≠ π) (E : Nat → Nat → ℝ) (i j : Fin 5) :
    propagate R (jacobian R (changePivot R h p p') p' p) (propagate R (jacobian R h p p') E) i j = E i j :=
  D.propagate_inv _ _ E (jacobian_back_forth h p p' hv hoff hpi) i j

/-- chain rule for two successive moves: when the accumulated turning angle stays within half a turn the Jacobian of the
direct move is the product of the Jacobians of the two steps -/
theorem jacobian_compose (h : Params ℝ) (p p₁ p₂ : Vec3 ℝ) (hv : Valid h) (h1 : OffCentre h p p₁) (h2 : OffCentre h p p₂)
    (hs : -π < dphiOf R h p p₁ + dphiOf R (changePivot R h p p₁) p₁ p₂ ∧
          dphiOf R h p p₁ + dphiOf R (changePivot R h p p₁) p₁ p₂ ≤ π) (i j : Fin 5) :
    (∑ k : Fin 5, jacobian R (changePivot R h p p₁) p₁ p₂ i k * jacobian R h p p₁ k j) = jacobian R h p p₂ i j :=
  D.jacobian_mul h p p₁ p₂ hv.kappa_ne h1 h2 hs i j

/-- … hence the error matrix after two successive moves is the error matrix of the direct move -/
theorem error_path_independent (h : Params ℝ) (p p₁ p₂ : Vec3 ℝ) (hv : Valid h) (h1 : OffCentre h p p₁) (h2 : OffCentre h p p₂)
    (hs : -π < dphiOf R h p p₁ + dphiOf R (changePivot R h p p₁) p₁ p₂ ∧
          dphiOf R h p p₁ + dphiOf R (changePivot R h p p₁) p₁ p₂ ≤ π) (E : Nat → Nat → ℝ) (i j : Fin 5) :
    propagate R (jacobian R (changePivot R h p p₁) p₁ p₂) (propagate R (jacobian R h p p₁) E) i j =
      propagate R (jacobian R h p p₂) E i j :=
  D.propagate_comp _ _ _ E (jacobian_compose h p p₁ p₂ hv h1 h2 hs) i j

/-! ### the hypotheses are satisfiable -/

/-- the three hypotheses of `jacobian_back_forth` / `error_there_and_back` hold for a concrete move that changes
the pivot in all three coordinates: `exHelixPos` (κ = 1, ρ = −α₀, dr = −1, φ0 = 3; `Proofs/HelixA.lean`) about
`(0, 0, 0)`, moved to the pivot `(cos 3, sin 3, 5)` (1 cm along the direction φ0; turning angle 0 ≠ π) -/
example : Valid exHelixPos ∧ OffCentre exHelixPos ⟨0, 0, 0⟩ (D.radialPivot exHelixPos ⟨0, 0, 0⟩ 1 5) ∧
    dphiOf R exHelixPos ⟨0, 0, 0⟩ (D.radialPivot exHelixPos ⟨0, 0, 0⟩ 1 5) ≠ π := by
  refine ⟨exHelixPos_valid, D.offCentre_radial _ _ _ _ D.exHelixPos_radial_ok, ?_⟩
  rw [D.dphiOf_radial _ _ _ _ exHelixPos_valid D.exHelixPos_radial_ok]
  exact Real.pi_pos.ne

example (E : Nat → Nat → ℝ) (i j : Fin 5) :
    propagate R (jacobian R (changePivot R exHelixPos ⟨0, 0, 0⟩ (D.radialPivot exHelixPos ⟨0, 0, 0⟩ 1 5))
        (D.radialPivot exHelixPos ⟨0, 0, 0⟩ 1 5) ⟨0, 0, 0⟩)
      (propagate R (jacobian R exHelixPos ⟨0, 0, 0⟩ (D.radialPivot exHelixPos ⟨0, 0, 0⟩ 1 5)) E) i j = E i j := by
  refine error_there_and_back _ _ _ exHelixPos_valid (D.offCentre_radial _ _ _ _ D.exHelixPos_radial_ok) ?_ E i j
  rw [D.dphiOf_radial _ _ _ _ exHelixPos_valid D.exHelixPos_radial_ok]
  exact Real.pi_pos.ne

/-- the hypotheses of `jacobian_compose` / `error_path_independent` hold for the two-step path
`(0,0,0) → (cos 3, sin 3, 5) → (0,0,0)` of `exHelixPos`: the two turning angles are 0 and −0 -/
example :
    let h := exHelixPos
    let p : Vec3 ℝ := ⟨0, 0, 0⟩
    let p₁ := D.radialPivot exHelixPos ⟨0, 0, 0⟩ 1 5
    Valid h ∧ OffCentre h p p₁ ∧ OffCentre h p p ∧
    -π < dphiOf R h p p₁ + dphiOf R (changePivot R h p p₁) p₁ p ∧
      dphiOf R h p p₁ + dphiOf R (changePivot R h p p₁) p₁ p ≤ π := by
  intro h p p₁
  have h0 : dphiOf R h p p₁ = 0 := D.dphiOf_radial _ _ _ _ exHelixPos_valid D.exHelixPos_radial_ok
  have hb : dphiOf R (changePivot R h p p₁) p₁ p = -dphiOf R h p p₁ :=
    D.dphiOf_back h p p₁ exHelixPos_valid (by rw [h0]; exact Real.pi_pos.ne)
  refine ⟨exHelixPos_valid, D.offCentre_radial _ _ _ _ D.exHelixPos_radial_ok,
    offCentre_self _ _ exHelixPos_valid, ?_, ?_⟩
  · rw [hb, h0]; linarith [Real.pi_pos]
  · rw [hb, h0]; linarith [Real.pi_pos]

/-- for every second pivot off the centre the hypotheses of `jacobian_compose` hold with a trivial first step
(`p₁ = p`), because a turning angle always lies in (−π, π] -/
example (p₂ : Vec3 ℝ) (h2 : OffCentre exHelixPos ⟨0, 0, 0⟩ p₂) (i j : Fin 5) :
    (∑ k : Fin 5, jacobian R (changePivot R exHelixPos ⟨0, 0, 0⟩ ⟨0, 0, 0⟩) ⟨0, 0, 0⟩ p₂ i k *
        jacobian R exHelixPos ⟨0, 0, 0⟩ ⟨0, 0, 0⟩ k j) = jacobian R exHelixPos ⟨0, 0, 0⟩ p₂ i j := by
  refine jacobian_compose _ _ _ _ exHelixPos_valid (offCentre_self _ _ exHelixPos_valid) h2 ?_ i j
  rw [B.dphiOf_self _ _ exHelixPos_valid, changePivot_self _ _ exHelixPos_valid, zero_add, dphiOf_eq]
  obtain ⟨g1, g2, -⟩ := normDphi_spec ((changePivot R exHelixPos ⟨0, 0, 0⟩ p₂).phi0 - exHelixPos.phi0)
  exact ⟨g1, g2⟩

end Pybes3Verif.Helix
