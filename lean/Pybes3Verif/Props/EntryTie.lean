/-
EntryTie — the package glue of pybes3, translated on every run from the five `__init__.py` files (`Gen/EntryPy.lean`): the public names
at which the properties are observed (`pybes3.open_raw`, `pybes3.concatenate`, `pybes3.parse_mdc_gid`, `pybes3.helix_awk`,
`pybes3.detectors.mdc_gid_to_layer`, ...) are bound to the definitions that the other translators tie to their models — not to a
wrapper, a re-decorated copy or a different function of the same name — and the thin wrappers of `besio/__init__.py` forward their
arguments unchanged.  The translator refuses any `__init__.py` statement that is not an import, `__all__` or an expected definition.
-/
import Pybes3Verif.Gen.EntryPy

namespace Pybes3Verif.Gen.EntryPy

/-- where the definition behind a name exported by a package lives: (defining module, defined name), if the name is exported at all -/
def definedAt (pkg name : String) : Option (String × String) :=
  (resolved.find? (fun r => r.1 == pkg && r.2.1 == name)).map (fun r => (r.2.2.1, r.2.2.2.1))

/-- the file readers: `pybes3.open_raw` / `pybes3.concatenate` / `pybes3.open` are the wrappers of `besio/__init__.py`,
`pybes3.concatenate_raw` IS `raw_io.concatenate` (an import alias, no wrapper in between) -/
theorem io_entry_points :
    definedAt "pybes3" "open_raw" = some ("pybes3.besio", "open_raw") ∧
    definedAt "pybes3" "concatenate" = some ("pybes3.besio", "concatenate") ∧
    definedAt "pybes3" "open" = some ("pybes3.besio", "open") ∧
    definedAt "pybes3" "concatenate_raw" = some ("pybes3.besio.raw_io", "concatenate") ∧
    definedAt "pybes3.besio" "concatenate_raw" = some ("pybes3.besio.raw_io", "concatenate") := by decide +kernel

/-- a wrapper is faithful when it passes exactly its own positional parameters, in order, and forwards `**kwargs` iff it takes them -/
def Wrapper.faithful (w : Wrapper) : Bool := w.passed == w.params && w.fwdKw == w.hasKw

/-- every function defined in `besio/__init__.py` forwards its arguments unchanged -/
theorem wrappers_faithful : ∀ w ∈ wrappers, w.faithful = true := by decide +kernel

/-- and they forward to uproot's functions of the same name / to the raw reader's constructor; three wrappers, no more -/
theorem wrapper_callees :
    wrappers.map (fun w => (w.name, w.callee)) =
      [("open", "uproot.open"), ("concatenate", "uproot.concatenate"), ("open_raw", "pybes3.besio.raw_io.RawBinaryReader")] := by decide +kernel

/-- `pybes3.concatenate(files, expressions=None, cut=None, **kwargs)`: the defaults are uproot's own (`None`), nothing is filled in -/
theorem concatenate_defaults : (wrappers.find? (fun w => w.name == "concatenate")).map (·.defaults) = some ["None", "None"] := by decide +kernel

def mdcNames : List String := ["get_mdc_gid", "get_mdc_wire_position", "mdc_gid_to_east_x", "mdc_gid_to_east_y", "mdc_gid_to_east_z", "mdc_gid_to_is_stereo", "mdc_gid_to_layer", "mdc_gid_to_stereo", "mdc_gid_to_superlayer", "mdc_gid_to_west_x", "mdc_gid_to_west_y", "mdc_gid_to_west_z", "mdc_gid_to_wire", "mdc_gid_z_to_x", "mdc_gid_z_to_y", "mdc_layer_to_is_stereo", "mdc_layer_to_superlayer"]
def emcNames : List String := ["emc_barrel_h1", "emc_barrel_h2", "emc_barrel_h3", "emc_barrel_l", "emc_barrel_offset_1", "emc_barrel_offset_2", "emc_barrel_r", "emc_gid_to_center_x", "emc_gid_to_center_y", "emc_gid_to_center_z", "emc_gid_to_front_center_x", "emc_gid_to_front_center_y", "emc_gid_to_front_center_z", "emc_gid_to_part", "emc_gid_to_phi", "emc_gid_to_point_x", "emc_gid_to_point_y", "emc_gid_to_point_z", "emc_gid_to_theta", "get_emc_crystal_position", "get_emc_gid"]
def parseNames : List String := ["parse_cgem_digi_id", "parse_emc_digi", "parse_emc_digi_id", "parse_emc_gid", "parse_mdc_digi", "parse_mdc_digi_id", "parse_mdc_gid", "parse_muc_digi_id", "parse_tof_digi_id"]
def trackNames : List String := ["HelixObject", "dr_phi0_to_x", "dr_phi0_to_y", "helix_awk", "helix_obj", "kappa_to_charge", "kappa_to_pt", "kappa_to_radius", "phi0_to_phi"]

/-- the module a public name must be defined in (the module whose source the other translators turn into the models) -/
def homeOf (name : String) : Option String :=
  if name ∈ parseNames then some "pybes3.detectors"
  else if name ∈ mdcNames then some "pybes3.detectors.geometry.mdc"
  else if name ∈ emcNames then some "pybes3.detectors.geometry.emc"
  else if name ∈ trackNames then some "pybes3.tracks.helix"
  else none

/-- every detector / geometry / track name, at every level it is exported (`pybes3.x`, `pybes3.detectors.x`, `pybes3.detectors.geometry.x`,
`pybes3.tracks.x`), is the definition of that name in its home module: the same object at every level, never a wrapper defined in between -/
theorem public_names_are_home_definitions :
    ∀ r ∈ resolved, ∀ h, homeOf r.2.1 = some h → (r.2.2.1 = h ∧ r.2.2.2.1 = r.2.1) := by decide +kernel

/-- how many exports that rule covers (non-vacuity) -/
example : (resolved.filter (fun r => (homeOf r.2.1).isSome)).length = 147 := by decide +kernel

/-- the names the properties are observed at are exported from the top-level package, and every listed family is complete there -/
theorem observed_names_exported :
    ∀ n ∈ ["open_raw", "concatenate_raw", "concatenate"] ++ parseNames ++ mdcNames ++ emcNames ++ trackNames, (definedAt "pybes3" n).isSome = true := by decide +kernel

/-- the pinned families are exactly what the sub-packages export: nothing exported from `detectors.geometry` / `tracks` escapes the rule above -/
theorem families_are_the_exports :
    all_pybes3_detectors_geometry = emcNames ++ mdcNames ∧ all_pybes3_tracks = trackNames ∧
    (∀ n ∈ all_pybes3_besio, n ∈ ["open", "concatenate", "open_raw", "concatenate_raw"]) := by decide +kernel

/-- `__all__` of the top-level package lists each name once, and exactly the sub-packages' lists plus the package's own names -/
theorem top_all_is_union :
    all_pybes3.Nodup ∧
    (∀ n ∈ all_pybes3_detectors_geometry ++ all_pybes3_tracks ++ all_pybes3_besio, n ∈ all_pybes3) ∧
    (∀ n ∈ all_pybes3, n ∈ all_pybes3_detectors_geometry ++ all_pybes3_tracks ++ all_pybes3_besio ∨ n ∈ parseNames ∨ n ∈ ["besio", "detectors", "tracks", "version", "__version__"]) := by
  decide +kernel

/-- the numba-cache check is imported and run before any sub-package (and so before any cached kernel) is imported -/
theorem cache_check_first : cacheCheckFirst = true := by decide +kernel

end Pybes3Verif.Gen.EntryPy
