import Pybes3Verif.Proofs.C09Centroid
import Pybes3Verif.Proofs.C09CentroidSound
/-! C09, centroid clause, as a statement in exact rational arithmetic on the decoded doubles of the published EMC table. -/
namespace Pybes3Verif.C09
open Pybes3Verif.Util Pybes3Verif.IEEE Pybes3Verif.Gen
open Pybes3Verif.Gen.Emc Pybes3Verif.Gen.EmcTables

/-- C09, centroid clause, as a theorem about the published table: for every barrel crystal (part = 1) and each axis, the stored
centre is the centroid of the eight stored corner points and the stored front centre the centroid of the first four, to within
2^-30 cm, in exact rational arithmetic on the decoded doubles -/
theorem emc_barrel_centroids (g : Nat) (hg : g < 6240) (hb : npz_part_raw g = 1) :
    (let p := fun k => npz_points_x_raw (8 * g + k)
     |8 * val (npz_center_x_raw g) - (val (p 0) + val (p 1) + val (p 2) + val (p 3) + val (p 4) + val (p 5) + val (p 6) + val (p 7))| ≤ 1 / 2 ^ 27 ∧
     |4 * val (npz_front_center_x_raw g) - (val (p 0) + val (p 1) + val (p 2) + val (p 3))| ≤ 1 / 2 ^ 28) ∧
    (let p := fun k => npz_points_y_raw (8 * g + k)
     |8 * val (npz_center_y_raw g) - (val (p 0) + val (p 1) + val (p 2) + val (p 3) + val (p 4) + val (p 5) + val (p 6) + val (p 7))| ≤ 1 / 2 ^ 27 ∧
     |4 * val (npz_front_center_y_raw g) - (val (p 0) + val (p 1) + val (p 2) + val (p 3))| ≤ 1 / 2 ^ 28) ∧
    (let p := fun k => npz_points_z_raw (8 * g + k)
     |8 * val (npz_center_z_raw g) - (val (p 0) + val (p 1) + val (p 2) + val (p 3) + val (p 4) + val (p 5) + val (p 6) + val (p 7))| ≤ 1 / 2 ^ 27 ∧
     |4 * val (npz_front_center_z_raw g) - (val (p 0) + val (p 1) + val (p 2) + val (p 3))| ≤ 1 / 2 ^ 28) := by
  have hx := centroidOk_sound _ _ _ _ g hb (centroidX_b g hg)
  have hy := centroidOk_sound _ _ _ _ g hb (centroidY_b g hg)
  have hz := centroidOk_sound _ _ _ _ g hb (centroidZ_b g hg)
  simp only [ent_points_x g _ (by omega : (0:Nat) < 8), ent_points_x g _ (by omega : (1:Nat) < 8),
    ent_points_x g _ (by omega : (2:Nat) < 8), ent_points_x g _ (by omega : (3:Nat) < 8),
    ent_points_x g _ (by omega : (4:Nat) < 8), ent_points_x g _ (by omega : (5:Nat) < 8),
    ent_points_x g _ (by omega : (6:Nat) < 8), ent_points_x g _ (by omega : (7:Nat) < 8)] at hx
  simp only [ent_points_y g _ (by omega : (0:Nat) < 8), ent_points_y g _ (by omega : (1:Nat) < 8),
    ent_points_y g _ (by omega : (2:Nat) < 8), ent_points_y g _ (by omega : (3:Nat) < 8),
    ent_points_y g _ (by omega : (4:Nat) < 8), ent_points_y g _ (by omega : (5:Nat) < 8),
    ent_points_y g _ (by omega : (6:Nat) < 8), ent_points_y g _ (by omega : (7:Nat) < 8)] at hy
  simp only [ent_points_z g _ (by omega : (0:Nat) < 8), ent_points_z g _ (by omega : (1:Nat) < 8),
    ent_points_z g _ (by omega : (2:Nat) < 8), ent_points_z g _ (by omega : (3:Nat) < 8),
    ent_points_z g _ (by omega : (4:Nat) < 8), ent_points_z g _ (by omega : (5:Nat) < 8),
    ent_points_z g _ (by omega : (6:Nat) < 8), ent_points_z g _ (by omega : (7:Nat) < 8)] at hz
  exact ⟨hx, hy, hz⟩

/-! ### Non-vacuity: crystal 2000 is a barrel crystal, so `emc_barrel_centroids` applies to it -/
namespace Pybes3Verif.C09
open Pybes3Verif.Gen.EmcTables
example : (2000 < 6240) ∧ npz_part_raw 2000 = 1 := by decide +kernel
end Pybes3Verif.C09
