import Pybes3Verif.Props.Nested
import Pybes3Verif.Model.Helix
/-!
C07 — helix arrays behave exactly like independent single-track helices.

Array mode of `change_pivot` (`helix.py::_awk_change_pivot` + `HelixAwkwardArray.change_pivot` after the `fix:` commits) is
"flatten every field, apply the per-track transformation to the flat lists, re-nest with the counts extracted from the
input layout, innermost level first".  The theorems below are the instances for helices of the general nested-array laws
proved in `Props/Nested.lean`; `changePivot` is the single-track model of C06/C11.
-/
namespace Pybes3Verif.C07
open Pybes3Verif.Nested Pybes3Verif.Helix

variable {α : Type}

/-- a track carries its parameters and its current pivot -/
abbrev Track (α : Type) := Params α × Vec3 α

/-- array-mode pivot change with a per-track new pivot (a common pivot is the array of copies, `broadcast`) -/
def changePivotArr (R : Ops α) (d : Nat) (hs : Nested (Track α) (d + 1)) (ps : Nested (Vec3 α) (d + 1)) : Nested (Track α) (d + 1) :=
  rebuild d (levels d hs) (List.zipWith (fun (h : Track α) p' => (changePivot R h.1 h.2 p', p')) (flat d hs) (flat d ps))

/-- every track of the result is the single-track result for that track alone (it does not depend on the other tracks
nor on how the array is nested), in the input's order, and the output has the input's nesting -/
theorem arr_eq_per_track (R : Ops α) (d : Nat) (hs : Nested (Track α) (d + 1)) (ps : Nested (Vec3 α) (d + 1))
    (hl : levels d ps = levels d hs) (hn : (flat d ps).length = (flat d hs).length) :
    flat d (changePivotArr R d hs ps) =
      List.zipWith (fun (h : Track α) p' => (changePivot R h.1 h.2 p', p')) (flat d hs) (flat d ps) ∧
    levels d (changePivotArr R d hs ps) = levels d hs := by
  have := viaFlat_zipWith (fun (h : Track α) (p' : Vec3 α) => (changePivot R h.1 h.2 p', p')) d hs ps hl hn
  exact ⟨this.2, this.1⟩

/-- a common pivot: broadcasting it to the array's nesting and applying the per-track operation equals mapping the
single-track operation over the array -/
theorem common_pivot (R : Ops α) (d : Nat) (hs : Nested (Track α) (d + 1)) (p' : Vec3 α) :
    viaFlat (List.map (fun (h : Track α) => (changePivot R h.1 h.2 p', p'))) d hs =
      mapN (fun (h : Track α) => (changePivot R h.1 h.2 p', p')) (d + 1) hs :=
  viaFlat_map _ d hs

/-- the per-track quantities (momentum, position, charge, radius) are ufuncs: same nesting, value of that track alone -/
theorem ufunc_per_track {β : Type} (f : Track α → β) (d : Nat) (hs : Nested (Track α) (d + 1)) :
    levels d (mapN f (d + 1) hs) = levels d hs ∧ flat d (mapN f (d + 1) hs) = (flat d hs).map f :=
  ⟨levels_mapN f d hs, flat_mapN f d hs⟩

/-- reordering the tracks reorders the results in the same way -/
theorem permutation_equivariant {β : Type} (f : Track α → β) (l l' : List (Track α)) (h : l.Perm l') :
    (l.map f).Perm (l'.map f) := map_perm f l l' h

/-- flatten -> counts -> unflatten restores any uniform-depth layout (any depth, empty events anywhere) -/
theorem nesting_restored {β : Type} (d : Nat) (t : Nested β (d + 1)) : rebuild d (levels d t) (flat d t) = t :=
  rebuild_levels_flat d t

end Pybes3Verif.C07
