/-
HelixTie — the *translated* pivot change (`Gen/HelixPy.lean`, regenerated from `/repo/src/pybes3/tracks/helix.py` on every
run, statement by statement, object path and array path, including the caller wiring `r = self.radius`) is, over ℝ, the
hand-written model `Model/Helix.lean::changePivot / jacobian` that the theorems of C06, C07, C11, C12 are about.

Consequence: the property theorems hold of what the source says *now*; a change of `_change_pivot` that alters its
real-number meaning breaks this file (a broken theorem obligation → failing-input search), a harmless re-association that
`ring` can see through does not.

Hypothesis `κ ≠ 0` only: at κ = 0 Python divides by zero (`radius`) while ℝ totalises `x / 0 = 0`; every property theorem
carries the same hypothesis.
-/
import Pybes3Verif.Proofs.HelixA
import Pybes3Verif.Gen.HelixPy

namespace Pybes3Verif.Helix
open Real

local notation "R" => realOps

set_option linter.unnecessarySeqFocus false

/-- `np.copysign(self.radius, -kappa)` is the model's signed radius -/
theorem copysign_radius_eq (k : ℝ) : npCopysign R (Py.radiusPy R k) (realOps.neg k) = signedRadius R k := by
  have ha : (0 : ℝ) ≤ alpha0 / |k| := div_nonneg alpha0_pos.le (abs_nonneg k)
  show (if decide (-k < (0:ℝ)) = true then -(abs (alpha0 / abs k)) else abs (alpha0 / abs k)) =
    (if decide ((0:ℝ) < k) = true then -(alpha0 / abs k) else alpha0 / abs k)
  rw [abs_of_nonneg ha]
  by_cases h : 0 < k
  · have h' : -k < 0 := by linarith
    simp [h, h']
  · have h' : ¬ (-k < 0) := by intro h'; apply h; linarith
    simp [h, h']

/-- `np.sign` of the signed radius is the model's `sgn` (the radius is non-zero for κ ≠ 0) -/
theorem npSign_signedRadius (k : ℝ) (hk : k ≠ 0) : npSign R (signedRadius R k) = sgn R (signedRadius R k) := by
  have hr : signedRadius R k ≠ 0 := by
    rw [signedRadius_eq_rho' k hk]
    exact div_ne_zero (neg_ne_zero.2 alpha0_pos.ne') hk
  generalize signedRadius R k = r at hr
  show (if decide (r < (0:ℝ)) = true then -(1:ℝ) else if decide ((0:ℝ) < r) = true then 1 else 0) =
    (if decide (r < (0:ℝ)) = true then -(1:ℝ) else 1)
  by_cases h : r < 0
  · simp [h]
  · have h2 : 0 < r := lt_of_le_of_ne (not_lt.1 h) (Ne.symm hr)
    simp [h, h2]

/-- `(r < 0) * np.pi` is the model's shift -/
theorem boolTimes_shift (r : ℝ) : boolTimes R (realOps.lt r realOps.zero) realOps.pi = (if realOps.lt r realOps.zero then realOps.pi else realOps.zero) := rfl

/-- **object path**: new parameters of the translated source = the model's `changePivot` -/
theorem py_obj_params (h : Params ℝ) (p p' : Vec3 ℝ) (hk : h.kappa ≠ 0) :
    let o := Py.changePivotWiredObj R h p p'
    let m := changePivot R h p p'
    o.1 = m.dr ∧ o.2.1 = m.phi0 ∧ o.2.2.1 = m.dz := by
  simp only [Py.changePivotWiredObj, Py.changePivotPyObj, changePivot, fromCentre, centre, normDphi, twoPi,
    copysign_radius_eq, npSign_signedRadius _ hk, boolTimes_shift, vecRho, vecPhi]
  split <;> trivial

/-- **array path** (`np.where` instead of `elif`): the same -/
theorem py_arr_params (h : Params ℝ) (p p' : Vec3 ℝ) (hk : h.kappa ≠ 0) :
    let o := Py.changePivotWiredArr R h p p'
    let m := changePivot R h p p'
    o.1 = m.dr ∧ o.2.1 = m.phi0 ∧ o.2.2.1 = m.dz := by
  simp only [Py.changePivotWiredArr, Py.changePivotPyArr, changePivot, fromCentre, centre, normDphi, twoPi,
    copysign_radius_eq, npSign_signedRadius _ hk, boolTimes_shift, vecRho, vecPhi]
  trivial

/-- object and array path of the source compute the same function (every output, every Jacobian entry) -/
theorem py_obj_eq_arr (h : Params ℝ) (p p' : Vec3 ℝ) :
    Py.changePivotWiredObj R h p p' = Py.changePivotWiredArr R h p p' := by
  simp only [Py.changePivotWiredObj, Py.changePivotWiredArr, Py.changePivotPyObj, Py.changePivotPyArr]

/-- **Jacobian**: every entry the source writes (and every entry it leaves 0) equals the model's `jacobian` -/
theorem py_arr_jacobian (h : Params ℝ) (p p' : Vec3 ℝ) (hk : h.kappa ≠ 0) (i j : Nat) :
    (Py.changePivotWiredArr R h p p').2.2.2 i j = jacobian R h p p' i j := by
  simp only [Py.changePivotWiredArr, Py.changePivotPyArr, jacobian, dphiOf, changePivot, fromCentre, centre, normDphi, twoPi,
    copysign_radius_eq, npSign_signedRadius _ hk, boolTimes_shift, vecRho, vecPhi]
  rcases i with _ | _ | _ | _ | _ | i <;> rcases j with _ | _ | _ | _ | _ | j <;>
    first
      | rfl
      | (simp only [R_add, R_sub, R_mul, R_div, R_neg, R_one, R_cos, R_sin, R_zero, R_pi, R_two] <;> ring_nf)

theorem py_obj_jacobian (h : Params ℝ) (p p' : Vec3 ℝ) (hk : h.kappa ≠ 0) (i j : Nat) :
    (Py.changePivotWiredObj R h p p').2.2.2 i j = jacobian R h p p' i j := by
  rw [py_obj_eq_arr]; exact py_arr_jacobian h p p' hk i j

/-- the hypotheses are satisfiable and the statement is not about a degenerate helix: a positive track moved off its
pivot has the model's (and hence the source's) new `dr` given by the closed form √(x² + y²)-based expression -/
example : (Py.changePivotWiredObj R ⟨1, 0, 2, 0, 1⟩ ⟨0, 0, 0⟩ ⟨0, 0, 0⟩).1 = (changePivot R ⟨1, 0, 2, 0, 1⟩ ⟨0, 0, 0⟩ ⟨0, 0, 0⟩).dr :=
  (py_obj_params ⟨1, 0, 2, 0, 1⟩ ⟨0, 0, 0⟩ ⟨0, 0, 0⟩ (by norm_num)).1

end Pybes3Verif.Helix
