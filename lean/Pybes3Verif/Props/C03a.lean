import Pybes3Verif.Proofs.RawRob
/-!
C03 (round trip), Group T part 1: bit-field packing, the MDC/TOF merge and one ROB fragment.
Statements as in `RawStatements.lean`; helper lemmas in `Proofs/RawRob.lean`.
-/
namespace Pybes3Verif.Raw
open Pybes3Verif.Raw.Spec

/-! ### Group T — C03 : well-formed streams decode exactly as encoded -/

/-- unpacking inverts packing for every field value of the full bit width (MDC word layout:
id 14 bits at 18, T/Q flag at 17, overflow at 16, value 16 bits) -/
theorem mdcFields_pack (id tq ov val : Nat) (h1 : id < 16384) (h2 : tq < 2) (h3 : ov < 2) (h4 : val < 65536) :
    mdcFields (id * 262144 + tq * 131072 + ov * 65536 + val) = (id, tq, val, ov) :=
  mdcFields_pack' id tq ov val h1 h2 h3 h4

/-- TOF word layout: (ignored bit 31) id 10 bits at 21, T/Q flag at 20, overflow at 19, (4 ignored bits), value 15 bits -/
theorem tofFields_pack (hi id tq ov mid val : Nat) (h0 : hi < 2) (h1 : id < 1024) (h2 : tq < 2) (h3 : ov < 2)
    (h5 : mid < 16) (h4 : val < 32768) :
    tofFields (hi * 2147483648 + id * 2097152 + tq * 1048576 + ov * 524288 + mid * 32768 + val) = (id, tq, val, ov) :=
  tofFields_pack' hi id tq ov mid val h0 h1 h2 h3 h5 h4

set_option linter.unusedVariables false in
/-- merging: within one readout fragment the rows are the distinct channel ids in ascending order, each with
the value of its last time word / last charge word (0 when missing) and the OR of its overflow bits;
calorimeter, muon and trigger words map one-to-one in stream order -/
theorem fillDigi_eq_robRows (det : Nat) (data : List Nat) (h : wordsOk data = true) :
    fillDigi det data = robRows det data :=
  fillDigi_eq_robRows' det data

/-- one ROB: `readROB` on its encoding (followed by anything) returns its rows and its size -/
theorem readROB_enc (det : Nat) (r : Rob) (rest : List Nat) (h : r.wf = true) :
    (readROB det).run (encRob r ++ rest) = .ok (robRows det r.data, (encRob r).length) rest :=
  readROB_enc' det r rest h

end Pybes3Verif.Raw
