import Pybes3Verif.Props.C03a
import Pybes3Verif.Props.C03b
/-!
C03 — raw DAQ files are decoded event-by-event exactly as encoded.

The property theorems live in `Props/C03a.lean` (word unpacking, T/Q merging, one ROB) and
`Props/C03b.lean` (nested fragments, whole streams, selection, concatenation); this file re-exports
the headline statements so that the audit lists them under one module.
-/
namespace Pybes3Verif.C03
open Pybes3Verif.Raw Pybes3Verif.Raw.Spec

/-- every well-formed block sequence decodes, for every selection, to exactly the intended records;
one record per event; nothing is left in the buffer -/
theorem raw_stream_roundtrip (sel : List Nat) (bs : List Block) (h : bs.all Block.wf = true) :
    parse sel (encBlocks bs) = .ok (expected sel bs) [] ∧
    (expected sel bs).length = (bs.flatMap (·.events)).length :=
  ⟨parse_encode sel bs h, expected_length sel bs⟩

/-- within one readout fragment the model's merge is the specified one -/
theorem merge_spec (det : Nat) (data : List Nat) (h : wordsOk data = true) :
    fillDigi det data = robRows det data := fillDigi_eq_robRows det data h

/-- non-vacuity: a concrete well-formed stream (2 blocks, 3 events, MDC T/Q words of one channel, status
words on both sides, an unknown and an unselected sub-detector, an empty ROS) -/
def exRob : Rob := { data := [0x00440005, 0x00460007, 0x00450001], status := [9, 9], statusFirst := false, posWord := 1,
                     robStatus := [1], robSpec := [], rodExtra := [0, 0, 0, 0, 0, 0, 0], src := 5 }
def exEvent (n : Nat) : Event :=
  { header := [100, n, 7, 3, 0, 0, 1, 2, 3, 4], status := [8], src := 1,
    subdets := [{ det := MDC, srcLow := 2, roses := [{ robs := [exRob, { exRob with statusFirst := true, data := [] }], status := [], spec := [1, 2, 3], src := 0 },
                                                       { robs := [], status := [4], spec := [0, 0, 0], src := 0 }], status := [], spec := [6] },
                { det := 0x55, srcLow := 0, roses := [], status := [], spec := [] },
                { det := TRG, srcLow := 0, roses := [{ robs := [exRob], status := [], spec := [1, 2, 3], src := 0 }], status := [], spec := [] }] }
def exBlocks : List Block := [{ w1 := 4, w2 := 0, w3 := 0, events := [exEvent 0, exEvent 1] }, { w1 := 4, w2 := 1, w3 := 0, events := [exEvent 2] }]

example : exBlocks.all Block.wf = true := by decide +kernel
example : (expected [] exBlocks).length = 3 ∧
    ((expected [] exBlocks).head?.map (·.rows)) = some [(MDC, [17, 1, 7, 1])] := by decide +kernel

end Pybes3Verif.C03
