import Pybes3Verif.Model.CgemCol
import Pybes3Verif.Spec.CgemStream
import Pybes3Verif.Proofs.CgemLemmas
/-!
C01 (CGEM part) — `Bes3CgemClusterColReader` (DESIGN.md §6 C01): the reader model applied to the
specification encoder of `m_recCgemClusterCol` returns exactly the encoded clusters, cluster by cluster,
event by event, basket by basket, for both class layouts and for referenced and unreferenced TObject bases;
the key set of `data()` is independent of the basket layout only for baskets that hold a cluster (or for the
layout without `m_recPositionY`), and a concrete two-basket stream shows that it does depend on the layout
otherwise.  Helper lemmas: `Pybes3Verif/Proofs/CgemLemmas.lean`.
-/

/-! ### Group Z — C01 : CGEM cluster collection streams -/
namespace Pybes3Verif.Root
open Pybes3Verif.Root.Spec

/-- one cluster object: for both class layouts (`v = 0` with `m_recPositionY`, `v = 1` without), every
well-formed cluster (either header variant, TObject referenced or not), a reader whose version is still
undecided or already decided as `v`, and any trailing bytes, the reader returns exactly the member values,
reports layout `v`, and stops right after the object -/
theorem readCluster_encode (v : Nat) (hv : v = 0 ∨ v = 1) (c : ClusterEnc) (hw : c.wf v = true)
    (ver : Option Nat) (hver : ver = none ∨ ver = some v) (rest : List Nat) :
    (readCluster ver).run (encCluster v c ++ rest) = some ((c.value, v), rest) :=
  readCluster_enc v hv c hw ver hver rest

/-- one entry (event): any number `< 2^32` of well-formed clusters of layout `v`: the reader returns exactly
the clusters in order and stops right after them; the version afterwards is `some v` if the event holds a
cluster and the incoming one (possibly still undecided) otherwise -/
theorem readCgemCol_encode (v : Nat) (hv : v = 0 ∨ v = 1) (e : CgemEntryEnc) (hw : e.wf v = true)
    (ver : Option Nat) (hver : ver = none ∨ ver = some v) (rest : List Nat) :
    (readCgemCol ver).run (encCgemEntry v e ++ rest) =
      some ((e.clusters.map (·.value), if e.clusters.isEmpty then ver else some v), rest) :=
  readCgemCol_enc v hv e hw ver hver rest

/-- one basket read by a fresh reader: same number of clusters per event, same order, nothing lost,
duplicated or moved between events (empty events anywhere); the version at the end of the basket is
undecided (`none`, the C++ `-1`) iff no event of the basket holds a cluster -/
theorem cgemBasket_encode (v : Nat) (hv : v = 0 ∨ v = 1) (events : List CgemEntryEnc)
    (hw : ∀ e ∈ events, e.wf v = true) :
    cgemBasket (events.map (encCgemEntry v)) =
      some (events.map (fun e => e.clusters.map (·.value)),
        if events.all (fun e => e.clusters.isEmpty) then none else some v) :=
  readCgemEntries_enc v hv events hw none (Or.inl rfl)

/-- layout independence of the key set of `data()`, partial: for any partition of the events of a branch
into baskets such that every basket holds at least one cluster (or the class layout is the one without
`m_recPositionY`), every basket delivers the same keys as one read of all events in a single basket -/
theorem cgem_keys_layout_independent_partial (v : Nat) (hv : v = 0 ∨ v = 1)
    (baskets : List (List CgemEntryEnc)) (hw : ∀ b ∈ baskets, ∀ e ∈ b, e.wf v = true)
    (hne : v = 1 ∨ ∀ b ∈ baskets, ∃ e ∈ b, e.clusters ≠ []) :
    ∃ ks, cgemBasketKeys (baskets.flatten.map (encCgemEntry v)) = some ks ∧
      ∀ b ∈ baskets, cgemBasketKeys (b.map (encCgemEntry v)) = some ks := by
  have hwAll : ∀ e ∈ baskets.flatten, e.wf v = true := by
    intro e he
    obtain ⟨b, hb, heb⟩ := List.mem_flatten.1 he
    exact hw b hb e heb
  refine ⟨_, cgemBasketKeys_enc v hv _ hwAll, fun b hb => ?_⟩
  rw [cgemBasketKeys_enc v hv b (hw b hb)]
  rcases hne with rfl | hne
  · rw [cgemDataKeys_ite_one, cgemDataKeys_ite_one]
  · obtain ⟨e, he, hcl⟩ := hne b hb
    rw [ite_allEmpty_false b v (allEmpty_false_of_mem b e he hcl),
      ite_allEmpty_false _ v (allEmpty_false_of_mem _ e (List.mem_flatten.2 ⟨b, hb, he⟩) hcl)]

set_option maxRecDepth 20000 in
/-- layout dependence, witness: a layout-0 stream of two well-formed events (one cluster | no cluster).
Read as one basket, `data()` has the key `m_recPositionY`; split into two baskets, the clusterless basket
ends with `m_version == -1` and omits the key — the conclusion of
`cgem_keys_layout_independent_partial` is false at this partition -/
theorem cgem_keys_layout_dependent_witness :
    sampleEventOne.wf 0 = true ∧ sampleEventNone.wf 0 = true ∧
    cgemBasketKeys ([sampleEventOne, sampleEventNone].map (encCgemEntry 0)) =
      some ["m_clusterID", "m_trkID", "m_layerID", "m_sheetID", "m_flag", "m_energyDeposit", "m_recPhi",
        "m_recPositionY", "m_recV", "m_recZ", "m_clusterFlag", "m_stripID"] ∧
    cgemBasketKeys ([sampleEventOne].map (encCgemEntry 0)) =
      some ["m_clusterID", "m_trkID", "m_layerID", "m_sheetID", "m_flag", "m_energyDeposit", "m_recPhi",
        "m_recPositionY", "m_recV", "m_recZ", "m_clusterFlag", "m_stripID"] ∧
    cgemBasketKeys ([sampleEventNone].map (encCgemEntry 0)) =
      some ["m_clusterID", "m_trkID", "m_layerID", "m_sheetID", "m_flag", "m_energyDeposit", "m_recPhi",
        "m_recV", "m_recZ", "m_clusterFlag", "m_stripID"] ∧
    ¬ ∃ ks, cgemBasketKeys ([[sampleEventOne], [sampleEventNone]].flatten.map (encCgemEntry 0)) = some ks ∧
      ∀ b ∈ [[sampleEventOne], [sampleEventNone]], cgemBasketKeys (b.map (encCgemEntry 0)) = some ks := by
  have h12 : cgemBasket ([sampleEventOne, sampleEventNone].map (encCgemEntry 0)) =
      some ([[sampleCluster0.value], []], some 0) := by decide
  have h1 : cgemBasket ([sampleEventOne].map (encCgemEntry 0)) = some ([[sampleCluster0.value]], some 0) := by
    decide
  have h2 : cgemBasket ([sampleEventNone].map (encCgemEntry 0)) = some ([[]], none) := by decide
  have k12 : cgemBasketKeys ([sampleEventOne, sampleEventNone].map (encCgemEntry 0)) =
      some (cgemDataKeys (some 0)) := by unfold cgemBasketKeys; rw [h12]; rfl
  have k1 : cgemBasketKeys ([sampleEventOne].map (encCgemEntry 0)) = some (cgemDataKeys (some 0)) := by
    unfold cgemBasketKeys; rw [h1]; rfl
  have k2 : cgemBasketKeys ([sampleEventNone].map (encCgemEntry 0)) = some (cgemDataKeys none) := by
    unfold cgemBasketKeys; rw [h2]; rfl
  refine ⟨by decide, by decide, k12, k1, k2, ?_⟩
  rintro ⟨ks, hall, hb⟩
  have e12 : [[sampleEventOne], [sampleEventNone]].flatten = [sampleEventOne, sampleEventNone] := rfl
  rw [e12, k12] at hall
  have hnone := hb [sampleEventNone] (List.mem_cons_of_mem _ List.mem_cons_self)
  rw [k2, ← hall] at hnone
  exact cgemDataKeys_ne (Option.some.inj hnone)

/-- the hypotheses of the round-trip theorems are satisfiable: concrete non-trivial clusters of both layouts
(new-class-tag header with class name / class-reference tag, negative `Int_t`, non-zero doubles) -/
example : sampleCluster0.wf 0 = true ∧ sampleCluster1.wf 1 = true ∧ sampleEventOne.wf 0 = true := by decide

/-- a *referenced* first cluster (byte count 98, pidf present) is well-formed and is read back by a fresh
reader, followed by an unreferenced one (byte count 96) in the same event -/
example : sampleCluster0Ref.wf 0 = true ∧ sampleCluster0Ref.bits &&& kIsReferenced ≠ 0 ∧
    sampleEventRef.wf 0 = true ∧
    ((encCluster 0 sampleCluster0Ref).drop 24).take 4 = [64, 0, 0, 98] ∧
    ((encCluster 0 sampleCluster0).drop 24).take 4 = [64, 0, 0, 96] ∧
    ((encCluster 1 sampleCluster1).drop 8).take 4 = [64, 0, 0, 88] ∧
    (readCluster none).run (encCluster 0 sampleCluster0Ref ++ [1, 2, 3]) =
      some ((sampleCluster0Ref.value, 0), [1, 2, 3]) ∧
    cgemBasket [encCgemEntry 0 sampleEventRef] =
      some ([[sampleCluster0Ref.value, sampleCluster0.value]], some 0) := by
  refine ⟨by decide, by decide, by decide, by decide, by decide, by decide, ?_, ?_⟩
  · exact readCluster_encode 0 (Or.inl rfl) sampleCluster0Ref (by decide) none (Or.inl rfl) [1, 2, 3]
  · exact cgemBasket_encode 0 (Or.inl rfl) [sampleEventRef] (by decide)

end Pybes3Verif.Root
