import Std.Tactic.BVDecide
import Pybes3Verif.Proofs.C08MdcA
import Pybes3Verif.Proofs.C08MdcB
import Pybes3Verif.Proofs.C08MdcC
import Pybes3Verif.Proofs.C08MdcPair
import Pybes3Verif.Proofs.C08EmcA
import Pybes3Verif.Proofs.C08EmcB
import Pybes3Verif.Proofs.C08EmcC
/-!
C08 — Global IDs are a dense, documented, invertible numbering of detector elements.

Statements are about `Gen/Mdc.lean`, `Gen/Emc.lean` (kernels translated from geometry/mdc.py, emc.py),
`Gen/MdcTables.lean`, `Gen/EmcTables.lean` (the npz columns read from the files and the module globals
as evaluated by the loaders), `Gen/DigiId.lean` and `Gen/DocGid.lean` (ranges parsed from
docs/user-manual/detector/global-id.md) — all regenerated from /repo on every run.
Every quantifier over wires / crystals is discharged by kernel evaluation over the *whole* table
(`decide +kernel`, lifted by `Util.forall_lt_of_allBlock`); the out-of-range behaviour of `get_emc_gid`
is symbolic (`bv_decide`).
-/

namespace Pybes3Verif.C08
open Pybes3Verif.Util Pybes3Verif.Gen Pybes3Verif.Gen.DigiId

section MDC
open Pybes3Verif.Gen.Mdc Pybes3Verif.Gen.MdcTables

/-- density: the gid column of the table is 0..6795, matching the documented range -/
theorem mdc_dense : (∀ g, g < 6796 → npz_gid g = B g) ∧ npz_gid_len = 6796 ∧ DocGid.mdcRange = (0, 6795) := by
  refine ⟨fun g hg => ?_, mdcStartEnds.2.2.1, mdcStartEnds.2.2.2.2.2.2⟩
  simpa [mdcDenseOk] using mdcDense_b g hg

/-- order: (layer, wire) increases strictly lexicographically along the gid -/
theorem mdc_order (g : Nat) (hg : g + 1 < 6796) :
    (mdc_gid_to_layer (B g)).toNat < (mdc_gid_to_layer (B (g + 1))).toNat ∨
    ((mdc_gid_to_layer (B g)).toNat = (mdc_gid_to_layer (B (g + 1))).toNat ∧
      (mdc_gid_to_wire (B g)).toNat < (mdc_gid_to_wire (B (g + 1))).toNat) := by
  have := mdcOrder_b g (by simp [nWires]; omega)
  simpa [mdcOrderOk] using this

/-- gid → (layer, wire) → gid -/
theorem mdc_gid_of_fields (g : Nat) (hg : g < 6796) :
    get_mdc_gid (mdc_gid_to_layer (B g)) (mdc_gid_to_wire (B g)) = B g := by
  simpa [mdcInvOk] using mdcInv_b g hg

/-- (layer, wire) → gid → (layer, wire), for every wire below the layer's wire count -/
theorem mdc_fields_of_gid (l w : Nat) (hl : l < 43) (hw : w < wiresOf l) :
    mdc_gid_to_layer (get_mdc_gid (B l) (B w)) = B l ∧ mdc_gid_to_wire (get_mdc_gid (B l) (B w)) = B w ∧
    (get_mdc_gid (B l) (B w)).toNat < 6796 := by
  have hle : wiresOf l ≤ 320 := by simpa [wiresLeOk] using wiresLe_b l hl
  have hw' : w < 320 := by omega
  have h := mdcPair_b (l * 320 + w) (by omega)
  have e1 : (l * 320 + w) / 320 = l := by omega
  have e2 : (l * 320 + w) % 320 = w := by omega
  simp only [mdcPairOk, e1, e2] at h
  simp [nLayers, nWires, hl, hw] at h
  exact ⟨h.1.1, h.1.2, of_decide_eq_true h.2⟩

/-- the loader's `layer_start_gid` is the cumulative wire count: it brackets every wire of its layer,
starts at 0 and ends at 6796 -/
theorem mdc_layer_start (g : Nat) (hg : g < 6796) :
    (mod_layer_start_gid (mdc_gid_to_layer (B g)).toNat).toNat ≤ g ∧
    g < (mod_layer_start_gid ((mdc_gid_to_layer (B g)).toNat + 1)).toNat ∧ (mdc_gid_to_layer (B g)).toNat < 43 := by
  have := mdcStart_b g hg
  simp only [mdcStartOk, nLayers, Bool.and_eq_true, decide_eq_true_eq] at this
  exact ⟨this.1.1, this.1.2, of_decide_eq_true this.2⟩

theorem mdc_layer_start_ends : (mod_layer_start_gid 0).toNat = 0 ∧ (mod_layer_start_gid 43).toNat = 6796 :=
  ⟨mdcStartEnds.1, mdcStartEnds.2.1⟩

/-- digi route: identifier built from the fields of wire g passes the MDC check and decodes to gid g -/
theorem mdc_digi_route (g : Nat) (hg : g < 6796) :
    let id := get_mdc_digi_id (mdc_gid_to_wire (B g)) (mdc_gid_to_layer (B g)) (mdc_gid_to_is_stereo (B g))
    check_mdc_id id = true ∧ get_mdc_gid (mdc_id_to_layer id) (mdc_id_to_wire id) = B g := by
  have := mdcDigi_b g hg
  simp only [mdcDigiOk, Bool.and_eq_true, beq_iff_eq] at this
  exact ⟨this.1.1, this.1.2⟩

example : wiresOf 0 = 40 ∧ wiresOf 42 = 288 := by decide +kernel
end MDC

section EMC
open Pybes3Verif.C08E Pybes3Verif.Gen.Emc Pybes3Verif.Gen.EmcTables

theorem emc_dense : (∀ g, g < 6240 → npz_gid g = C08E.B g) ∧ npz_gid_len = 6240 ∧
    DocGid.emcParts = [(0, 479), (480, 5759), (5760, 6239)] := by
  refine ⟨fun g hg => ?_, emcRings.2.2.2.2.2.2.1, emcRings.2.2.2.2.1⟩
  simpa [emcDenseOk] using emcDense_b g hg

/-- order: part, then theta (descending for endcap 1), then phi -/
theorem emc_order (g : Nat) (hg : g + 1 < 6240) : emcOrderOk g = true :=
  emcOrder_b g (by simp [nCrystals]; omega)

theorem emc_gid_of_fields (g : Nat) (hg : g < 6240) :
    get_emc_gid (emc_gid_to_part (C08E.B g)) (emc_gid_to_theta (C08E.B g)) (emc_gid_to_phi (C08E.B g)) = C08E.B g := by
  simpa [emcInvOk] using emcInv_b g hg

/-- (part, theta, phi) → gid → (part, theta, phi) over the documented domain -/
theorem emc_fields_of_gid (p t f n : Nat) (hp : p < 4) (ht : t < 64) (hr : docRing p t = some n) (hf : f < n)
    (hf' : f < 128) :
    let g := get_emc_gid (C08E.B p) (C08E.B t) (C08E.B f)
    emc_gid_to_part g = C08E.B p ∧ emc_gid_to_theta g = C08E.B t ∧ emc_gid_to_phi g = C08E.B f ∧ g.toNat < 6240 := by
  have h := emcTriple_b (p * 8192 + t * 128 + f) (by omega)
  have e1 : (p * 8192 + t * 128 + f) / 8192 = p := by omega
  have e2 : (p * 8192 + t * 128 + f) / 128 % 64 = t := by omega
  have e3 : (p * 8192 + t * 128 + f) % 128 = f := by omega
  simp only [emcTripleOk, e1, e2, e3, hr] at h
  simp [hf, nCrystals] at h
  exact ⟨h.1.1.1, h.1.1.2, h.1.2, of_decide_eq_true h.2⟩

/-- ring starts/ends equal the documented ranges; the documented domain has exactly 6240 elements -/
theorem emc_rings_documented : ringRowsOk 0 DocGid.emcEndcap0 = true ∧ ringRowsOk 2 DocGid.emcEndcap1 = true ∧
    get_emc_gid (C08E.B 1) (C08E.B 0) (C08E.B 0) = C08E.B 480 ∧
    get_emc_gid (C08E.B 1) (C08E.B 43) (C08E.B 119) = C08E.B 5759 ∧
    (DocGid.emcEndcap0.map (fun r => r.2.2.1)).sum + 44 * 120 + (DocGid.emcEndcap1.map (fun r => r.2.2.1)).sum = 6240 :=
  ⟨emcRings.1, emcRings.2.1, emcRings.2.2.1, emcRings.2.2.2.1, emcRings.2.2.2.2.2.1⟩

theorem emc_digi_route (g : Nat) (hg : g < 6240) :
    let id := get_emc_digi_id (emc_gid_to_part (C08E.B g)) (emc_gid_to_theta (C08E.B g)) (emc_gid_to_phi (C08E.B g))
    check_emc_id id = true ∧ get_emc_gid (emc_id_to_module id) (emc_id_to_theta id) (emc_id_to_phi id) = C08E.B g := by
  have := emcDigi_b g hg
  simp only [emcDigiOk, Bool.and_eq_true, beq_iff_eq] at this
  exact this

/-- a part that names no EMC part yields the invalid marker (symbolic, all 64-bit inputs) -/
theorem emc_invalid_part (p t f : BitVec 64) (h : p ≠ 0 ∧ p ≠ 1 ∧ p ≠ 2) : get_emc_gid p t f = 65535 := by
  revert h; simp only [kernel_defs]; bv_decide

/-- an end-cap theta outside 0..5 yields the invalid marker -/
theorem emc_invalid_endcap_theta (p t f : BitVec 64) (hp : p = 0 ∨ p = 2) (ht : ¬ t.ult 6) :
    get_emc_gid p t f = 65535 := by
  revert hp ht; simp only [kernel_defs]; bv_decide

example : docRing 0 3 = some 80 ∧ docRing 2 5 = some 96 ∧ docRing 1 43 = some 120 ∧ docRing 1 44 = none := by decide
end EMC

end Pybes3Verif.C08
