/-
AwkTie — the array side of the helix code (`_utils.py::_extract_index`, `_flat_to_numpy`, `helix.py::_awk_change_pivot`, both
`change_pivot` methods, `_awk_regularize_pivot`, the tail of `helix_awk`), *translated from the source on every run*
(`Gen/AwkPy.lean`, by `tools/translate/awkpy.py`), is the flatten / per-track / re-nest scheme the model of C07 is about
(`Model/Nested.lean`: `flat`, `levels`, `unflat`, `rebuild`, `viaFlat`, `mapN`):

* the counts `_extract_index` reads off the (packed) layout of a `d + 1`-deep jagged array are the model's `levels`; option / index /
  union wrappers do not change them, a regular level contributes its size;
* the loop `for count in reversed(raw_shape): res = ak.unflatten(res, count)` never raises on counts that fit the data and builds the
  model's `rebuild`; with the counts and the leaves of one array it restores that array, with the per-track results in place of the
  leaves it is `viaFlat`, hence the per-track function mapped in place (`mapN`);
* the loop runs innermost level first; outermost first raises ValueError from three list levels on (explicit witness);
* the data flow of `_awk_change_pivot`: every argument of the per-track `_change_pivot` is the flattened field of the same name, the
  counts come from the input's own layout, nothing but the fields is read; a scalar pivot is broadcast to every track, components in
  the order x, y, z; `helix_awk` zips at exactly the depth of the nesting.
-/
import Pybes3Verif.Props.Nested
import Pybes3Verif.Gen.AwkPy

namespace Pybes3Verif.Gen.AwkPy
open Pybes3Verif.Nested

variable {α β : Type}

/-! ### layouts of uniform-depth jagged arrays -/

/-- the offsets of a packed ListOffsetArray with the given counts: `start, start + c₀, start + c₀ + c₁, …` -/
def offsetsFrom (start : Nat) : List Nat → List Nat
  | [] => [start]
  | c :: cs => start :: offsetsFrom (start + c) cs

/-- the packed layout of a `d + 1`-deep jagged array: `d` ListOffsetArray levels (offsets from 0, counts = the model's `levels`) over
a leaf level -/
def layoutOver (leaf : Layout) : (d : Nat) → Nested α (d + 1) → Layout
  | 0, _ => leaf
  | d + 1, xs => .listOffset (offsetsFrom 0 (List.map List.length xs)) (layoutOver leaf d (List.flatten xs))

/-- … over a NumpyArray (the layout of the field `dr` of a helix array) -/
def layoutOf (d : Nat) (t : Nested α (d + 1)) : Layout := layoutOver .numpy d t

theorem layoutOver_succ (leaf : Layout) (d : Nat) (xs : List (List (Nested α d))) :
    layoutOver (α := α) leaf (d + 1) xs =
      .listOffset (offsetsFrom 0 (List.map List.length xs)) (layoutOver leaf d (List.flatten xs)) := rfl

/-- `offsets[1:] - offsets[:-1]` of packed offsets are the counts -/
theorem diffs_offsetsFrom (s : Nat) (cs : List Nat) :
    List.zipWith (· - ·) ((offsetsFrom s cs).drop 1) (offsetsFrom s cs).dropLast = cs := by
  induction cs generalizing s with
  | nil => rfl
  | cons c cs ih =>
    have ih' := ih (s + c)
    obtain ⟨tl, h⟩ : ∃ tl, offsetsFrom (s + c) cs = (s + c) :: tl := by cases cs <;> exact ⟨_, rfl⟩
    show List.zipWith (· - ·) ((s :: offsetsFrom (s + c) cs).drop 1) (s :: offsetsFrom (s + c) cs).dropLast = c :: cs
    rw [h] at ih' ⊢
    simp only [List.drop_succ_cons, List.drop_zero, List.dropLast_cons_cons, List.zipWith_cons_cons] at ih' ⊢
    rw [ih']
    congr 1
    omega

/-- the ListOffsetArray rule on packed offsets -/
theorem extractIndex_listOffset (c : List Nat) (l : Layout) :
    extractIndexPy (.listOffset (offsetsFrom 0 c) l) = (extractIndexPy l).map (fun rest => Level.counts c :: rest) := by
  rw [extractIndexPy, diffs_offsetsFrom]
  rfl

theorem extractIndex_layoutOver_step (leaf : Layout) (d : Nat) (t : List (List (Nested α d)))
    (ih : extractIndexPy (layoutOver leaf d t.flatten) = some ((levels d t.flatten).map Level.counts)) :
    extractIndexPy (layoutOver (α := α) leaf (d + 1) t) = some ((levels (α := α) (d + 1) t).map Level.counts) := by
  rw [layoutOver_succ, extractIndex_listOffset, ih, levels_succ]
  rfl

/-- the code's shape extraction on a jagged array over any leaf level that ends the recursion -/
theorem extractIndex_layoutOver (leaf : Layout) (hleaf : extractIndexPy leaf = some []) :
    (d : Nat) → (t : Nested α (d + 1)) → extractIndexPy (layoutOver leaf d t) = some ((levels d t).map Level.counts)
  | 0, _ => hleaf
  | d + 1, t => extractIndex_layoutOver_step leaf d t (extractIndex_layoutOver leaf hleaf d (List.flatten (α := Nested α d) t))

/-- **`_extract_index` is the model's `levels`**: on the layout of a `d + 1`-deep jagged array the code returns (never raises) the
per-level counts, outermost level first -/
theorem extractIndex_eq_levels (d : Nat) (t : Nested α (d + 1)) :
    extractIndexPy (layoutOf d t) = some ((levels d t).map Level.counts) :=
  extractIndex_layoutOver .numpy rfl d t

/-- the same over a RecordArray leaf (the layout of the helix array itself) -/
theorem extractIndex_eq_levels_record (d : Nat) (t : Nested α (d + 1)) :
    extractIndexPy (layoutOver .record d t) = some ((levels d t).map Level.counts) :=
  extractIndex_layoutOver .record rfl d t

/-! ### wrappers do not change the extracted shape -/

/-- an IndexedArray (left by `to_packed` only in exotic cases) is transparent -/
theorem extractIndex_indexed (l : Layout) : extractIndexPy (.indexed l) = extractIndexPy l := by rw [extractIndexPy]
/-- option-type wrappers are transparent -/
theorem extractIndex_byteMasked (l : Layout) : extractIndexPy (.byteMasked l) = extractIndexPy l := by rw [extractIndexPy]
theorem extractIndex_bitMasked (l : Layout) : extractIndexPy (.bitMasked l) = extractIndexPy l := by rw [extractIndexPy]
theorem extractIndex_unmasked (l : Layout) : extractIndexPy (.unmasked l) = extractIndexPy l := by rw [extractIndexPy]
/-- a union takes the shape of its first content -/
theorem extractIndex_union (l : Layout) : extractIndexPy (.union l) = extractIndexPy l := by rw [extractIndexPy]
/-- a regular level contributes its size -/
theorem extractIndex_regular (n : Nat) (l : Layout) :
    extractIndexPy (.regular n l) = (extractIndexPy l).map (fun rest => Level.size n :: rest) := by
  rw [extractIndexPy]; rfl
/-- leaves end the recursion; a class the source does not name raises TypeError -/
theorem extractIndex_leaves :
    extractIndexPy .numpy = some [] ∧ extractIndexPy .record = some [] ∧ extractIndexPy .other = none := ⟨rfl, rfl, rfl⟩

/-! ### the re-nesting loop -/

/-- an element `d` list levels deep as an untyped tree -/
def elemTree : (d : Nat) → Nested β d → Tree β
  | 0, x => .leaf x
  | d + 1, xs => .node (List.map (elemTree d) xs)

/-- a `d + 1`-deep jagged array as the list of the trees of its top-level elements -/
def toTree (d : Nat) (t : Nested β (d + 1)) : List (Tree β) := List.map (elemTree d) t

/-- length of the outermost level that `rebuild` produces from the counts `cs` over `n` leaves -/
def outerLen (cs : List (List Nat)) (n : Nat) : Nat :=
  match cs with
  | [] => n
  | c :: _ => c.length

/-- well-formed counts (outermost level first) over `n` leaves: every level's counts sum to the number of elements of the next
inner level, the innermost to `n` — exactly the condition under which no `ak.unflatten` of the loop raises -/
def Consistent : List (List Nat) → Nat → Prop
  | [], _ => True
  | c :: cs, n => c.sum = outerLen cs n ∧ Consistent cs n

theorem unflat_map (g : α → β) (c : List Nat) (l : List α) : unflat c (l.map g) = (unflat c l).map (List.map g) := by
  induction c generalizing l with
  | nil => rfl
  | cons n c ih => rw [unflat_cons, unflat_cons, List.map_cons, ← List.map_take, ← List.map_drop, ih]

/-- one pass of the loop on a well-typed intermediate result: one more list level, grouped by the counts -/
theorem unflattenPy_toTree (d : Nat) (c : List Nat) (r : List (Nested β d)) (h : c.sum = r.length) :
    unflattenPy (.counts c) (toTree (β := β) d r) = some (toTree (β := β) (d + 1) (unflat c r)) := by
  have hl : (toTree (β := β) d r).length = r.length := List.length_map _
  simp only [unflattenPy, hl, h, if_true]
  show some (List.map Tree.node (unflat c (List.map (elemTree d) r))) = some (List.map (elemTree (d + 1)) (unflat c r))
  rw [unflat_map, List.map_map]
  rfl

/-- the loop peels the OUTERMOST level off last -/
theorem renestPy_cons (c : Level) (cs : List Level) (l : List β) :
    renestPy (c :: cs) l = (renestPy cs l).bind (unflattenPy c) := by
  simp only [renestPy, List.reverse_cons, List.foldlM_append, List.foldlM_cons, List.foldlM_nil]
  cases List.foldlM (fun res count => unflattenPy count res) (List.map Tree.leaf l) cs.reverse <;> simp

theorem length_rebuild (d : Nat) (cs : List (List Nat)) (l : List β) (h : cs.length = d) :
    List.length (α := Nested β d) (rebuild d cs l) = outerLen cs l.length := by
  cases d with
  | zero =>
    cases cs with
    | nil => rfl
    | cons _ _ => cases h
  | succ d =>
    cases cs with
    | nil => cases h
    | cons c cs => exact length_unflat c _

/-- **the re-nesting loop is the model's `rebuild`**: for `d` levels of well-formed counts the loop does not raise and yields the
array `rebuild d cs l` -/
theorem renest_eq_rebuild : (d : Nat) → (cs : List (List Nat)) → (l : List β) → cs.length = d → Consistent cs l.length →
    renestPy (cs.map Level.counts) l = some (toTree d (rebuild d cs l))
  | 0, [], _, _, _ => rfl
  | 0, _ :: _, _, h, _ => by cases h
  | _ + 1, [], _, h, _ => by cases h
  | d + 1, c :: cs, l, h, hc => by
    have hlen : cs.length = d := by simpa using h
    rw [List.map_cons, renestPy_cons, renest_eq_rebuild d cs l hlen hc.2, Option.bind_some]
    exact unflattenPy_toTree d c (rebuild d cs l) (by rw [length_rebuild d cs l hlen]; exact hc.1)

theorem length_levels_step (d : Nat) (t : List (List (Nested α d))) (ih : (levels d t.flatten).length = d) :
    (levels (α := α) (d + 1) t).length = d + 1 := by
  rw [levels_succ, List.length_cons, ih]

/-- one entry of `raw_shape` per list level below the top -/
theorem length_levels : (d : Nat) → (t : Nested α (d + 1)) → (levels d t).length = d
  | 0, _ => rfl
  | d + 1, t => length_levels_step d t (length_levels d (List.flatten (α := Nested α d) t))

theorem outerLen_levels (d : Nat) (u : Nested α (d + 1)) :
    outerLen (levels d u) (flat d u).length = List.length (α := Nested α d) u := by
  cases d with
  | zero => rfl
  | succ d => exact List.length_map _

theorem consistent_levels_step (d : Nat) (t : List (List (Nested α d)))
    (ih : Consistent (levels d t.flatten) (flat d t.flatten).length) :
    Consistent (levels (α := α) (d + 1) t) (flat (α := α) (d + 1) t).length := by
  rw [levels_succ, flat_succ]
  refine ⟨?_, ih⟩
  rw [outerLen_levels d t.flatten, sum_map_length]

/-- the counts extracted from an array are well-formed over any data with as many leaves as the array -/
theorem consistent_levels : (d : Nat) → (t : Nested α (d + 1)) → Consistent (levels d t) (flat d t).length
  | 0, _ => trivial
  | d + 1, t => consistent_levels_step d t (consistent_levels d (List.flatten (α := Nested α d) t))

/-- flatten → re-nest restores the input's nesting: with the counts and the leaves of one array the loop returns that array -/
theorem renest_levels_flat (d : Nat) (t : Nested β (d + 1)) :
    renestPy ((levels d t).map Level.counts) (flat d t) = some (toTree d t) := by
  rw [renest_eq_rebuild d (levels d t) (flat d t) (length_levels d t) (consistent_levels d t), rebuild_levels_flat]

/-- flatten → per-track results → re-nest: with ANY list of as many per-track results as the input has tracks the loop does not raise
and yields the model's `rebuild` with the input's counts -/
theorem renest_levels_any (d : Nat) (t : Nested α (d + 1)) (l : List β) (hl : l.length = (flat d t).length) :
    renestPy ((levels d t).map Level.counts) l = some (toTree d (rebuild d (levels d t) l)) :=
  renest_eq_rebuild d (levels d t) l (length_levels d t) (by rw [hl]; exact consistent_levels d t)

/-- **array mode, end to end, on the translated code**: the counts from `_extract_index` of the input's own layout, the per-track
function on the flattened fields, the re-nesting loop — together they are the per-track function applied in place: each output track
depends on its own input track only, and the output has the nesting of the input -/
theorem array_mode_eq_per_track (f : α → β) (d : Nat) (t : Nested α (d + 1)) :
    (extractIndexPy (layoutOf d t)).bind (fun rawShape => renestPy rawShape ((flat d t).map f)) =
      some (toTree d (mapN f (d + 1) t)) := by
  rw [extractIndex_eq_levels, Option.bind_some, renest_levels_any d t _ (List.length_map _)]
  exact congrArg (fun x => some (toTree d x)) (viaFlat_map f d t)

/-! ### the order of the loop -/

/-- the loop iterates `reversed(raw_shape)` -/
theorem unflatten_order : unflattenOrderPy = .innermostFirst := by decide

/-- the other order: `for count in raw_shape` -/
def renestOuterFirst (rawShape : List Level) (leaves : List β) : Option (List (Tree β)) :=
  rawShape.foldlM (fun res count => unflattenPy count res) (leaves.map Tree.leaf)

/-- up to two list levels (one entry in `raw_shape`) the order does not matter -/
theorem orders_agree_one_level (c : Level) (l : List β) : renestOuterFirst [c] l = renestPy [c] l := rfl

/-- three list levels: `[[[1], [2, 3]], [[4]]]` -/
def witness : Nested Nat 3 := ([[[1], [2, 3]], [[4]]] : List (List (List Nat)))

/-- … from three list levels on the other order is wrong: on the counts `[[2, 1], [1, 2, 1]]` and the leaves `[1, 2, 3, 4]` of the
witness, outermost-first raises ValueError (the second `ak.unflatten` gets 4 counts' worth for 2 elements) where the code's order
returns the witness -/
theorem outermost_first_wrong :
    levels 2 witness = [[2, 1], [1, 2, 1]] ∧ flat 2 witness = [1, 2, 3, 4] ∧
    renestOuterFirst ((levels 2 witness).map Level.counts) (flat 2 witness) = none ∧
    renestOuterFirst ((levels 2 witness).map Level.counts) (flat 2 witness) ≠ some (toTree 2 witness) ∧
    renestPy ((levels 2 witness).map Level.counts) (flat 2 witness) = some (toTree 2 witness) := by
  have hnone : renestOuterFirst ((levels 2 witness).map Level.counts) (flat 2 witness) = none :=
    Option.isNone_iff_eq_none.mp (by decide)
  refine ⟨by decide, by decide, hnone, ?_, renest_levels_flat 2 witness⟩
  rw [hnone]
  intro h
  cases h

/-! ### regular levels -/

/-- an integer entry `n` of `raw_shape` (a RegularArray level) groups `len / n` blocks of `n` and never raises -/
theorem unflattenPy_size (n : Nat) (res : List (Tree β)) :
    unflattenPy (.size n) res = some ((unflat (List.replicate (res.length / n) n) res).map Tree.node) := rfl

/-! ### wiring -/

/-- `helix_awk` zips the fields at exactly the number of list levels of the array: every field of the record gets the nesting of `dr` -/
theorem zip_depth_is_nesting (d : Nat) (t : Nested α (d + 1)) :
    zipDepthLimitPy ((levels d t).map Level.counts).length = d + 1 := by
  rw [List.length_map, length_levels]
  rfl

/-- the data flow of the array mode -/
theorem awk_wiring :
    packsViewsFirst = true ∧ flatIsAllLeavesInOrder = true ∧ shapeFromInputLayout = true ∧ noHiddenState = true ∧
    scalarPivotBroadcastToEveryTrack = true ∧ pivotComponentOrder = ["x", "y", "z"] ∧ errorReshape = [-1, 5, 5] := by decide

/-- every argument of the per-track `_change_pivot` is the flattened field it is named after (`r` ← `radius`, the old pivot ← the
helix's own pivot, the new pivot ← the regularised argument), component by component -/
theorem awk_field_wiring :
    fieldWiring = [("r", "radius"), ("old_dr", "dr"), ("old_phi0", "phi0"), ("old_dz", "dz"), ("kappa", "kappa"), ("tanl", "tanl"),
      ("old_error", "error"), ("old_pivot.x", "pivot.x"), ("old_pivot.y", "pivot.y"), ("old_pivot.z", "pivot.z"),
      ("new_pivot.x", "arg.x"), ("new_pivot.y", "arg.y"), ("new_pivot.z", "arg.z")] := by decide

/-- the new helix takes `dr`, `phi0`, `dz`, `error` from the results of `_change_pivot` of the same name, keeps `kappa` and `tanl`,
and stores the new pivot -/
theorem awk_result_wiring :
    resultWiring = [("dr", "new_dr"), ("phi0", "new_phi0"), ("kappa", "kappa"), ("dz", "new_dz"), ("tanl", "tanl"),
      ("pivot", "new_pivot"), ("error", "new_error")] := by decide

/-- `helix_awk` stores every parameter under its own name -/
theorem helix_awk_wiring :
    helixAwkWiring = [("dr", "dr"), ("phi0", "phi0"), ("kappa", "kappa"), ("dz", "dz"), ("tanl", "tanl"), ("pivot", "pivot"),
      ("error", "error")] := by decide

end Pybes3Verif.Gen.AwkPy
