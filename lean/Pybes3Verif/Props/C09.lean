import Mathlib.Tactic.FieldSimp
import Mathlib.Tactic.Ring
import Mathlib.Data.Real.Basic
import Pybes3Verif.Proofs.C09All
import Pybes3Verif.Model.TableState
/-!
C09 — geometry lookups agree with the published tables and with each other.

Subject: `Gen/Mdc.lean`, `Gen/Emc.lean` (accessor kernels translated from geometry/mdc.py, emc.py — each reads the
module global the loader assigned), `Gen/{Mdc,Emc}Tables.lean` (npz columns read from the files, module globals as
evaluated by the loaders; floats as exact IEEE bit patterns), `Model/TableState.lean` (hand-out / write / lookup
histories).  Table facts are kernel evaluations over the whole tables on exactly decoded doubles.
-/
namespace Pybes3Verif.C09
open Pybes3Verif.Util Pybes3Verif.IEEE Pybes3Verif.Gen

section rows
open Pybes3Verif.Gen.Mdc Pybes3Verif.Gen.MdcTables

private theorem toNat_B (g : Nat) (h : g < 6796) : (B g).toNat = g := by
  simp [B, BitVec.toNat_ofNat]; omega

/-- every MDC accessor returns exactly the row of the published table (`mdc_geom.npz`) for that wire: the kernel reads the
module global, and the module globals equal the file's columns chunk by chunk -/
theorem mdc_accessor_is_row (g : Nat) (h : g < 6796) :
    mdc_gid_to_superlayer (B g) = npz_superlayer g ∧ mdc_gid_to_layer (B g) = npz_layer g ∧
    mdc_gid_to_wire (B g) = npz_wire g ∧ mdc_gid_to_stereo (B g) = npz_stereo g ∧
    mdc_gid_to_is_stereo (B g) = npz_is_stereo g ∧
    mdc_gid_to_west_x (B g) = npz_west_x g ∧ mdc_gid_to_west_y (B g) = npz_west_y g ∧ mdc_gid_to_west_z (B g) = npz_west_z g ∧
    mdc_gid_to_east_x (B g) = npz_east_x g ∧ mdc_gid_to_east_y (B g) = npz_east_y g ∧ mdc_gid_to_east_z (B g) = npz_east_z g := by
  have e := toNat_B g h
  have hj : g / 64 < 107 := by omega
  have c1 := chunks_superlayer _ hj; have c2 := chunks_layer _ hj; have c3 := chunks_wire _ hj
  have c4 := chunks_stereo _ hj; have c5 := chunks_is_stereo _ hj
  have c6 := chunks_west_x _ hj; have c7 := chunks_west_y _ hj; have c8 := chunks_west_z _ hj
  have c9 := chunks_east_x _ hj; have c10 := chunks_east_y _ hj; have c11 := chunks_east_z _ hj
  simp only [chunkEq_superlayer, chunkEq_layer, chunkEq_wire, chunkEq_stereo, chunkEq_is_stereo, chunkEq_west_x,
    chunkEq_west_y, chunkEq_west_z, chunkEq_east_x, chunkEq_east_y, chunkEq_east_z, beq_iff_eq] at c1 c2 c3 c4 c5 c6 c7 c8 c9 c10 c11
  refine ⟨?_, ?_, ?_, ?_, ?_, ?_, ?_, ?_, ?_, ?_, ?_⟩ <;>
    simp only [mdc_gid_to_superlayer, mdc_gid_to_layer, mdc_gid_to_wire, mdc_gid_to_stereo, mdc_gid_to_is_stereo,
      mdc_gid_to_west_x, mdc_gid_to_west_y, mdc_gid_to_west_z, mdc_gid_to_east_x, mdc_gid_to_east_y, mdc_gid_to_east_z,
      mod__superlayer, mod__layer, mod__wire, mod__stereo, mod__is_stereo, mod__west_x, mod__west_y, mod__west_z,
      mod__east_x, mod__east_y, mod__east_z, mod__superlayer_raw, mod__layer_raw, mod__wire_raw, mod__stereo_raw,
      mod__is_stereo_raw, mod__west_x_raw, mod__west_y_raw, mod__west_z_raw, mod__east_x_raw, mod__east_y_raw,
      mod__east_z_raw, npz_superlayer, npz_layer, npz_wire, npz_stereo, npz_is_stereo, npz_west_x, npz_west_y, npz_west_z,
      npz_east_x, npz_east_y, npz_east_z, npz_superlayer_raw, npz_layer_raw, npz_wire_raw, npz_stereo_raw,
      npz_is_stereo_raw, npz_west_x_raw, npz_west_y_raw, npz_west_z_raw, npz_east_x_raw, npz_east_y_raw, npz_east_z_raw,
      e, c1, c2, c3, c4, c5, c6, c7, c8, c9, c10, c11]

/-- all coordinates are finite numbers, and the two ends of every wire are at different z -/
theorem mdc_ends (g : Nat) (h : g < 6796) : mdcFitsOk g = true ∧ mdcEndsOk g = true :=
  ⟨mdcFitsOk_b g h, mdcEndsOk_b g h⟩

/-- stereo sign = actual azimuthal twist between the wire ends (exact cross product of the end points, no wrap
artefact), is_stereo = (stereo ≠ 0), axial wires have exactly equal end (x, y) -/
theorem mdc_stereo_sign (g : Nat) (h : g < 6796) : mdcStereoOk g = true := mdcStereoOk_b g h

/-- stereo sign and flag are uniform within a layer and equal the per-layer table used by `mdc_layer_to_is_stereo` -/
theorem mdc_stereo_uniform (g : Nat) (h : g < 6796) : mdcLayerUniformOk g = true := mdcLayerUniformOk_b g h

/-- superlayer-by-layer (`np.digitize` on the layer, signed and unsigned input) equals superlayer-by-wire -/
theorem mdc_superlayer_agree (g : Nat) (h : g < 6796) :
    mdc_layer_to_superlayer_u (mdc_gid_to_layer (B g)) = mdc_gid_to_superlayer (B g) ∧
    mdc_layer_to_superlayer_s (mdc_gid_to_layer (B g)) = mdc_gid_to_superlayer (B g) := by
  have := mdcSuperlayerOk_b g h
  simpa [mdcSuperlayerOk] using this
end rows

section emcrows
open Pybes3Verif.Gen.Emc Pybes3Verif.Gen.EmcTables

/-- the EMC module globals equal the published table (`emc_geom.npz`) chunk by chunk, for every column incl. the
8 corner points; the accessor kernels read exactly these globals (`Gen/Emc.lean`) -/
theorem emc_tables_are_published :
    (∀ j, j < 98 → mod__part_chunk j = npz_part_chunk j ∧ mod__theta_chunk j = npz_theta_chunk j ∧
      mod__phi_chunk j = npz_phi_chunk j ∧ mod__center_x_chunk j = npz_center_x_chunk j ∧
      mod__center_y_chunk j = npz_center_y_chunk j ∧ mod__center_z_chunk j = npz_center_z_chunk j ∧
      mod__front_center_x_chunk j = npz_front_center_x_chunk j ∧ mod__front_center_y_chunk j = npz_front_center_y_chunk j ∧
      mod__front_center_z_chunk j = npz_front_center_z_chunk j) ∧
    (∀ j, j < 780 → mod__points_x_chunk j = npz_points_x_chunk j ∧ mod__points_y_chunk j = npz_points_y_chunk j ∧
      mod__points_z_chunk j = npz_points_z_chunk j) := by
  constructor
  · intro j hj
    have h1 := chunksE_part j hj; have h2 := chunksE_theta j hj; have h3 := chunksE_phi j hj
    have h4 := chunksE_center_x j hj; have h5 := chunksE_center_y j hj; have h6 := chunksE_center_z j hj
    have h7 := chunksE_front_center_x j hj; have h8 := chunksE_front_center_y j hj; have h9 := chunksE_front_center_z j hj
    simp only [chunkEqE_part, chunkEqE_theta, chunkEqE_phi, chunkEqE_center_x, chunkEqE_center_y, chunkEqE_center_z,
      chunkEqE_front_center_x, chunkEqE_front_center_y, chunkEqE_front_center_z, beq_iff_eq] at h1 h2 h3 h4 h5 h6 h7 h8 h9
    exact ⟨h1, h2, h3, h4, h5, h6, h7, h8, h9⟩
  · intro j hj
    have h1 := chunksE_points_x j hj; have h2 := chunksE_points_y j hj; have h3 := chunksE_points_z j hj
    simp only [chunkEqE_points_x, chunkEqE_points_y, chunkEqE_points_z, beq_iff_eq] at h1 h2 h3
    exact ⟨h1, h2, h3⟩
end emcrows

/-! ### a wire's position at any z lies on the straight line through its two end points -/

/-- `mdc_gid_z_to_x/y`: x(z) = x_w + (x_e - x_w)/(z_e - z_w) (z - z_w).  For z_e ≠ z_w (`mdc_ends`) the point
(x(z), y(z), z) is the affine combination of the two end points with parameter t = (z - z_w)/(z_e - z_w) — for every z,
inside or outside the wire span — and it passes through both ends; the mid point used by `parse_mdc_gid` is their mean -/
theorem on_line (xw yw zw xe ye ze z : ℝ) (hz : ze ≠ zw) :
    let t := (z - zw) / (ze - zw)
    xw + (xe - xw) / (ze - zw) * (z - zw) = (1 - t) * xw + t * xe ∧
    yw + (ye - yw) / (ze - zw) * (z - zw) = (1 - t) * yw + t * ye ∧
    z = (1 - t) * zw + t * ze ∧
    xw + (xe - xw) / (ze - zw) * (zw - zw) = xw ∧ xw + (xe - xw) / (ze - zw) * (ze - zw) = xe := by
  have h : ze - zw ≠ 0 := sub_ne_zero.mpr hz
  refine ⟨?_, ?_, ?_, ?_, ?_⟩ <;> field_simp <;> ring

/-! ### tables handed to the caller are private copies -/

/-- for every history of table retrieval, in-place modification by the caller and lookups, the module's columns are
unchanged and every lookup returns the value of the initial tables (given that each handed-out column is a fresh copy,
which the harness extracts from the source and tests on the real module) -/
theorem copies_are_private (s : TableState.St) (h0 : ∀ h ∈ s.handed, h.alias = false) (ops : List TableState.Op) :
    (TableState.run true s ops).1.module = s.module ∧
    ∀ o ∈ (TableState.run true s ops).2, o = none ∨ ∃ (c i : Nat), o = (s.module c)[i]? :=
  ⟨(TableState.module_unchanged s h0 ops).1, TableState.lookups_are_initial s h0 ops⟩

end Pybes3Verif.C09
