import Pybes3Verif.Proofs.RawNest
/-!
C03 (part 2): well-formed streams decode exactly as encoded — the nested fragments
(ROS / sub-detector / event / block) and the algebra of the intended decode.
Relies on `fillDigi_eq_robRows` / `readROB_enc` (C03 part 1) through `Pybes3Verif.Proofs.RawNest`.
-/
namespace Pybes3Verif.Raw
open Pybes3Verif.Raw.Spec Pybes3Verif.Raw.Nest

/-! ### Group T — C03 : well-formed streams decode exactly as encoded -/

/-- the main theorem: every well-formed block sequence (any number of events, one or several per block,
any number of sub-detector / ROS / ROB fragments incl. empty ones, any number of status words before or
after the data, fields up to the full width) decodes, for every selection, to exactly the intended
records -/
theorem parse_encode (sel : List Nat) (bs : List Block) (h : bs.all Block.wf = true) :
    parse sel (encBlocks bs) = .ok (expected sel bs) [] := by
  unfold parse expected
  exact Good_blocks (effectiveSel sel) bs (List.all_eq_true.mp h) _ (Nat.lt_succ_self _)

/-- one record per event, in file order -/
theorem expected_length (sel : List Nat) (bs : List Block) :
    (expected sel bs).length = (bs.flatMap (·.events)).length := by
  unfold expected
  exact List.length_map _

/-- status words, special words and source identifiers contribute nothing: two events that differ only
there decode to the same record -/
theorem expectedEvent_ignores_status (sel : List Nat) (e : Event) (st : List Nat) (src : Nat) :
    expectedEvent sel { e with status := st, src := src } = expectedEvent sel e := rfl

/-- an unselected or unknown sub-detector contributes no row and does not shift any other row -/
theorem expectedEvent_skip_unselected (sel : List Nat) (e : Event) (pre post : List SubDet) (d : SubDet)
    (hd : sel.contains d.det = false) (he : e.subdets = pre ++ d :: post) :
    expectedEvent sel e = expectedEvent sel { e with subdets := pre ++ post } := by
  unfold expectedEvent
  simp only [he, List.flatMap_append, List.flatMap_cons, hd, Bool.false_eq_true, if_false,
    List.nil_append]

/-- selecting sub-detectors returns exactly those rows of the full read -/
theorem expectedEvent_selection (sel : List Nat) (e : Event) (det : Nat) :
    rowsOf det (expectedEvent sel e) =
      if sel.contains det then rowsOf det (expectedEvent [MDC, TOF, EMC, MUC, TRG, EF] e ) else [] := by
  rw [rowsOf_expectedEvent, rowsOf_expectedEvent]
  cases hs : sel.contains det with
  | false =>
    rw [if_neg (by simp)]
    have : (fun d : SubDet => if d.det = det ∧ sel.contains d.det = true then detRows d else [])
        = fun _ => [] := by
      funext d
      rw [if_neg]
      rintro ⟨h1, h2⟩
      rw [h1, hs] at h2
      cases h2
    rw [this, flatMap_const_nil]
  | true =>
    rw [if_pos rfl]
    congr 1
    funext d
    by_cases h : d.det = det
    · cases hk : [MDC, TOF, EMC, MUC, TRG, EF].contains d.det with
      | true => rw [if_pos ⟨h, by rw [h]; exact hs⟩, if_pos ⟨h, rfl⟩]
      | false => rw [detRows_unknown d hk]; split <;> split <;> rfl
    · rw [if_neg (fun hc => h hc.1), if_neg (fun hc => h hc.1)]

/-- decoding distributes over concatenation of block sequences (a batch boundary between blocks is harmless) -/
theorem expected_append (sel : List Nat) (a b : List Block) :
    expected sel (a ++ b) = expected sel a ++ expected sel b := by
  unfold expected
  rw [List.flatMap_append, List.map_append]

end Pybes3Verif.Raw
