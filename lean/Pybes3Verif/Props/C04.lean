import Pybes3Verif.Model.RawReader
import Pybes3Verif.Proofs.RawLoop
/-!
C04 : the reader loop (`RawBinaryReader.arrays`).  Helper lemmas in `Pybes3Verif/Proofs/RawLoop.lean`.
-/
namespace Pybes3Verif.RawReader
/-! ### Group U — C04 : the reader loop -/
variable {β ε : Type}

/-- number of blocks a call asks for: all of them for `n_blocks = -1`, else `min n N` -/
def wanted (nBlocks : Option Nat) (N : Nat) : Nat := match nBlocks with | none => N | some n => min n N

/-- the loop terminates within `N + 2` iterations for every `n_blocks ∈ {-1} ∪ ℕ` and every batch size ≥ 1,
and the submitted batches are non-empty and concatenate to the first `wanted` blocks -/
theorem submitLoop_spec (blocks : List β) (perBatch : Nat) (hp : 1 ≤ perBatch) (nBlocks : Option Nat) :
    ∃ bs r', submitLoop perBatch nBlocks (blocks.length + 2) { blocks := blocks, cursor := 0 } 0 = some (bs, r') ∧
      bs.flatten = blocks.take (wanted nBlocks blocks.length) ∧ (∀ b ∈ bs, b ≠ []) ∧ r'.blocks = blocks := by
  obtain ⟨bs, r', hrun, hflat, hnon, hblk⟩ :=
    submitLoop_gen blocks perBatch hp nBlocks (blocks.length + 2) 0 (Nat.zero_le _) (by omega)
  refine ⟨bs, r', hrun, ?_, hnon, hblk⟩
  rw [hflat, List.drop_zero, Nat.sub_zero]
  rfl

/-- the pool stores every task's own value in its own slot whatever the completion order -/
theorem runPool_eq (tasks : List (List β)) (decode : List β → List ε) (sched : List Nat) :
    runPool tasks decode sched = tasks.map (fun t => some (decode t)) :=
  runPool_eq_map tasks decode sched

/-- result = decode of the first `wanted` blocks, for every batch size, every completion order and every
previous cursor position; requires only that decoding distributes over concatenation of blocks
(`Raw.expected_append`) -/
theorem arrays_spec (decode : List β → List ε) (hd : ∀ a b, decode (a ++ b) = decode a ++ decode b)
    (perBatch : Nat) (hp : 1 ≤ perBatch) (nBlocks : Option Nat) (sched : List Nat) (r : Reader β) :
    ∃ r', arrays decode perBatch nBlocks sched (r.blocks.length + 2) r = some (decode (r.blocks.take (wanted nBlocks r.blocks.length)), r')
      ∧ r'.blocks = r.blocks :=
  arrays_gen decode hd perBatch hp nBlocks sched r

/-- corollaries: independence of batch size and schedule; prefix property; idempotence -/
theorem arrays_batch_schedule_invariant (decode : List β → List ε) (hd : ∀ a b, decode (a ++ b) = decode a ++ decode b)
    (p1 p2 : Nat) (h1 : 1 ≤ p1) (h2 : 1 ≤ p2) (nBlocks : Option Nat) (s1 s2 : List Nat) (r : Reader β) :
    (arrays decode p1 nBlocks s1 (r.blocks.length + 2) r).map (·.1) = (arrays decode p2 nBlocks s2 (r.blocks.length + 2) r).map (·.1) := by
  obtain ⟨r1, e1, _⟩ := arrays_spec decode hd p1 h1 nBlocks s1 r
  obtain ⟨r2, e2, _⟩ := arrays_spec decode hd p2 h2 nBlocks s2 r
  rw [e1, e2]
  rfl

theorem arrays_prefix (decode : List β → List ε) (hd : ∀ a b, decode (a ++ b) = decode a ++ decode b)
    (perBatch : Nat) (hp : 1 ≤ perBatch) (n : Nat) (sched : List Nat) (r : Reader β) :
    ∃ tail r' r'', arrays decode perBatch (some n) sched (r.blocks.length + 2) r = some (decode (r.blocks.take n), r') ∧
      arrays decode perBatch none sched (r.blocks.length + 2) r = some (decode (r.blocks.take n) ++ tail, r'') := by
  obtain ⟨r1, e1, _⟩ := arrays_spec decode hd perBatch hp (some n) sched r
  obtain ⟨r2, e2, _⟩ := arrays_spec decode hd perBatch hp none sched r
  refine ⟨decode (r.blocks.drop n), r1, r2, ?_, ?_⟩
  · rw [e1]
    have : r.blocks.take (wanted (some n) r.blocks.length) = r.blocks.take n := by
      show r.blocks.take (min n r.blocks.length) = r.blocks.take n
      rw [List.take_eq_take_iff]; omega
    rw [this]
  · rw [e2, ← hd, List.take_append_drop]
    show some (decode (r.blocks.take r.blocks.length), r2) = _
    rw [List.take_length]

theorem arrays_idempotent (decode : List β → List ε) (hd : ∀ a b, decode (a ++ b) = decode a ++ decode b)
    (perBatch : Nat) (hp : 1 ≤ perBatch) (nBlocks : Option Nat) (s1 s2 : List Nat) (r : Reader β) :
    ∃ out r1 r2, arrays decode perBatch nBlocks s1 (r.blocks.length + 2) r = some (out, r1) ∧
      arrays decode perBatch nBlocks s2 (r1.blocks.length + 2) r1 = some (out, r2) := by
  obtain ⟨r1, e1, hb1⟩ := arrays_spec decode hd perBatch hp nBlocks s1 r
  obtain ⟨r2, e2, _⟩ := arrays_spec decode hd perBatch hp nBlocks s2 r1
  refine ⟨_, r1, r2, e1, ?_⟩
  rw [e2, hb1]

end Pybes3Verif.RawReader
