/-
RawCppTie — the C++ raw-data parser (`raw_io.cc` / `raw_io.hh`: `require`, `read`, `skip`, `read_ROB`, `read_ROS`, `read_sub_detector`,
`read_event`, `fill_digi`, the event loop of `arrays()`, the default selection of `py_read_bes_raw`), *translated from the source text on
every run* (`Gen/RawCpp.lean`, by `tools/translate/cppraw.py`), EQUALS the hand-written model `Model/RawParser.lean` that C03 / C15 are
about.  Equalities are between parsers (functions), never between runs on concrete buffers.

* cursor primitives: `requireCpp_eq`, `readCpp_eq`, `skip1Cpp_eq`, `skipCpp_eq`, `readNCpp_eq`;
* `fill_digi`: every narrowing conversion the C++ performs (`uint16_t x = …`, pushes into `uint8_t` columns) is emitted by the
  translator and proved harmless here (`*_eq` field lemmas, `foldl_merge_ovf`), then `fillDigiCpp_eq`;
* fragments: `readROBCpp_eq`, `readROSCpp_eq`, `readSubDetCpp_eq`, `readEventCpp_eq`, `readEventsCpp_eq`;
* `effectiveSelCpp_eq`, `parse_eq`;
* the conversion of the member vectors into the returned dict: `header_keys`, `column_wiring`, `render_names_agree`.
-/
import Pybes3Verif.Gen.RawCpp
import Pybes3Verif.Util.RawRender

namespace Pybes3Verif.RawCppTie
open Pybes3Verif.Raw Pybes3Verif.Gen.RawCpp

/-! ### the parser monad -/

/-- two parsers that run alike on every buffer are equal -/
theorem P_ext {α : Type} {p q : P α} (h : ∀ ws, p.run ws = q.run ws) : p = q := by
  cases p; cases q; congr; funext ws; exact h ws

/-- right identity of the parser monad: `do let x ← p; pure x` is `p` -/
theorem bind_pure_eq {α : Type} (p : P α) : (p >>= pure) = p := P_ext fun ws => by
  show (match p.run ws with | .ok a ws' => (pure a : P α).run ws' | .err e => .err e | .oob => .oob | .fuel => .fuel) = p.run ws
  cases p.run ws <;> rfl

/-! ### flags and sub-detector ids (`enum RawFlag`, `enum SubDetID`) -/

/-- the flags of `enum RawFlag` the parser compares against are the model's constants -/
theorem flags_eq :
    flag_DATA_SEPERATOR = DATA_SEPERATOR ∧ flag_FULL_EVENT = FULL_EVENT ∧ flag_SUB_DETECTOR = SUB_DETECTOR ∧
    flag_ROS = ROS ∧ flag_ROB = ROB ∧ flag_ROD = ROD := ⟨rfl, rfl, rfl, rfl, rfl, rfl⟩

/-- the members of `enum SubDetID` are the model's constants -/
theorem ids_eq :
    id_MDC = MDC ∧ id_TOF = TOF ∧ id_EMC = EMC ∧ id_MUC = MUC ∧ id_TRG = TRG ∧ id_EF = EF := ⟨rfl, rfl, rfl, rfl, rfl, rfl⟩

/-- the names Python passes map to these ids (`sub_det_names_to_ids`), and 8 header words are kept per event -/
theorem names_and_header :
    subDetNames = [("mdc", MDC), ("tof", TOF), ("emc", EMC), ("muc", MUC), ("trg", TRG), ("ef", EF)] ∧ nHeaderWords = 8 ∧
    offsetsAreRowCounts = true := ⟨rfl, rfl, rfl⟩

/-! ### cursor primitives -/

/-- `RawBinaryParser::require`: `if ( n > m_data_end - m_cursor ) throw …` is the model's bounds check -/
theorem requireCpp_eq (n : Nat) : requireCpp n = require n := P_ext fun ws => by
  have h : (requireCpp n).run ws = (if ws.length < n then (fail .eof : P Unit) else pure ()).run ws := rfl
  rw [h]
  unfold require
  by_cases hn : n ≤ ws.length
  · rw [if_neg (Nat.not_lt.mpr hn)]
    show Res.ok () ws = if n ≤ ws.length then Res.ok () ws else Res.err Err.eof
    rw [if_pos hn]
  · rw [if_pos (Nat.lt_of_not_le hn)]
    show Res.err Err.eof = if n ≤ ws.length then Res.ok () ws else Res.err Err.eof
    rw [if_neg hn]

/-- `require` as a function -/
theorem requireCpp_eq' : requireCpp = require := funext requireCpp_eq

/-- `read()`: `require( 1 ); return *( m_cursor++ );` is the model's `read` -/
theorem readCpp_eq : readCpp = read := by
  unfold readCpp Raw.read; rw [requireCpp_eq']

/-- `skip()`: `require( 1 ); m_cursor++;` is the model's `skip 1` -/
theorem skip1Cpp_eq : skip1Cpp = skip 1 := by
  unfold skip1Cpp skip; rw [requireCpp_eq']

/-- `skip( n )`: `require( n ); m_cursor += n;` is the model's `skip` -/
theorem skipCpp_eq : skipCpp = skip := by
  funext n; unfold skipCpp skip; rw [requireCpp_eq']

/-- `read( n )`: `require( n ); std::vector<uint32_t> data( m_cursor, m_cursor + n ); m_cursor += n; return data;` is the model's `readN` -/
theorem readNCpp_eq : readNCpp = readN := by
  funext n; unfold readNCpp readN; rw [requireCpp_eq']

/-! ### `fill_digi`: narrowing conversions -/

/-- a masked and shifted field fits the type it is stored in when mask and shift say so -/
theorem and_shr_mod (w M s K : Nat) (h : M >>> s < K) : ((w &&& M) >>> s) % K = (w &&& M) >>> s := by
  apply Nat.mod_eq_of_lt
  apply Nat.lt_of_le_of_lt _ h
  rw [Nat.shiftRight_eq_div_pow, Nat.shiftRight_eq_div_pow]
  exact Nat.div_le_div_right Nat.and_le_right

/-- a masked field fits the type it is stored in when the mask does -/
theorem and_mod (w M K : Nat) (h : M < K) : (w &&& M) % K = w &&& M :=
  Nat.mod_eq_of_lt (Nat.lt_of_le_of_lt Nat.and_le_right h)

/-- MDC: `uint16_t id / t_or_q / signal_value / overflow` of one word, truncations included, are the model's `mdcFields` -/
theorem mdc_fields_eq (w : Nat) : (mdc_key w, mdc_slot w, mdc_value w, mdc_ovf w) = mdcFields w := by
  unfold mdc_key mdc_slot mdc_value mdc_ovf mdcFields
  rw [and_shr_mod w _ _ _ (by decide), and_shr_mod w _ _ _ (by decide), and_mod w _ _ (by decide), and_shr_mod w _ _ _ (by decide)]

/-- TOF: the same for `tofFields` -/
theorem tof_fields_eq (w : Nat) : (tof_key w, tof_slot w, tof_value w, tof_ovf w) = tofFields w := by
  unfold tof_key tof_slot tof_value tof_ovf tofFields
  rw [and_shr_mod w _ _ _ (by decide), and_shr_mod w _ _ _ (by decide), and_mod w _ _ (by decide), and_shr_mod w _ _ _ (by decide)]

/-- the slot index `t_or_q` is 0 or 1 (never the overflow slot 2, never outside the `std::array<uint16_t, 3>`), the overflow bit is 0 or 1 -/
theorem merge_index_bounds (w : Nat) : mdc_slot w ≤ 1 ∧ tof_slot w ≤ 1 ∧ mdc_ovf w ≤ 1 ∧ tof_ovf w ≤ 1 := by
  have h : ∀ M s, M >>> s ≤ 1 → ((w &&& M) >>> s) % 65536 ≤ 1 := fun M s hm => by
    rw [and_shr_mod w M s 65536 (by omega)]
    rw [Nat.shiftRight_eq_div_pow] at *
    exact Nat.le_trans (Nat.div_le_div_right Nat.and_le_right) hm
  exact ⟨h _ _ (by decide), h _ _ (by decide), h _ _ (by decide), h _ _ (by decide)⟩

/-- EMC columns (id, tdc, adc, measure; `measure` goes through `uint16_t` into a `uint8_t` column) -/
theorem emc_cols_eq (w : Nat) :
    [emc_col0 w, emc_col1 w, emc_col2 w, emc_col3 w] =
      [(w &&& 0xFFF80000) >>> 19, (w &&& 0x7E000) >>> 13, w &&& 0x7FF, (w &&& 0x1800) >>> 11] := by
  unfold emc_col0 emc_col1 emc_col2 emc_col3
  rw [and_shr_mod w _ _ 65536 (by decide), and_shr_mod w _ _ 65536 (by decide), and_mod w _ _ (by decide),
      and_shr_mod w _ _ 65536 (by decide), and_shr_mod w _ _ 256 (by decide)]

/-- MUC columns (id, fec) -/
theorem muc_cols_eq (w : Nat) : [muc_col0 w, muc_col1 w] = [(w >>> 16) &&& 0x7FF, w &&& 0xFFFF] := by
  unfold muc_col0 muc_col1
  rw [and_mod (w >>> 16) _ _ (by decide), and_mod w _ _ (by decide)]

/-- `upd` keeps a property of the entries that the new / updated entry has -/
theorem upd_inv (Q : Nat × Nat × Nat × Nat → Prop) (id : Nat) (f : Nat × Nat × Nat → Nat × Nat × Nat)
    (h0 : Q (id, f (0, 0, 0))) (hf : ∀ v, Q (id, v) → Q (id, f v)) :
    ∀ m : List (Nat × Nat × Nat × Nat), (∀ e ∈ m, Q e) → ∀ e ∈ upd m id f, Q e
  | [], _, e, he => by
    simp only [upd, List.mem_singleton] at he; subst he; exact h0
  | (k, v) :: rest, hm, e, he => by
    unfold upd at he
    split at he
    · rcases List.mem_cons.mp he with rfl | he
      · exact h0
      · exact hm e he
    · split at he
      · rename_i _ hk
        rcases List.mem_cons.mp he with rfl | he
        · subst hk; exact hf v (hm _ List.mem_cons_self)
        · exact hm e (List.mem_cons_of_mem _ he)
      · rcases List.mem_cons.mp he with rfl | he
        · exact hm _ List.mem_cons_self
        · exact upd_inv Q id f h0 hf rest (fun e h => hm e (List.mem_cons_of_mem _ h)) e he

/-- the accumulated overflow of every map entry stays a single bit: `digi_data[id][2] |= overflow` with `overflow ≤ 1` -/
theorem mergeWord_ovf (m : List (Nat × Nat × Nat × Nat)) (id tq val ov : Nat) (hov : ov ≤ 1)
    (hm : ∀ e ∈ m, e.2.2.2 ≤ 1) : ∀ e ∈ mergeWord m id tq val ov, e.2.2.2 ≤ 1 := by
  have hor : ∀ o : Nat, o ≤ 1 → o ||| ov ≤ 1 := fun o ho => by
    have h1 : o < 2 ^ 1 := by omega
    have h2 : ov < 2 ^ 1 := by omega
    have := Nat.or_lt_two_pow h1 h2
    omega
  unfold mergeWord
  apply upd_inv (fun e => e.2.2.2 ≤ 1) id _ _ _ m hm
  · show (if tq = 0 then (val, 0, 0 ||| ov) else (0, val, 0 ||| ov)).2.2 ≤ 1
    split <;> exact hor 0 (by omega)
  · intro v hv
    obtain ⟨t, q, o⟩ := v
    show (if tq = 0 then (val, q, o ||| ov) else (t, val, o ||| ov)).2.2 ≤ 1
    split <;> exact hor o hv

/-- over a whole payload -/
theorem foldl_merge_ovf (f : Nat → Nat × Nat × Nat × Nat) (hf : ∀ w, (f w).2.2.2 ≤ 1) :
    ∀ (data : List Nat) (m : List (Nat × Nat × Nat × Nat)), (∀ e ∈ m, e.2.2.2 ≤ 1) →
      ∀ e ∈ data.foldl (fun m w => mergeWord m (f w).1 (f w).2.1 (f w).2.2.1 (f w).2.2.2) m, e.2.2.2 ≤ 1
  | [], m, hm => hm
  | w :: rest, m, hm => by
    rw [List.foldl_cons]
    exact foldl_merge_ovf f hf rest _ (mergeWord_ovf m _ _ _ _ (hf w) hm)

/-- the `uint8_t` overflow column of MDC / TOF loses nothing -/
theorem merged_rows_eq (f : Nat → Nat × Nat × Nat × Nat) (hf : ∀ w, (f w).2.2.2 ≤ 1) (data : List Nat) :
    (data.foldl (fun m w => mergeWord m (f w).1 (f w).2.1 (f w).2.2.1 (f w).2.2.2) []).map
        (fun (id, t, q, o) => [id, t, q, o % 256]) =
    (data.foldl (fun m w => let (id, tq, val, ov) := f w; mergeWord m id tq val ov) []).map (fun (id, t, q, o) => [id, t, q, o]) := by
  apply List.map_congr_left
  intro e he
  have := foldl_merge_ovf f hf data [] (fun _ h => nomatch h) e he
  obtain ⟨id, t, q, o⟩ := e
  show [id, t, q, o % 256] = [id, t, q, o]
  rw [Nat.mod_eq_of_lt (by have : o ≤ 1 := this; omega)]

/-- `fill_digi` as translated (both `std::map` merges, the per-word EMC / MUC columns in tuple order, the raw TRG / EF words; every
narrowing conversion included) is the model's `fillDigi` -/
theorem fillDigiCpp_eq (det : Nat) (data : List Nat) : fillDigiCpp det data = fillDigi det data := by
  have hmdc : ∀ w, (mdc_key w, mdc_slot w, mdc_value w, mdc_ovf w) = mdcFields w := mdc_fields_eq
  have htof : ∀ w, (tof_key w, tof_slot w, tof_value w, tof_ovf w) = tofFields w := tof_fields_eq
  unfold fillDigiCpp fillDigi
  rw [ids_eq.1, ids_eq.2.1, ids_eq.2.2.1, ids_eq.2.2.2.1, ids_eq.2.2.2.2.1, ids_eq.2.2.2.2.2]
  by_cases h1 : det = MDC
  · rw [if_pos h1, if_pos h1]
    have := merged_rows_eq mdcFields (fun w => by rw [← hmdc w]; exact (merge_index_bounds w).2.2.1) data
    rw [← this]
    have e : ∀ w, mdc_key w = (mdcFields w).1 ∧ mdc_slot w = (mdcFields w).2.1 ∧ mdc_value w = (mdcFields w).2.2.1 ∧
        mdc_ovf w = (mdcFields w).2.2.2 := fun w => by rw [← hmdc w]; exact ⟨rfl, rfl, rfl, rfl⟩
    simp only [e]
  · rw [if_neg h1, if_neg h1]
    by_cases h2 : det = TOF
    · rw [if_pos h2, if_pos h2]
      have := merged_rows_eq tofFields (fun w => by rw [← htof w]; exact (merge_index_bounds w).2.2.2) data
      rw [← this]
      have e : ∀ w, tof_key w = (tofFields w).1 ∧ tof_slot w = (tofFields w).2.1 ∧ tof_value w = (tofFields w).2.2.1 ∧
          tof_ovf w = (tofFields w).2.2.2 := fun w => by rw [← htof w]; exact ⟨rfl, rfl, rfl, rfl⟩
      simp only [e]
    · rw [if_neg h2, if_neg h2]
      by_cases h3 : det = EMC
      · rw [if_pos h3, if_pos h3]
        exact List.map_congr_left (fun w _ => emc_cols_eq w)
      · rw [if_neg h3, if_neg h3]
        by_cases h4 : det = MUC
        · rw [if_pos h4, if_pos h4]
          exact List.map_congr_left (fun w _ => muc_cols_eq w)
        · rw [if_neg h4, if_neg h4]
          by_cases h5 : det = TRG
          · rw [if_pos h5, if_pos (Or.inl h5)]
          · rw [if_neg h5]
            by_cases h6 : det = EF
            · rw [if_pos h6, if_pos (Or.inr h6)]
            · rw [if_neg h6, if_neg (fun h => h.elim h5 h6)]

/-- `fill_digi` as a function -/
theorem fillDigiCpp_eq' : fillDigiCpp = fillDigi := funext fun det => funext (fillDigiCpp_eq det)

/-! ### fragments -/

/-- `read_ROB`, statement by statement (header reads, both flag checks, `date_length` with its three wrapping subtractions, the trailer
validation, the erase branches, `fill_digi`, the returned size), is the model's `readROB` -/
theorem readROBCpp_eq (det : Nat) : readROBCpp det = readROB det := by
  unfold readROBCpp readROB
  rw [readCpp_eq, skipCpp_eq, readNCpp_eq, fillDigiCpp_eq', flags_eq.2.2.2.2.1, flags_eq.2.2.2.2.2]

/-- `read_ROB` as a function -/
theorem readROBCpp_eq' : readROBCpp = readROB := funext readROBCpp_eq

/-- `read_ROS` (with its size loop over `read_ROB`) is the model's `readROS` -/
theorem readROSCpp_eq (fuel det : Nat) : readROSCpp fuel det = readROS fuel det := by
  unfold readROSCpp readROS
  rw [readCpp_eq, skipCpp_eq, readROBCpp_eq', flags_eq.2.2.2.1]

/-- `read_ROS` as a function -/
theorem readROSCpp_eq' : readROSCpp = readROS := funext fun fuel => funext (readROSCpp_eq fuel)

/-- `read_sub_detector` (id extraction, the skip of an unselected sub-detector, the size loop over `read_ROS`, rows tagged with the id)
is the model's `readSubDet` -/
theorem readSubDetCpp_eq (fuel : Nat) (sel : List Nat) : readSubDetCpp fuel sel = readSubDet fuel sel := by
  unfold readSubDetCpp readSubDet
  rw [readCpp_eq, skipCpp_eq, readROSCpp_eq', flags_eq.2.2.1]

/-- `read_sub_detector` as a function -/
theorem readSubDetCpp_eq' : readSubDetCpp = readSubDet := funext fun fuel => funext (readSubDetCpp_eq fuel)

/-- the test `if ( n_left != 0 ) throw std::runtime_error( "Invalid event size" );` after `while ( n_left > 0 ) …` is dead: the loop
(`loopLeft`) only ends with the unsigned counter at 0, so `Err.badEventSize` is never raised -/
theorem event_size_test_dead {α : Type} (k : P α) : (if (0 : Nat) ≠ 0 then fail .badEventSize else k) = k :=
  if_neg (fun h => h rfl)

/-- `read_event` (optional data separator, flag / version / special-unit checks, the eight header words in index order with the two
skipped words between 3 and 4, the size loop over `read_sub_detector`) is the model's `readEvent` -/
theorem readEventCpp_eq (fuel : Nat) (sel : List Nat) : readEventCpp fuel sel = readEvent fuel sel := by
  unfold readEventCpp readEvent
  simp only [event_size_test_dead]
  rw [readCpp_eq, skipCpp_eq, skip1Cpp_eq, readSubDetCpp_eq', flags_eq.1, flags_eq.2.1]
  rfl

/-- `read_event` as a function -/
theorem readEventCpp_eq' : readEventCpp = readEvent := funext fun fuel => funext (readEventCpp_eq fuel)

/-- the event loop of `arrays()`, `while ( m_cursor < m_data_end ) { read_event(); }`, is the model's `readEvents` -/
theorem readEventsCpp_eq (sel : List Nat) : ∀ fuel, readEventsCpp sel fuel = readEvents sel fuel
  | 0 => rfl
  | fuel + 1 => by
    unfold readEventsCpp readEvents
    rw [readEventCpp_eq', readEventsCpp_eq sel fuel]

/-- the default selection of `py_read_bes_raw` (empty ⇒ mdc, tof, emc, muc) is the model's `effectiveSel` -/
theorem effectiveSelCpp_eq (sel : List Nat) : effectiveSelCpp sel = effectiveSel sel := rfl

/-- the whole decode of a buffer as translated from the C++ is the model's `parse` -/
theorem parse_eq (sel ws : List Nat) : parseCpp sel ws = parse sel ws := by
  unfold parseCpp parse
  rw [readEventsCpp_eq, effectiveSelCpp_eq]

/-! ### the returned dict (`arrays()` after the event loop) -/

/-- the event-header dict: `evt_header_item_names[i]` names header word `i` of the model's `EventRec.header` -/
theorem header_keys :
    headerKeys = ["evt_time", "evt_no", "run_no", "l1_id", "evt_tag1", "evt_tag2", "evt_tag3", "evt_tag4"] := by decide

/-- which member vector is returned under which key: the position is the index into the model's `Row` (`fillDigi`: MDC / TOF
[id, t, q, overflow], EMC [id, t, q, measure], MUC [id, fec]), so "id" ↦ 0, "tdc" ↦ 1 (t), "adc" ↦ 2 (q), "overflow" / "measure" ↦ 3,
"fec" ↦ 1; the dtype of every array is the element type of its vector (16 / 8 bits; TRG / EF the raw 32-bit words); every result
comes with the offsets vector `fill_offsets()` fills for the same sub-detector -/
theorem column_wiring :
    columnWiring =
      [("mdc", [("id", 0, 16), ("adc", 2, 16), ("tdc", 1, 16), ("overflow", 3, 8)]),
       ("tof", [("id", 0, 16), ("adc", 2, 16), ("tdc", 1, 16), ("overflow", 3, 8)]),
       ("emc", [("id", 0, 16), ("adc", 2, 16), ("tdc", 1, 16), ("measure", 3, 8)]),
       ("muc", [("id", 0, 16), ("fec", 1, 16)])] ∧
    rawWiring = [("ef", 32), ("trg", 32)] ∧
    offsetsWiring = [("mdc", "m_mdc_offsets"), ("tof", "m_tof_offsets"), ("emc", "m_emc_offsets"), ("muc", "m_muc_offsets"),
                     ("ef", "m_ef_offsets"), ("trg", "m_trg_offsets")] := by decide

/-- the renderer of the model's output used by the differential tests (`Util/RawRender.lean`, `detOfBit`) prints column `i` of the
model's rows under the name the C++ returns tuple position `i` under, for every sub-detector with a column dict, and prints as many
columns as the C++ returns -/
theorem render_names_agree :
    columnWiring.all (fun (key, cols) =>
      match Raw.Render.detOfBit.find? (fun d => d.2.2.1 == key) with
      | some d => d.2.2.2.length == cols.length && cols.all (fun (c, pos, _) => d.2.2.2[pos]? == some c)
      | none => false) = true := by decide

end Pybes3Verif.RawCppTie
