/-
C05 — Digi identifiers compose and decompose without loss for every detector.

All statements are about the definitions in `Gen/DigiId.lean`, which the translator regenerates
from `/repo/src/pybes3/detectors/digi_id.py` on every run.  Variables range over all of
`BitVec 64` (numba widens every integer dtype to 64-bit two's complement; validated
differentially).  The bit layouts on the right-hand sides are the documented ones
(docs/user-manual/digi-identifier.md), written here independently of the code's constants.

Kernels containing an order comparison (`part < 3`) exist in a signed (`_s`) and an unsigned
(`_u`) variant; every theorem about them is proved for both.
Proof method: unfold the generated kernels (`simp only [kernel_defs]`) and decide the resulting
quantifier-free bit-vector formula with `bv_decide` (adds one `*._native.bv_decide.ax_*` axiom per
theorem: the LRAT certificate is checked by compiled code — listed in the evidence).
-/
import Std.Tactic.BVDecide
import Pybes3Verif.Gen.DigiId

namespace Pybes3Verif.C05
open Pybes3Verif.Gen Pybes3Verif.Gen.DigiId

macro "kdecide" : tactic =>
  `(tactic| first | (simp only [kernel_defs]; done) | (simp only [kernel_defs]; bv_decide))

/-! ## MDC : tag 0x10 | wire-type bit 15 | layer bits 9–14 | wire bits 0–8 -/

theorem mdc_decode_encode (w l t : BitVec 64) :
    mdc_id_to_wire (get_mdc_digi_id w l t) = w &&& 0x1FF ∧
    mdc_id_to_layer (get_mdc_digi_id w l t) = l &&& 0x3F ∧
    mdc_id_to_is_stereo (get_mdc_digi_id w l t) = ((t &&& 1) == 1) := by
  refine ⟨?_, ?_, ?_⟩ <;> kdecide

/-- no field can leak into the tag or above bit 31; undefined bits 16–23 stay 0 -/
theorem mdc_tag (w l t : BitVec 64) : get_mdc_digi_id w l t &&& 0xFFFFFFFFFFFF0000 = 0x10000000 := by kdecide

theorem mdc_valid_only_mdc (w l t : BitVec 64) :
    check_mdc_id (get_mdc_digi_id w l t) = true ∧ check_tof_id (get_mdc_digi_id w l t) = false ∧
    check_emc_id (get_mdc_digi_id w l t) = false ∧ check_muc_id (get_mdc_digi_id w l t) = false ∧
    check_cgem_id (get_mdc_digi_id w l t) = false := by
  refine ⟨?_, ?_, ?_, ?_, ?_⟩ <;> kdecide

/-- every word carrying the MDC tag (as uint32, int32 or any wider type): the decoded fields
re-compose to all defined bits of the word -/
theorem mdc_encode_decode (x : BitVec 64) (h : check_mdc_id x = true) :
    get_mdc_digi_id (mdc_id_to_wire x) (mdc_id_to_layer x) (if mdc_id_to_is_stereo x then 1 else 0)
      = (x &&& 0xFFFF) ||| 0x10000000 := by
  revert h; kdecide

/-- the uint16/uint8 casts lose nothing: decoders are exactly the documented bit fields -/
theorem mdc_fields (x : BitVec 64) :
    mdc_id_to_wire x = x &&& 0x1FF ∧ mdc_id_to_layer x = (x >>> 9) &&& 0x3F ∧
    mdc_id_to_is_stereo x = ((x >>> 15) &&& 1 == 1) ∧ check_mdc_id x = ((x >>> 24) &&& 0xFF == 0x10) := by
  refine ⟨?_, ?_, ?_, ?_⟩ <;> kdecide

example : mdc_id_to_layer (get_mdc_digi_id 287 42 0) = 42 ∧ check_mdc_id (get_mdc_digi_id 287 42 0) = true := by decide

/-! ## TOF : tag 0x20 | part bits 14–15 | scintillator: layer bit 8, phi bits 1–7 |
    MRPC (part bits = 3): end-cap bit 11, module bits 5–10, strip bits 1–4 | end bit 0 -/

theorem tof_part_roundtrip_s (p l f e : BitVec 64) (h : p.ult 5) :
    tof_id_to_part (get_tof_digi_id_s p l f e) = p := by revert h; kdecide
theorem tof_part_roundtrip_u (p l f e : BitVec 64) (h : p.ult 5) :
    tof_id_to_part (get_tof_digi_id_u p l f e) = p := by revert h; kdecide

/-- scintillator parts 0,1,2 -/
theorem tof_scint_decode_encode_s (p l f e : BitVec 64) (h : p.ult 3) :
    _tof_id_to_layer_or_module_1_s (get_tof_digi_id_s p l f e) = l &&& 1 ∧
    _tof_id_to_phi_or_strip_1_s (get_tof_digi_id_s p l f e) = f &&& 0x7F ∧
    tof_id_to_end (get_tof_digi_id_s p l f e) = e &&& 1 := by
  refine ⟨?_, ?_, ?_⟩ <;> (revert h; kdecide)
theorem tof_scint_decode_encode_u (p l f e : BitVec 64) (h : p.ult 3) :
    _tof_id_to_layer_or_module_1_u (get_tof_digi_id_u p l f e) = l &&& 1 ∧
    _tof_id_to_phi_or_strip_1_u (get_tof_digi_id_u p l f e) = f &&& 0x7F ∧
    tof_id_to_end (get_tof_digi_id_u p l f e) = e &&& 1 := by
  refine ⟨?_, ?_, ?_⟩ <;> (revert h; kdecide)

/-- MRPC parts 3,4 -/
theorem tof_mrpc_decode_encode_s (p l f e : BitVec 64) (h : p = 3 ∨ p = 4) :
    _tof_id_to_layer_or_module_1_s (get_tof_digi_id_s p l f e) = l &&& 0x3F ∧
    _tof_id_to_phi_or_strip_1_s (get_tof_digi_id_s p l f e) = f &&& 0xF ∧
    tof_id_to_end (get_tof_digi_id_s p l f e) = e &&& 1 := by
  refine ⟨?_, ?_, ?_⟩ <;> (revert h; kdecide)
theorem tof_mrpc_decode_encode_u (p l f e : BitVec 64) (h : p = 3 ∨ p = 4) :
    _tof_id_to_layer_or_module_1_u (get_tof_digi_id_u p l f e) = l &&& 0x3F ∧
    _tof_id_to_phi_or_strip_1_u (get_tof_digi_id_u p l f e) = f &&& 0xF ∧
    tof_id_to_end (get_tof_digi_id_u p l f e) = e &&& 1 := by
  refine ⟨?_, ?_, ?_⟩ <;> (revert h; kdecide)

/-- a part wider than its field (unsigned ≥ 5) decodes to 3 or 4 and touches no other field -/
theorem tof_part_overwide_u (p l f e : BitVec 64) (h : ¬ p.ult 3) :
    tof_id_to_part (get_tof_digi_id_u p l f e) = 3 + ((p - 3) &&& 1) ∧
    _tof_id_to_layer_or_module_1_u (get_tof_digi_id_u p l f e) = l &&& 0x3F ∧
    _tof_id_to_phi_or_strip_1_u (get_tof_digi_id_u p l f e) = f &&& 0xF ∧
    tof_id_to_end (get_tof_digi_id_u p l f e) = e &&& 1 := by
  refine ⟨?_, ?_, ?_, ?_⟩ <;> (revert h; kdecide)
theorem tof_part_overwide_s (p l f e : BitVec 64) (h : ¬ p.slt 3) :
    tof_id_to_part (get_tof_digi_id_s p l f e) = 3 + ((p - 3) &&& 1) ∧
    _tof_id_to_layer_or_module_1_s (get_tof_digi_id_s p l f e) = l &&& 0x3F ∧
    _tof_id_to_phi_or_strip_1_s (get_tof_digi_id_s p l f e) = f &&& 0xF ∧
    tof_id_to_end (get_tof_digi_id_s p l f e) = e &&& 1 := by
  refine ⟨?_, ?_, ?_, ?_⟩ <;> (revert h; kdecide)

theorem tof_tag_s (p l f e : BitVec 64) : get_tof_digi_id_s p l f e &&& 0xFFFFFFFFFFFF0000 = 0x20000000 := by kdecide
theorem tof_tag_u (p l f e : BitVec 64) : get_tof_digi_id_u p l f e &&& 0xFFFFFFFFFFFF0000 = 0x20000000 := by kdecide

theorem tof_valid_only_tof_s (p l f e : BitVec 64) :
    check_tof_id (get_tof_digi_id_s p l f e) = true ∧ check_mdc_id (get_tof_digi_id_s p l f e) = false ∧
    check_emc_id (get_tof_digi_id_s p l f e) = false ∧ check_muc_id (get_tof_digi_id_s p l f e) = false ∧
    check_cgem_id (get_tof_digi_id_s p l f e) = false := by
  refine ⟨?_, ?_, ?_, ?_, ?_⟩ <;> kdecide
theorem tof_valid_only_tof_u (p l f e : BitVec 64) :
    check_tof_id (get_tof_digi_id_u p l f e) = true ∧ check_mdc_id (get_tof_digi_id_u p l f e) = false ∧
    check_emc_id (get_tof_digi_id_u p l f e) = false ∧ check_muc_id (get_tof_digi_id_u p l f e) = false ∧
    check_cgem_id (get_tof_digi_id_u p l f e) = false := by
  refine ⟨?_, ?_, ?_, ?_, ?_⟩ <;> kdecide

/-- every word with the TOF tag re-composes to its defined bits (the defined mask depends on the part) -/
theorem tof_encode_decode_s (x : BitVec 64) (h : check_tof_id x = true) :
    get_tof_digi_id_s (tof_id_to_part x) (_tof_id_to_layer_or_module_1_s x) (_tof_id_to_phi_or_strip_1_s x)
        (tof_id_to_end x)
      = (x &&& (if (x >>> 14) &&& 3 == 3 then 0xCFFF else 0xC1FF)) ||| 0x20000000 := by
  revert h; kdecide
theorem tof_encode_decode_u (x : BitVec 64) (h : check_tof_id x = true) :
    get_tof_digi_id_u (tof_id_to_part x) (_tof_id_to_layer_or_module_1_u x) (_tof_id_to_phi_or_strip_1_u x)
        (tof_id_to_end x)
      = (x &&& (if (x >>> 14) &&& 3 == 3 then 0xCFFF else 0xC1FF)) ||| 0x20000000 := by
  revert h; kdecide

/-- the one- and two-argument forms agree when the part passed is the decoded part -/
theorem tof_variants_agree (x : BitVec 64) :
    _tof_id_to_layer_or_module_2_s x (tof_id_to_part x) = _tof_id_to_layer_or_module_1_s x ∧
    _tof_id_to_layer_or_module_2_u x (tof_id_to_part x) = _tof_id_to_layer_or_module_1_u x ∧
    _tof_id_to_phi_or_strip_2_s x (tof_id_to_part x) = _tof_id_to_phi_or_strip_1_s x ∧
    _tof_id_to_phi_or_strip_2_u x (tof_id_to_part x) = _tof_id_to_phi_or_strip_1_u x ∧
    _tof_id_to_layer_or_module_1_s x = _tof_id_to_layer_or_module_1_u x ∧
    _tof_id_to_phi_or_strip_1_s x = _tof_id_to_phi_or_strip_1_u x := by
  refine ⟨?_, ?_, ?_, ?_, ?_, ?_⟩ <;> kdecide

theorem tof_fields (x : BitVec 64) :
    tof_id_to_part x = (if (x >>> 14) &&& 3 == 3 then 3 + ((x >>> 11) &&& 1) else (x >>> 14) &&& 3) ∧
    tof_id_to_end x = x &&& 1 ∧
    _tof_id_to_layer_or_module_1_u x = (if (x >>> 14) &&& 3 == 3 then (x >>> 5) &&& 0x3F else (x >>> 8) &&& 1) ∧
    _tof_id_to_phi_or_strip_1_u x = (if (x >>> 14) &&& 3 == 3 then (x >>> 1) &&& 0xF else (x >>> 1) &&& 0x7F) := by
  refine ⟨?_, ?_, ?_, ?_⟩ <;> kdecide

example : tof_id_to_part (get_tof_digi_id_s 4 35 11 1) = 4 ∧ _tof_id_to_layer_or_module_1_s (get_tof_digi_id_s 4 35 11 1) = 35 := by decide

/-! ## EMC : tag 0x30 | module bits 16–19 | theta bits 8–13 | phi bits 0–7 -/

theorem emc_decode_encode (m t p : BitVec 64) :
    emc_id_to_module (get_emc_digi_id m t p) = m &&& 0xF ∧
    emc_id_to_theta (get_emc_digi_id m t p) = t &&& 0x3F ∧
    emc_id_to_phi (get_emc_digi_id m t p) = p &&& 0xFF := by
  refine ⟨?_, ?_, ?_⟩ <;> kdecide

theorem emc_tag (m t p : BitVec 64) : get_emc_digi_id m t p &&& 0xFFFFFFFFFFF0C000 = 0x30000000 := by kdecide

theorem emc_valid_only_emc (m t p : BitVec 64) :
    check_emc_id (get_emc_digi_id m t p) = true ∧ check_mdc_id (get_emc_digi_id m t p) = false ∧
    check_tof_id (get_emc_digi_id m t p) = false ∧ check_muc_id (get_emc_digi_id m t p) = false ∧
    check_cgem_id (get_emc_digi_id m t p) = false := by
  refine ⟨?_, ?_, ?_, ?_, ?_⟩ <;> kdecide

theorem emc_encode_decode (x : BitVec 64) (h : check_emc_id x = true) :
    get_emc_digi_id (emc_id_to_module x) (emc_id_to_theta x) (emc_id_to_phi x) = (x &&& 0xF3FFF) ||| 0x30000000 := by
  revert h; kdecide

theorem emc_fields (x : BitVec 64) :
    emc_id_to_module x = (x >>> 16) &&& 0xF ∧ emc_id_to_theta x = (x >>> 8) &&& 0x3F ∧ emc_id_to_phi x = x &&& 0xFF ∧
    check_emc_id x = ((x >>> 24) &&& 0xFF == 0x30) := by
  refine ⟨?_, ?_, ?_, ?_⟩ <;> kdecide

/-! ## MUC : tag 0x40 | part bits 16–19 | segment bits 12–15 | layer bits 8–11 | channel bits 0–7 -/

theorem muc_decode_encode (p s l c : BitVec 64) :
    muc_id_to_part (get_muc_digi_id p s l c) = p &&& 0xF ∧
    muc_id_to_segment (get_muc_digi_id p s l c) = s &&& 0xF ∧
    muc_id_to_layer (get_muc_digi_id p s l c) = l &&& 0xF ∧
    muc_id_to_channel (get_muc_digi_id p s l c) = c &&& 0xFF := by
  refine ⟨?_, ?_, ?_, ?_⟩ <;> kdecide

theorem muc_tag (p s l c : BitVec 64) : get_muc_digi_id p s l c &&& 0xFFFFFFFFFFF00000 = 0x40000000 := by kdecide

theorem muc_valid_only_muc (p s l c : BitVec 64) :
    check_muc_id (get_muc_digi_id p s l c) = true ∧ check_mdc_id (get_muc_digi_id p s l c) = false ∧
    check_tof_id (get_muc_digi_id p s l c) = false ∧ check_emc_id (get_muc_digi_id p s l c) = false ∧
    check_cgem_id (get_muc_digi_id p s l c) = false := by
  refine ⟨?_, ?_, ?_, ?_, ?_⟩ <;> kdecide

theorem muc_encode_decode (x : BitVec 64) (h : check_muc_id x = true) :
    get_muc_digi_id (muc_id_to_part x) (muc_id_to_segment x) (muc_id_to_layer x) (muc_id_to_channel x)
      = (x &&& 0xFFFFF) ||| 0x40000000 := by
  revert h; kdecide

theorem muc_fields (x : BitVec 64) :
    muc_id_to_part x = (x >>> 16) &&& 0xF ∧ muc_id_to_segment x = (x >>> 12) &&& 0xF ∧
    muc_id_to_layer x = (x >>> 8) &&& 0xF ∧ muc_id_to_channel x = x &&& 0xFF ∧
    check_muc_id x = ((x >>> 24) &&& 0xFF == 0x40) := by
  refine ⟨?_, ?_, ?_, ?_, ?_⟩ <;> kdecide

/-! ## CGEM : tag 0x60 | strip bits 7–18 | strip type bit 6 (0 = X strip, stored inverted) |
    sheet bits 3–5 | layer bits 0–2 -/

theorem cgem_decode_encode (l s st b : BitVec 64) :
    cgem_id_to_layer (get_cgem_digi_id l s st b) = l &&& 7 ∧
    cgem_id_to_sheet (get_cgem_digi_id l s st b) = s &&& 7 ∧
    cgem_id_to_strip (get_cgem_digi_id l s st b) = st &&& 0xFFF ∧
    cgem_id_to_is_x_strip (get_cgem_digi_id l s st b) = ((b &&& 1) == 1) := by
  refine ⟨?_, ?_, ?_, ?_⟩ <;> kdecide

theorem cgem_tag (l s st b : BitVec 64) : get_cgem_digi_id l s st b &&& 0xFFFFFFFFFFF80000 = 0x60000000 := by kdecide

theorem cgem_valid_only_cgem (l s st b : BitVec 64) :
    check_cgem_id (get_cgem_digi_id l s st b) = true ∧ check_mdc_id (get_cgem_digi_id l s st b) = false ∧
    check_tof_id (get_cgem_digi_id l s st b) = false ∧ check_emc_id (get_cgem_digi_id l s st b) = false ∧
    check_muc_id (get_cgem_digi_id l s st b) = false := by
  refine ⟨?_, ?_, ?_, ?_, ?_⟩ <;> kdecide

theorem cgem_encode_decode (x : BitVec 64) (h : check_cgem_id x = true) :
    get_cgem_digi_id (cgem_id_to_layer x) (cgem_id_to_sheet x) (cgem_id_to_strip x)
        (if cgem_id_to_is_x_strip x then 1 else 0)
      = (x &&& 0x7FFFF) ||| 0x60000000 := by
  revert h; kdecide

theorem cgem_fields (x : BitVec 64) :
    cgem_id_to_layer x = x &&& 7 ∧ cgem_id_to_sheet x = (x >>> 3) &&& 7 ∧ cgem_id_to_strip x = (x >>> 7) &&& 0xFFF ∧
    cgem_id_to_is_x_strip x = ((x >>> 6) &&& 1 == 0) ∧ check_cgem_id x = ((x >>> 24) &&& 0xFF == 0x60) := by
  refine ⟨?_, ?_, ?_, ?_, ?_⟩ <;> kdecide

example : cgem_id_to_strip (get_cgem_digi_id 2 1 1100 1) = 1100 ∧ cgem_id_to_is_x_strip (get_cgem_digi_id 2 1 1100 1) = true := by decide

end Pybes3Verif.C05
