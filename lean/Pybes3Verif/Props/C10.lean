import Pybes3Verif.Proofs.C10All
/-!
C10 — electronics IDs in raw data map one-to-one onto valid detector identifiers.

Subject: the four tables `build_{mdc,tof,emc,muc}_re2te()` *as evaluated from the working tree* (`Gen/Reid.lean`),
the id-extraction expressions of `fill_digi` extracted from raw_io.cc (`Gen/RawConsts.lean`), the identifier kernels
(`Gen/DigiId.lean`), the geometry tables/kernels (`Gen/Mdc.lean`, `Gen/Emc.lean`) and the pinned reference tables
(`reference/reid_tables.json`, SHA-256 pinned).  Every quantifier over table entries is discharged by kernel
evaluation over the whole table; injectivity uses a sorting certificate emitted by the generator and checked here.
BOSS sources are not available offline: "equals the BOSS map" is decided as "equals the pinned reference".
-/
namespace Pybes3Verif.C10
open Pybes3Verif.Util Pybes3Verif.Gen Pybes3Verif.Gen.Reid Pybes3Verif.Gen.DigiId

/-! ### every electronics id that can occur in a raw word indexes inside its table -/

private theorem shr_and_lt (w M k bound : Nat) (h : M >>> k < bound) : (w &&& M) >>> k < bound := by
  have h1 : w &&& M ≤ M := Nat.and_le_right
  have : (w &&& M) >>> k ≤ M >>> k := by
    simp only [Nat.shiftRight_eq_div_pow]; exact Nat.div_le_div_right h1
  omega

theorem index_in_range (w : Nat) :
    RawConsts.FIELDS_MDC_id w < tbl_mdc_len ∧ RawConsts.FIELDS_TOF_id w < tbl_tof_len ∧
    RawConsts.FIELDS_EMC_id w < tbl_emc_len ∧ RawConsts.FIELDS_MUC_id w < tbl_muc_len := by
  refine ⟨?_, ?_, ?_, ?_⟩
  · exact shr_and_lt w _ _ _ (by decide)
  · exact shr_and_lt w _ _ _ (by decide)
  · exact shr_and_lt w _ _ _ (by decide)
  · unfold RawConsts.FIELDS_MUC_id
    have : (w >>> 16) &&& 0x7ff ≤ 0x7ff := Nat.and_le_right
    have h : tbl_muc_len = 2048 := by decide
    omega

/-! ### totality: every table entry is the invalid marker or carries its detector's tag -/

theorem total_mdc (i : Nat) (h : i < 16384) : tbl_mdc_raw i = INVALID ∨ check_mdc_id (tbl_mdc i) = true := by
  simpa [totalMdc] using totalMdc_b i h
theorem total_tof (i : Nat) (h : i < 16384) : tbl_tof_raw i = INVALID ∨ check_tof_id (tbl_tof i) = true := by
  simpa [totalTof] using totalTof_b i h
theorem total_emc (i : Nat) (h : i < 8192) : tbl_emc_raw i = INVALID ∨ check_emc_id (tbl_emc i) = true := by
  simpa [totalEmc] using totalEmc_b i h
theorem total_muc (i : Nat) (h : i < 2048) : tbl_muc_raw i = INVALID ∨ check_muc_id (tbl_muc i) = true := by
  simpa [totalMuc] using totalMuc_b i h

/-! ### distinct electronics ids never map to the same detector identifier -/

private theorem inj_generic (raw rank sorted : Nat → Nat) (n m : Nat)
    (hr : ∀ i, i < n → rankOk raw rank sorted m i = true) (hs : ∀ k, k < m → sortedOk raw sorted m k = true) :
    ∀ i j, i < n → j < n → raw i ≠ INVALID → raw j ≠ INVALID → raw i = raw j → i = j := by
  apply inj_of_cert raw sorted rank n m (fun i => raw i ≠ INVALID)
  · intro k hk
    have := hs k (by omega)
    simp only [sortedOk, Bool.and_eq_true, Bool.or_eq_true, decide_eq_true_eq] at this
    rcases this.2 with h | h
    · omega
    · exact h
  · intro i hi hm
    have := hr i hi
    simp only [rankOk, Bool.or_eq_true, Bool.and_eq_true, decide_eq_true_eq, beq_iff_eq] at this
    rcases this with h | h
    · exact absurd h hm
    · exact h

theorem injective_mdc : ∀ i j, i < 16384 → j < 16384 → tbl_mdc_raw i ≠ INVALID → tbl_mdc_raw j ≠ INVALID →
    tbl_mdc_raw i = tbl_mdc_raw j → i = j := inj_generic _ _ _ _ _ rankMdc_b sortedMdc_b
theorem injective_tof : ∀ i j, i < 16384 → j < 16384 → tbl_tof_raw i ≠ INVALID → tbl_tof_raw j ≠ INVALID →
    tbl_tof_raw i = tbl_tof_raw j → i = j := inj_generic _ _ _ _ _ rankTof_b sortedTof_b
theorem injective_emc : ∀ i j, i < 8192 → j < 8192 → tbl_emc_raw i ≠ INVALID → tbl_emc_raw j ≠ INVALID →
    tbl_emc_raw i = tbl_emc_raw j → i = j := inj_generic _ _ _ _ _ rankEmc_b sortedEmc_b
theorem injective_muc : ∀ i j, i < 2048 → j < 2048 → tbl_muc_raw i ≠ INVALID → tbl_muc_raw j ≠ INVALID →
    tbl_muc_raw i = tbl_muc_raw j → i = j := inj_generic _ _ _ _ _ rankMuc_b sortedMuc_b

/-! ### consistent fields -/

/-- MDC: wire type of a mapped identifier = stereo class of its layer in the geometry; layer is a real layer -/
theorem mdc_fields_consistent (i : Nat) (h : i < 16384) : mdcFieldsOk i = true := mdcFields_b i h
/-- every MDC wire is the image of an electronics id (exactly one, by `injective_mdc`) -/
theorem mdc_every_wire_mapped (g : Nat) (h : g < 6796) : mdcWireOk g = true := mdcWire_b g h
/-- EMC: every mapped identifier is a real crystal and every crystal is the image of an electronics id -/
theorem emc_fields_consistent (i : Nat) (h : i < 8192) : emcFieldsOk i = true := emcFields_b i h
theorem emc_every_crystal_mapped (g : Nat) (h : g < 6240) : emcCrystalOk g = true := emcCrystal_b g h
theorem tof_fields_consistent (i : Nat) (h : i < 16384) : tofFieldsOk i = true := tofFields_b i h
theorem muc_fields_consistent (i : Nat) (h : i < 2048) : mucFieldsOk i = true := mucFields_b i h

/-! ### the tables equal the pinned reference (chunk by chunk = entry by entry) -/

theorem equals_reference :
    (∀ j, j < 256 → tbl_mdc_chunk j = ref_mdc_chunk j) ∧ (∀ j, j < 256 → tbl_tof_chunk j = ref_tof_chunk j) ∧
    (∀ j, j < 128 → tbl_emc_chunk j = ref_emc_chunk j) ∧ (∀ j, j < 32 → tbl_muc_chunk j = ref_muc_chunk j) ∧
    tbl_mdc_len = 16384 ∧ tbl_tof_len = 16384 ∧ tbl_emc_len = 8192 ∧ tbl_muc_len = 2048 := by
  refine ⟨fun j h => ?_, fun j h => ?_, fun j h => ?_, fun j h => ?_, lensMdc.1, lensTof.1, lensEmc.1, lensMuc.1⟩
  · simpa [eqRefMdc] using eqRefMdc_b j h
  · simpa [eqRefTof] using eqRefTof_b j h
  · simpa [eqRefEmc] using eqRefEmc_b j h
  · simpa [eqRefMuc] using eqRefMuc_b j h

example : tbl_mdc_raw 0x2A01 ≠ INVALID ∧ mdc_id_to_layer (tbl_mdc 0x2A01) = 36 := by decide +kernel

end Pybes3Verif.C10
