import Pybes3Verif.Gen.RawConsts
import Pybes3Verif.Model.RawParser
/-!
Tie between the hand-written raw-parser model and the C++ source: the flags, sub-detector ids, format
version, special-unit count and every `fill_digi` mask/shift expression, *extracted from raw_io.hh / raw_io.cc
on every run* (`Gen/RawConsts.lean`), are the ones the model uses.  A changed constant or mask in the source
breaks these theorems (the structural part of the parser is tied by the differential test against the
natively compiled working-tree sources).
-/
namespace Pybes3Verif.RawTie
open Pybes3Verif.Gen Pybes3Verif.Raw

theorem flags_agree :
    RawConsts.DATA_SEPERATOR = DATA_SEPERATOR ∧ RawConsts.FULL_EVENT = FULL_EVENT ∧
    RawConsts.SUB_DETECTOR = SUB_DETECTOR ∧ RawConsts.ROS = ROS ∧ RawConsts.ROB = ROB ∧ RawConsts.ROD = ROD ∧
    RawConsts.FORMAT_VERSION = FORMAT_VERSION ∧ RawConsts.EVENT_SPEC_UNITS = 10 := by decide

theorem ids_agree :
    RawConsts.ID_MDC = MDC ∧ RawConsts.ID_TOF = TOF ∧ RawConsts.ID_EMC = EMC ∧ RawConsts.ID_MUC = MUC ∧
    RawConsts.ID_TRG = TRG ∧ RawConsts.ID_EF = EF := by decide

theorem mdc_fields_agree (w : Nat) :
    mdcFields w = (RawConsts.FIELDS_MDC_id w, RawConsts.FIELDS_MDC_t_or_q w, RawConsts.FIELDS_MDC_signal_value w,
                   RawConsts.FIELDS_MDC_overflow w) := by
  simp [mdcFields, RawConsts.FIELDS_MDC_id, RawConsts.FIELDS_MDC_t_or_q, RawConsts.FIELDS_MDC_signal_value,
        RawConsts.FIELDS_MDC_overflow]

theorem tof_fields_agree (w : Nat) :
    tofFields w = (RawConsts.FIELDS_TOF_id w, RawConsts.FIELDS_TOF_t_or_q w, RawConsts.FIELDS_TOF_signal_value w,
                   RawConsts.FIELDS_TOF_overflow w) := by
  simp [tofFields, RawConsts.FIELDS_TOF_id, RawConsts.FIELDS_TOF_t_or_q, RawConsts.FIELDS_TOF_signal_value,
        RawConsts.FIELDS_TOF_overflow]

theorem emc_muc_fields_agree (w : Nat) :
    fillDigi EMC [w] = [[RawConsts.FIELDS_EMC_id w, RawConsts.FIELDS_EMC_tdc w, RawConsts.FIELDS_EMC_adc w,
                         RawConsts.FIELDS_EMC_measure w]] ∧
    fillDigi MUC [w] = [[RawConsts.FIELDS_MUC_id w, RawConsts.FIELDS_MUC_fec w]] := by
  constructor <;>
    simp [fillDigi, MDC, TOF, EMC, MUC, RawConsts.FIELDS_EMC_id, RawConsts.FIELDS_EMC_tdc, RawConsts.FIELDS_EMC_adc,
          RawConsts.FIELDS_EMC_measure, RawConsts.FIELDS_MUC_id, RawConsts.FIELDS_MUC_fec]

end Pybes3Verif.RawTie
