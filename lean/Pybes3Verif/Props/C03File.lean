import Pybes3Verif.Props.C03
import Pybes3Verif.Model.RawConcat
import Pybes3Verif.Proofs.RawFileLemmas
import Pybes3Verif.Proofs.RawFileLemmas2
/-!
C03 / C04 at file level: the Python framing of raw files (`_preprocess_file`, `_read_batch`) composed with the
batch loop and the C++ parser model reads back exactly what `encFile` wrote.
Helper lemmas in `Pybes3Verif/Proofs/RawFileLemmas.lean` and `Pybes3Verif/Proofs/RawFileLemmas2.lean`.
-/
namespace Pybes3Verif.RawFile
open Pybes3Verif.Raw Pybes3Verif.Raw.Spec Pybes3Verif.RawFile.Spec

/-! ### Group F — C03/C04 at file level -/

/-- words survive the little-endian byte encoding -/
theorem wordAt_wordsToBytes (pre : List Nat) (ws rest : List Nat) (i : Nat) (hi : i < ws.length) (hw : wordsOk ws = true) :
    wordAt (pre ++ wordsToBytes ws ++ rest) (pre.length + 4 * i) = ws.getD i 0 :=
  wordAt_words ws pre rest i hi hw

/-- the framing finds exactly the blocks that were written, for any application name / tag length -/
theorem fileBlocks_encFile (f : FileSpec) (h : f.wf = true) :
    fileBlocks (encFile f) = some ((f.blocks.map blockOnDisk).map encBlock) :=
  fileBlocks_encFile_aux f h

/-- the intended decode does not depend on the separator header words -/
theorem expected_blockOnDisk (sel : List Nat) (bs : List Block) : expected sel (bs.map blockOnDisk) = expected sel bs := by
  unfold expected
  rw [List.flatMap_map]
  rfl

/-- C03 at file level: for every well-formed file (any name / tag length, any number of events and blocks), every batch size
≥ 1, every completion order of the decoding tasks and every selection, reading the file returns one record per event, in
file order, exactly as encoded -/
theorem file_roundtrip (sel : List Nat) (perBatch : Nat) (hp : 1 ≤ perBatch) (sched : List Nat) (f : FileSpec) (h : f.wf = true) :
    arraysModel sel perBatch none sched (encFile f) = some (expected sel f.blocks) := by
  rw [arraysModel_blocks sel perBatch hp none sched (encFile f) (f.blocks.map blockOnDisk)
    (FileSpec.wf_unpack f h).2.2.2.2.2.2.2.2 (fileBlocks_encFile f h)]
  show some (expected sel ((f.blocks.map blockOnDisk).take (f.blocks.map blockOnDisk).length)) = _
  rw [List.take_length, expected_blockOnDisk]

/-- C04 at file level: asking for the first n blocks returns the events of the first n blocks, and the whole file when n
exceeds the number of blocks -/
theorem file_prefix (sel : List Nat) (perBatch : Nat) (hp : 1 ≤ perBatch) (sched : List Nat) (n : Nat) (f : FileSpec) (h : f.wf = true) :
    arraysModel sel perBatch (some n) sched (encFile f) = some (expected sel (f.blocks.take n)) := by
  rw [arraysModel_blocks sel perBatch hp (some n) sched (encFile f) (f.blocks.map blockOnDisk)
    (FileSpec.wf_unpack f h).2.2.2.2.2.2.2.2 (fileBlocks_encFile f h)]
  show some (expected sel ((f.blocks.map blockOnDisk).take (min n (f.blocks.map blockOnDisk).length))) = _
  have e : (f.blocks.map blockOnDisk).take (min n (f.blocks.map blockOnDisk).length)
      = (f.blocks.take n).map blockOnDisk := by
    rw [List.map_take, List.take_eq_take_iff]; omega
  rw [e, expected_blockOnDisk]

end Pybes3Verif.RawFile

/-! ### Non-vacuity: a concrete well-formed file (5-byte name, 2-byte tag, two blocks, three events) -/
namespace Pybes3Verif.RawFile
open Pybes3Verif.Raw Pybes3Verif.Raw.Spec Pybes3Verif.RawFile.Spec

def exFile : FileSpec :=
  { name := [102, 105, 108, 101, 49], tag := [116, 49], header := [8, 0x2050000, 1, 20260929, 120000, 0, 0],
    params := [9, 1234, 0, 0, 0, 15, 0, 0], tail := [10, 2, 0, 3, 0, 0, 0, 0], blocks := Pybes3Verif.C03.exBlocks }

example : exFile.wf = true := by decide +kernel
/-- the model, run on the bytes of that file with one block per batch and the second task finishing first, returns the three
events; asking for one block returns the two events of the first block -/
example : (arraysModel [] 1 none [1, 0] (encFile exFile)).map (·.length) = some 3 ∧
    (arraysModel [] 1 (some 1) [1, 0] (encFile exFile)).map (·.length) = some 2 := by decide +kernel
example : (encFile exFile).length % 4 = 0 ∧ padded 5 = 8 ∧ padded 2 = 4 := by decide +kernel

end Pybes3Verif.RawFile

/-! ### `concatenate(files)`: several files read one after the other -/
namespace Pybes3Verif.RawFile
open Pybes3Verif.Raw Pybes3Verif.Raw.Spec Pybes3Verif.RawFile.Spec

theorem wordAt_encFile_zero (f : FileSpec) (h : f.wf = true) : wordAt (encFile f) 0 = FILE_START := by
  have hw := (FileSpec.wf_unpack f h)
  have := wordAt_words (FILE_START :: f.header) [] (wordsToBytes [FILE_NAME, f.name.length] ++ padText f.name ++ wordsToBytes [f.tag.length] ++ padText f.tag ++
      wordsToBytes (RUN_PARAMS :: f.params) ++
      wordsToBytes (f.blocks.flatMap (fun b => [DATA_SEPERATOR, b.w1, b.w2, 4 * (b.events.flatMap encEvent).length] ++ b.events.flatMap encEvent)) ++
      wordsToBytes (FILE_TAIL_START :: f.tail ++ [FILE_END])) 0 (by simp)
    (by rw [wordsOk_cons]; exact ⟨FILE_START_lt, hw.2.2.2.1⟩)
  simpa [encFile, List.append_assoc] using this

private theorem mapM_files (sel : List Nat) (perBatch : Nat) (hp : 1 ≤ perBatch) (sched : List Nat) :
    ∀ (fs : List FileSpec), (∀ f ∈ fs, f.wf = true) →
      (fs.map encFile).mapM (arraysModel sel perBatch none sched) = some (fs.map (fun f => expected sel f.blocks))
  | [], _ => rfl
  | f :: fs, h => by
    have h1 := file_roundtrip sel perBatch hp sched f (h f (by simp))
    have h2 := mapM_files sel perBatch hp sched fs (fun g hg => h g (by simp [hg]))
    simp only [List.map_cons, List.mapM_cons, h1, h2]
    rfl

private theorem expected_flatMap (sel : List Nat) : ∀ fs : List FileSpec,
    (fs.map (fun f => expected sel f.blocks)).flatten = expected sel (fs.flatMap (·.blocks))
  | [] => rfl
  | f :: fs => by
    simp only [List.map_cons, List.flatten_cons, List.flatMap_cons, expected_append, expected_flatMap sel fs]

/-- C04, "concatenating files returns the same events in the same order": for every non-empty ordered list of well-formed files
(each with its own name/tag length and blocks), every batch size ≥ 1 and every completion order, the result is the decode of all
blocks of all files in list order -/
theorem concatenate_roundtrip (sel : List Nat) (perBatch : Nat) (hp : 1 ≤ perBatch) (sched : List Nat) (fs : List FileSpec)
    (hne : fs ≠ []) (h : ∀ f ∈ fs, f.wf = true) :
    concatModel sel perBatch sched (fs.map encFile) = some (expected sel (fs.flatMap (·.blocks))) := by
  unfold concatModel
  have hall : (fs.map encFile).filter (fun f => wordAt f 0 == FILE_START) = fs.map encFile := by
    apply List.filter_eq_self.mpr
    intro x hx
    obtain ⟨f, hf, rfl⟩ := List.mem_map.mp hx
    simp [wordAt_encFile_zero f (h f hf)]
  simp only [hall]
  have hne' : (fs.map encFile).isEmpty = false := by
    cases fs with
    | nil => exact absurd rfl hne
    | cons _ _ => rfl
  rw [hne', mapM_files sel perBatch hp sched fs h]
  simp only [Bool.false_eq_true, ↓reduceIte, Option.map_some, expected_flatMap]

example : (concatModel [] 1 [1, 0] [encFile exFile, [1, 2, 3, 4], encFile exFile]).map (·.length) = some 6 := by decide +kernel

end Pybes3Verif.RawFile
