/-
CacheTie — `_cache_numba.py` *translated from the source on every run* (`Gen/CachePy.lean`, by `tools/translate/cachepy.py`) is the
code the hand-written model `Model/Cache.lean` (and hence the theorems of C17) is about:

* the number and the order of the (table, cache glob) pairs are the model's `nTables` / table indices, tables and globs are distinct;
* the decision of `cache_auto_clear` (`src_latest_mtime > cache_earliest_mtime or force`) is literally the condition of the model's
  `cacheAutoClear`; the `min` over the modification times of all matched cache files is the model's `minMtime`; the `max` over the single
  table file is the model's `tableMtime`;
* `cacheAutoClear` is the generated pieces put together; `sweep` visits the generated pairs in order; the import-time check and the
  forced clear of `step` run the sweep with the `force` literals of `check_numba_cache` / `clear_numba_cache`;
* the shape facts established by the translator (every pair is visited, every matched file is removed, no matched file = nothing
  happens, the check precedes the sub-module imports).
-/
import Pybes3Verif.Model.Cache
import Pybes3Verif.Gen.CachePy

namespace Pybes3Verif.Gen.CachePy
open Pybes3Verif

/-! ### the (table, glob) pairs -/

/-- `src_cache_list` has as many pairs as the model has tables -/
theorem nTables_eq : nTablesPy = Cache.nTables := by decide

/-- `nTablesPy` is the length of the translated list -/
theorem nTablesPy_eq_length : nTablesPy = pairs.length := by decide

/-- the tables in list order: index 0 is the MDC table, index 1 the EMC table, as in `Cache.CacheFile.table` -/
theorem pairs_tables : pairs.map Prod.fst = ["mdc_geom.npz", "emc_geom.npz"] := by decide

/-- the table files are pairwise distinct -/
theorem pairs_tables_nodup : (pairs.map Prod.fst).Nodup := by decide

/-- the cache globs are pairwise distinct -/
theorem pairs_globs_nodup : (pairs.map Prod.snd).Nodup := by decide

/-! ### the aggregates -/

/-- `max` over the modification times of the sources, when the source pattern matches exactly one file (the translator checks that
every table path is free of glob characters and exists): the modification time of that table, the model's `s.tableMtime t` -/
theorem srcAgg_single (m : Nat) : srcAgg [m] = m := by
  simp only [srcAgg, List.foldl_cons, List.foldl_nil]
  exact Nat.zero_max m

/-- `srcAgg` is an upper bound of every source's modification time -/
theorem srcAgg_ge (ms : List Nat) : ∀ x ∈ ms, x ≤ srcAgg ms := by
  have key : ∀ (ms : List Nat) (a : Nat), a ≤ ms.foldl max a ∧ ∀ x ∈ ms, x ≤ ms.foldl max a := by
    intro ms
    induction ms with
    | nil => intro a; exact ⟨Nat.le_refl a, fun x hx => nomatch hx⟩
    | cons b rest ih =>
      intro a
      simp only [List.foldl_cons]
      refine ⟨Nat.le_trans (Nat.le_max_left a b) (ih (max a b)).1, ?_⟩
      intro x hx
      rcases List.mem_cons.mp hx with h | h
      · subst h; exact Nat.le_trans (Nat.le_max_right a x) (ih (max a x)).1
      · exact (ih (max a b)).2 x h
  exact (key ms 0).2

/-- `min` over the modification times of the matched cache files (first file `f`, the others `fs`) is the model's `minMtime` -/
theorem cacheAgg_eq_minMtime (f : Cache.CacheFile) (fs : List Cache.CacheFile) :
    cacheAgg f.mtime (fs.map (·.mtime)) = Cache.minMtime (f :: fs) := by
  simp only [cacheAgg, Cache.minMtime, List.foldl_map, List.foldl_cons, List.headD_cons, Nat.min_self]

/-- the same for any list: the model's `minMtime` is the generated aggregate started at the first file (for the empty list both
are the model's default 0; the code never gets there: `if not caches: return []`) -/
theorem minMtime_eq_cacheAgg (fs : List Cache.CacheFile) :
    Cache.minMtime fs = cacheAgg (fs.headD ⟨0, 0, none, 0, 0⟩).mtime (fs.map (·.mtime)) := by
  simp only [cacheAgg, Cache.minMtime, List.foldl_map]

/-- `cacheAgg` is a lower bound of every matched file's modification time: one old file among newer ones (e.g. a data file next
to a rewritten index file) decides -/
theorem cacheAgg_le (m : Nat) (ms : List Nat) : ∀ x ∈ m :: ms, cacheAgg m ms ≤ x := by
  have key : ∀ (ms : List Nat) (a : Nat), ms.foldl min a ≤ a ∧ ∀ x ∈ ms, ms.foldl min a ≤ x := by
    intro ms
    induction ms with
    | nil => intro a; exact ⟨Nat.le_refl a, fun x hx => nomatch hx⟩
    | cons b rest ih =>
      intro a
      simp only [List.foldl_cons]
      refine ⟨Nat.le_trans (ih (min a b)).1 (Nat.min_le_left a b), ?_⟩
      intro x hx
      rcases List.mem_cons.mp hx with h | h
      · subst h; exact Nat.le_trans (ih (min a x)).1 (Nat.min_le_right a x)
      · exact (ih (min a b)).2 x h
  intro x hx
  rcases List.mem_cons.mp hx with h | h
  · subst h; exact (key ms x).1
  · exact (key ms m).2 x h

/-! ### the decision -/

/-- the generated decision is literally the condition inside `Cache.cacheAutoClear` -/
theorem clearDecision_eq (s : Cache.St) (t : Nat) (force : Bool) (mine : List Cache.CacheFile) :
    clearDecisionPy (s.tableMtime t) (Cache.minMtime mine) force
      = (decide (s.tableMtime t > Cache.minMtime mine) || force) := rfl

/-- without `force`, the caches are cleared exactly when the table is strictly newer than the oldest matched cache file -/
theorem clearDecision_noforce (a b : Nat) : clearDecisionPy a b false = true ↔ b < a := by
  simp only [clearDecisionPy, Bool.or_false, decide_eq_true_eq, gt_iff_lt]

/-- with `force`, always -/
theorem clearDecision_force (a b : Nat) : clearDecisionPy a b true = true := by
  simp only [clearDecisionPy, Bool.or_true]

/-! ### `cache_auto_clear`, the sweeps, the transition system -/

/-- the model's `cacheAutoClear` is the generated decision around the removal of the matched files -/
theorem cacheAutoClear_unfold (s : Cache.St) (t : Nat) (force : Bool) (files : List Cache.CacheFile) (budget : Option Nat) :
    Cache.cacheAutoClear s t force files budget =
      (let mine := files.filter (fun f => f.table == t)
       if mine.isEmpty then (files, budget)
       else if clearDecisionPy (s.tableMtime t) (Cache.minMtime mine) force then
         match budget with
         | none => (files.filter (fun f => f.table != t), none)
         | some k => (files.filter (fun f => !((mine.take k).contains f)), some (k - (mine.take k).length))
       else (files, budget)) := rfl

/-- the same with the guards and both aggregates as the code computes them: no matched file -> nothing happens
(`if not caches: return []`); otherwise `max` over the one table file against `min` over all matched files (first `f`, others `fs`) -/
theorem cacheAutoClear_unfold_agg (s : Cache.St) (t : Nat) (force : Bool) (files : List Cache.CacheFile) (budget : Option Nat) :
    Cache.cacheAutoClear s t force files budget =
      (match files.filter (fun f => f.table == t) with
       | [] => (files, budget)
       | f :: fs =>
         if clearDecisionPy (srcAgg [s.tableMtime t]) (cacheAgg f.mtime (fs.map (·.mtime))) force then
           match budget with
           | none => (files.filter (fun f => f.table != t), none)
           | some k => (files.filter (fun g => !(((f :: fs).take k).contains g)), some (k - ((f :: fs).take k).length))
         else (files, budget)) := by
  rw [cacheAutoClear_unfold]
  cases h : files.filter (fun f => f.table == t) with
  | nil => rfl
  | cons f fs =>
    simp only [List.isEmpty_cons, Bool.false_eq_true, if_false, srcAgg_single, cacheAgg_eq_minMtime]

/-- uninterrupted and when the decision holds, `cacheAutoClear` removes EVERY file matched by the table's glob and nothing else
(`removesAllMatched`) -/
theorem cacheAutoClear_removes_all (s : Cache.St) (t : Nat) (force : Bool) (files : List Cache.CacheFile)
    (h : clearDecisionPy (s.tableMtime t) (Cache.minMtime (files.filter (fun f => f.table == t))) force = true) :
    (Cache.cacheAutoClear s t force files none).1 = files.filter (fun f => f.table != t) := by
  rw [cacheAutoClear_unfold]
  cases hm : (files.filter (fun f => f.table == t)).isEmpty with
  | false => simp only [hm, h, Bool.false_eq_true, if_false, if_true]
  | true =>
    simp only [hm, if_true]
    have hnil : files.filter (fun f => f.table == t) = [] := List.isEmpty_iff.mp hm
    have : ∀ f ∈ files, (f.table != t) = true := by
      intro f hf
      cases hft : (f.table == t) with
      | false => simp only [bne, hft, Bool.not_false]
      | true =>
        have : f ∈ files.filter (fun f => f.table == t) := List.mem_filter.mpr ⟨hf, hft⟩
        rw [hnil] at this
        exact nomatch this
    exact (List.filter_eq_self.mpr this).symm

/-- the model's sweep visits the generated pairs by index, in list order, threading the remaining files (`sweepVisitsAllPairs`) -/
theorem sweep_over_pairs (s : Cache.St) (force : Bool) (crash : Option Nat) :
    Cache.sweep s force crash =
      ((List.range pairs.length).foldl
        (fun (acc : List Cache.CacheFile × Option Nat) t => Cache.cacheAutoClear s t force acc.1 acc.2) (s.files, crash)).1 := rfl

/-- `import pybes3` in the model runs the sweep with the `force` literal of `check_numba_cache` -/
theorem step_importCheck_force (s : Cache.St) (crash : Option Nat) :
    (Cache.step s (.importCheck crash)).files = Cache.sweep { s with clock := s.clock + 1 } checkForce crash := rfl

/-- `clear_numba_cache()` in the model runs the sweep with the `force` literal of `clear_numba_cache`, uninterrupted -/
theorem step_forceClear_force (s : Cache.St) :
    (Cache.step s .forceClear).files = Cache.sweep { s with clock := s.clock + 1 } clearForce none := rfl

/-- the shape facts the translator established on the source text: both sweeps are plain loops over all pairs, the removal loop
removes every matched file unconditionally, no matched file = no effect, `check_numba_cache` passes `force=False` and
`clear_numba_cache` `force=True`, and `__init__.py` runs the check before importing any sub-module -/
theorem sweep_wiring :
    sweepVisitsAllPairs = true ∧ removesAllMatched = true ∧ emptyCachesNoop = true ∧ checkForce = false ∧ clearForce = true ∧
      checkBeforeSubmodules = true := by decide

end Pybes3Verif.Gen.CachePy
