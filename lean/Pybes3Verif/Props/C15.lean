import Pybes3Verif.Proofs.RawSafe
/-!
C15 : the raw-data parser never reads outside its buffer and never loops forever
(model: `Model/RawParser.lean`; helper lemmas: `Proofs/RawSafe.lean`).
-/
namespace Pybes3Verif.Raw
open Pybes3Verif.Raw.Safe

/-! ### Group S — C15 : the parser never reads outside its buffer, never loops forever -/

/-- for every word list and every selection the outcome is a result or an error — never an
out-of-bounds access (`oob`) and never `fuel` (the loop bound `length + 1` always suffices) -/
theorem parse_safe (sel ws : List Nat) :
    (∃ evs rest, parse sel ws = .ok evs rest) ∨ (∃ e, parse sel ws = .err e) := by
  have h := parse_Bd sel ws
  cases hp : parse sel ws with
  | ok evs rest => exact Or.inl ⟨evs, rest, rfl⟩
  | err e => exact Or.inr ⟨e, rfl⟩
  | oob => rw [hp] at h; exact h.elim
  | fuel => rw [hp] at h; exact h.elim

theorem parse_never_oob (sel ws : List Nat) : parse sel ws ≠ .oob := (parse_Bd sel ws).ne_oob

theorem parse_terminates (sel ws : List Nat) : parse sel ws ≠ .fuel := (parse_Bd sel ws).ne_fuel

/-- a successful decode consumed the whole buffer -/
theorem parse_ok_consumes_all (sel ws : List Nat) (evs : List EventRec) (rest : List Nat)
    (h : parse sel ws = .ok evs rest) : rest = [] :=
  readEvents_ok_nil (effectiveSel sel) (ws.length + 1) ws evs rest h

/-- the checks are what makes it safe: the unchecked primitives do go out of bounds (non-vacuity) -/
example : rawRead.run [] = .oob ∧ (rawSkip 3).run [1, 2] = .oob ∧ (rawReadN 4).run [1] = .oob ∧
    read.run [] = .err .eof ∧ (skip 3).run [1, 2] = .err .eof ∧ (readN 4).run [1] = .err .eof :=
  ⟨rfl, rfl, rfl, rfl, rfl, rfl⟩

end Pybes3Verif.Raw
