/-
ReidTie — `convert_reid_to_teid` (translated block by block from `_reid.py` into `Gen/ReidPy.lean` on every run) does to a decoded
batch exactly what the first clause of C10 says: the `id` column of each of mdc / tof / emc / muc is replaced by its image under
that detector's own table; offsets, every other column, every other key (event header, trg, ef, unknown keys), the order of keys and
of columns are unchanged.  The tables themselves are the subject of `Props/C10.lean`.
-/
import Pybes3Verif.Gen.ReidPy

namespace Pybes3Verif.Gen.ReidPy

set_option linter.unusedSimpArgs false

/-- each detector key is converted with its own table builder, reading and writing the `id` column; four blocks, in this order -/
theorem blocks_wiring : blocks = [("mdc", "build_mdc_re2te", "id", "id"), ("tof", "build_tof_re2te", "id", "id"),
    ("emc", "build_emc_re2te", "id", "id"), ("muc", "build_muc_re2te", "id", "id")] := by decide

/-- what the conversion does to one entry of the raw dict -/
def convEntry (tm tt te tu : Nat → Nat) (e : String × Det) : String × Det :=
  let conv := fun (t : Nat → Nat) => (e.1, (e.2.1, setCol e.2.2 "id" ((getCol e.2.2 "id").map t)))
  if e.1 == "mdc" then conv tm else if e.1 == "tof" then conv tt else if e.1 == "emc" then conv te else if e.1 == "muc" then conv tu else e

private theorem step_comp (tm tt te tu : Nat → Nat) (e : String × Det) :
    (fun x : String × Det => if x.1 == "muc" then (x.1, (x.2.1, setCol x.2.2 "id" ((getCol x.2.2 "id").map tu))) else (x.1, x.2))
      ((fun x : String × Det => if x.1 == "emc" then (x.1, (x.2.1, setCol x.2.2 "id" ((getCol x.2.2 "id").map te))) else (x.1, x.2))
        ((fun x : String × Det => if x.1 == "tof" then (x.1, (x.2.1, setCol x.2.2 "id" ((getCol x.2.2 "id").map tt))) else (x.1, x.2))
          ((fun x : String × Det => if x.1 == "mdc" then (x.1, (x.2.1, setCol x.2.2 "id" ((getCol x.2.2 "id").map tm))) else (x.1, x.2)) e))) =
      convEntry tm tt te tu e := by
  obtain ⟨k, det⟩ := e
  simp only [convEntry]
  by_cases h1 : k = "mdc"
  · subst h1; simp
  by_cases h2 : k = "tof"
  · subst h2; simp
  by_cases h3 : k = "emc"
  · subst h3; simp
  by_cases h4 : k = "muc"
  · subst h4; simp
  simp [h1, h2, h3, h4]

/-- the conversion is an entry-wise map: keys keep their order and count, and each entry is converted on its own -/
theorem convertPy_eq_map (tm tt te tu : Nat → Nat) (raw : RawDict) :
    convertPy tm tt te tu raw = raw.map (convEntry tm tt te tu) := by
  simp only [convertPy, step_mdc, step_tof, step_emc, step_muc, List.map_map]
  apply List.map_congr_left
  intro e _
  exact step_comp tm tt te tu e

/-- keys (and their order) are unchanged -/
theorem convert_keys (tm tt te tu : Nat → Nat) (raw : RawDict) :
    (convertPy tm tt te tu raw).map Prod.fst = raw.map Prod.fst := by
  rw [convertPy_eq_map, List.map_map]
  apply List.map_congr_left
  intro e _
  simp only [Function.comp, convEntry]
  split <;> (try split) <;> (try split) <;> (try split) <;> rfl

/-- every key other than the four detectors (event header, trg, ef, anything else) is untouched -/
theorem convert_other_keys (tm tt te tu : Nat → Nat) (e : String × Det)
    (h : e.1 ≠ "mdc" ∧ e.1 ≠ "tof" ∧ e.1 ≠ "emc" ∧ e.1 ≠ "muc") : convEntry tm tt te tu e = e := by
  obtain ⟨h1, h2, h3, h4⟩ := h
  simp [convEntry, h1, h2, h3, h4]

/-- offsets are unchanged for every key -/
theorem convert_offsets (tm tt te tu : Nat → Nat) (e : String × Det) : (convEntry tm tt te tu e).2.1 = e.2.1 := by
  simp only [convEntry]
  split <;> (try split) <;> (try split) <;> (try split) <;> rfl

private theorem getCol_setCol_ne (cols : List (String × List Nat)) (k c : String) (v : List Nat) (h : c ≠ k) :
    getCol (setCol cols k v) c = getCol cols c := by
  unfold setCol getCol
  by_cases hany : cols.any (fun x => x.1 == k) = true
  · rw [if_pos hany]
    congr 2
    induction cols with
    | nil => rfl
    | cons x rest ih =>
      simp only [List.map_cons, List.find?_cons]
      by_cases hx : x.1 = k
      · have hck : (k == c) = false := by simpa using fun h' => h h'.symm
        have hxc : (x.1 == c) = false := by rw [hx]; exact hck
        simp only [hx, beq_self_eq_true, if_true, hck, hxc]
        by_cases hr : rest.any (fun x => x.1 == k) = true
        · exact ih hr
        · -- no further entry with key k: the map is the identity on the rest
          have h2 : ∀ y ∈ rest, (fun x : String × List Nat => if x.1 == k then (k, v) else x) y = id y := by
            intro y hy
            have : (y.1 == k) = false := by
              have := List.any_eq_false.1 (Bool.eq_false_iff.2 hr) y hy
              simpa using this
            simp [this]
          rw [List.map_congr_left h2, List.map_id]
      · have hxk : (x.1 == k) = false := by simpa using hx
        simp only [hxk, Bool.false_eq_true, if_false]
        by_cases hxc : (x.1 == c) = true
        · simp [hxc]
        · have hxc' : (x.1 == c) = false := Bool.eq_false_iff.2 hxc
          simp only [hxc', Bool.false_eq_true]
          have hr : rest.any (fun x => x.1 == k) = true := by
            simp only [List.any_cons, hxk, Bool.false_or] at hany; exact hany
          exact ih hr
  · rw [if_neg hany]
    rw [List.find?_append]
    have : ([(k, v)] : List (String × List Nat)).find? (fun x => x.1 == c) = none := by
      have hck : (k == c) = false := by simpa using fun h' => h h'.symm
      simp [List.find?_cons, hck]
    rw [this]; simp

/-- every column other than `id` is unchanged, for every key -/
theorem convert_other_columns (tm tt te tu : Nat → Nat) (e : String × Det) (c : String) (hc : c ≠ "id") :
    getCol (convEntry tm tt te tu e).2.2 c = getCol e.2.2 c := by
  simp only [convEntry]
  split
  · exact getCol_setCol_ne _ _ _ _ hc
  split
  · exact getCol_setCol_ne _ _ _ _ hc
  split
  · exact getCol_setCol_ne _ _ _ _ hc
  split
  · exact getCol_setCol_ne _ _ _ _ hc
  rfl

private theorem getCol_setCol_self (cols : List (String × List Nat)) (k : String) (v : List Nat) :
    getCol (setCol cols k v) k = v := by
  unfold setCol getCol
  by_cases hany : cols.any (fun x => x.1 == k) = true
  · rw [if_pos hany]
    induction cols with
    | nil => simp at hany
    | cons x rest ih =>
      simp only [List.map_cons, List.find?_cons]
      by_cases hx : (x.1 == k) = true
      · simp [hx]
      · have hx' : (x.1 == k) = false := Bool.eq_false_iff.2 hx
        simp only [hx', Bool.false_eq_true, if_false]
        have hr : rest.any (fun x => x.1 == k) = true := by
          simp only [List.any_cons, hx', Bool.false_or] at hany; exact hany
        exact ih hr
  · rw [if_neg hany, List.find?_append]
    have hnone : cols.find? (fun x => x.1 == k) = none := by
      rw [List.find?_eq_none]
      intro y hy
      have := List.any_eq_false.1 (Bool.eq_false_iff.2 hany) y hy
      simpa using this
    rw [hnone]; simp

/-- **C10, first clause, on the translated code**: after the conversion the `id` column of each of the four detectors is the image of
the `id` column before under that detector's own table -/
theorem convert_id_is_table_image (tm tt te tu : Nat → Nat) (det : Det) :
    getCol (convEntry tm tt te tu ("mdc", det)).2.2 "id" = (getCol det.2 "id").map tm ∧
    getCol (convEntry tm tt te tu ("tof", det)).2.2 "id" = (getCol det.2 "id").map tt ∧
    getCol (convEntry tm tt te tu ("emc", det)).2.2 "id" = (getCol det.2 "id").map te ∧
    getCol (convEntry tm tt te tu ("muc", det)).2.2 "id" = (getCol det.2 "id").map tu := by
  refine ⟨?_, ?_, ?_, ?_⟩ <;> simp [convEntry, getCol_setCol_self]

/-- the number of digis per event does not change: the converted column has the length of the original one -/
theorem convert_id_length (tm tt te tu : Nat → Nat) (det : Det) :
    (getCol (convEntry tm tt te tu ("mdc", det)).2.2 "id").length = (getCol det.2 "id").length := by
  rw [(convert_id_is_table_image tm tt te tu det).1, List.length_map]

/-- applied to every gathered batch iff `decode_reid` -/
theorem applied_iff_decode_reid : appliedIffDecodeReid = true := rfl

/-- non-vacuity: a batch with an mdc and a trg entry -/
example : convertPy (· + 100) (· + 200) (· + 300) (· + 400)
    [("evt_header", ([], [("evt_no", [7])])), ("mdc", ([0, 2], [("id", [1, 2]), ("adc", [5, 6])])), ("trg", ([0, 1], [("data", [9])]))] =
    [("evt_header", ([], [("evt_no", [7])])), ("mdc", ([0, 2], [("id", [101, 102]), ("adc", [5, 6])])), ("trg", ([0, 1], [("data", [9])]))] := by
  decide

end Pybes3Verif.Gen.ReidPy
