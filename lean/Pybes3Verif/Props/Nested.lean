import Pybes3Verif.Model.Nested
import Pybes3Verif.Proofs.NestedLemmas
/-!
Group N — C07 / C14 : nested (jagged) arrays: flatten / counts / unflatten round trip, ufunc-style maps.
Helper lemmas: `Pybes3Verif.Proofs.NestedLemmas`.
-/

/-! ### Group N — C07 / C14 : nested arrays -/
namespace Pybes3Verif.Nested
variable {α β : Type}

theorem unflat_flatten (xs : List (List β)) : unflat (xs.map List.length) xs.flatten = xs :=
  unflat_flatten' xs

/-- flatten → counts → unflatten (innermost level first) restores every uniform-depth array: any depth, empty
lists anywhere -/
theorem rebuild_levels_flat (d : Nat) (t : Nested α (d + 1)) : rebuild d (levels d t) (flat d t) = t :=
  rebuild_levels_flat' d t

/-- a ufunc preserves the nesting and acts on the leaves -/
theorem levels_mapN (f : α → β) (d : Nat) (t : Nested α (d + 1)) : levels d (mapN f (d + 1) t) = levels d t :=
  levels_mapN' f d t
theorem flat_mapN (f : α → β) (d : Nat) (t : Nested α (d + 1)) : flat d (mapN f (d + 1) t) = (flat d t).map f :=
  flat_mapN' f d t

/-- array mode (flatten, per-track function on the flat list, rebuild) equals the per-track function applied
in place: the result for one track does not depend on the others, and the output has the input's nesting -/
theorem viaFlat_map (f : α → β) (d : Nat) (t : Nested α (d + 1)) : viaFlat (List.map f) d t = mapN f (d + 1) t := by
  unfold viaFlat
  rw [← flat_mapN' f d t, ← levels_mapN' f d t]
  exact rebuild_levels_flat' d (mapN f (d + 1) t)

set_option linter.unusedVariables false in
/-- two per-track inputs (helix and per-track pivot) with the same nesting
(the hypothesis `h` is not needed by the proof: `hl` alone suffices) -/
theorem viaFlat_zipWith {γ : Type} (f : α → β → γ) (d : Nat) (t : Nested α (d + 1)) (u : Nested β (d + 1))
    (h : levels d u = levels d t) (hl : (flat d u).length = (flat d t).length) :
    levels d (rebuild d (levels d t) (List.zipWith f (flat d t) (flat d u))) = levels d t ∧
    flat d (rebuild d (levels d t) (List.zipWith f (flat d t) (flat d u))) = List.zipWith f (flat d t) (flat d u) :=
  (rebuild_spec d t (List.zipWith f (flat d t) (flat d u))
    (by rw [List.length_zipWith, hl, Nat.min_self])).2

/-- the `flat` option of the parsers: mapping after flattening one level equals flattening after mapping -/
theorem mapN_flatten1 (f : α → β) (d : Nat) (t : Nested α (d + 2)) :
    mapN f (d + 1) (flatten1 d t) = flatten1 d (mapN f (d + 2) t) :=
  mapN_flatten1' f d t

/-- permutation equivariance of the flat per-track operation -/
theorem map_perm (f : α → β) (l l' : List α) (h : l.Perm l') : (l.map f).Perm (l'.map f) :=
  h.map f

end Pybes3Verif.Nested
