/-
RootTie — pybes3's own Python logic of `root_io.py`, *translated from the source on every run* (`Gen/RootPy.lean`, by
`tools/translate/rootpy.py`), is the logic the models and theorems of C01 / C02 / C18 are about:

* the digi lifting loops of the eager path (`process_digi_subbranch`, arrays) and of the lazy path
  (`process_digi_subbranch_form`, forms) are both the model's `processDigi` wherever the eager one succeeds;
* hence the type announced lazily is the type computed eagerly (C18) — now for the translated code, guards included;
* the eager and the lazy post-processing are dispatched by the same condition, and that condition is "a TDigiEvent collection";
* `bes3_branch2types` has distinct keys, every symmetric-matrix member path lies under a listed collection and names its element class,
  the CGEM cluster factory outranks the generic collection factory, which outranks the base-object and matrix factories;
* the matrix factory's and the collection factory's announced form is the type of the content they build.
-/
import Pybes3Verif.Props.C18
import Pybes3Verif.Gen.RootPy

namespace Pybes3Verif.Gen.RootPy
open Pybes3Verif.Root Pybes3Verif.Forms

variable {α β : Type}

/-- eager loop = model, when the collection has a `TRawData` member -/
theorem processDigiArrPy_eq (fields : List (String × Col α)) (h : fields.any (fun x => x.1 == "TRawData") = true) :
    processDigiArrPy fields = some (processDigi fields) := by
  have hne : fields.isEmpty = false := by
    cases fields with
    | nil => simp at h
    | cons _ _ => rfl
  simp only [processDigiArrPy, hne, h, Bool.not_true, Bool.false_eq_true, if_false]
  rfl

/-- the eager function on a collection without any field (an element class that was never written): unchanged -/
theorem processDigiArrPy_nil : processDigiArrPy ([] : List (String × Col α)) = some [] := rfl

/-- the eager function rejects (AssertionError) a non-empty record without `TRawData` -/
theorem processDigiArrPy_rejects (fields : List (String × Col α)) (hne : fields ≠ [])
    (h : fields.any (fun x => x.1 == "TRawData") = false) : processDigiArrPy fields = none := by
  have : fields.isEmpty = false := by
    cases fields with
    | nil => exact absurd rfl hne
    | cons _ _ => rfl
  simp only [processDigiArrPy, this, h, Bool.not_false, Bool.false_eq_true, if_false, if_true]

/-- lazy loop = model, when the record has a `TRawData` member; otherwise the form is returned unchanged -/
theorem processDigiFormPy_eq (fields : List (String × Col α)) :
    processDigiFormPy fields = if fields.any (fun x => x.1 == "TRawData") then processDigi fields else fields := by
  by_cases h : fields.any (fun x => x.1 == "TRawData") = true
  · simp only [processDigiFormPy, h, Bool.not_true, Bool.false_eq_true, if_false, if_true]; rfl
  · have h' : fields.any (fun x => x.1 == "TRawData") = false := Bool.eq_false_iff.2 h
    simp only [processDigiFormPy, h', Bool.not_false, if_true, Bool.false_eq_true, if_false]

private theorem any_mapFields (ty : α → β) (fields : List (String × Col α)) (k : String) :
    (mapCol.mapFields ty fields).any (fun x => x.1 == k) = fields.any (fun x => x.1 == k) := by
  rw [mapFields_eq_map, List.any_map]; rfl

/-- **C18 on the translated code**: whenever the eager post-processing succeeds, the type of its result is the lazily announced
(post-processed) form of the type of its input — for every field list (no field at all, duplicate names, clashes between lifted and
top-level names, `TRawData` that is not a record) -/
theorem lazy_form_eq_eager_type_py (ty : α → β) (content r : List (String × Col α)) (h : processDigiArrPy content = some r) :
    processDigiFormPy (mapCol.mapFields ty content) = mapCol.mapFields ty r := by
  by_cases hany : content.any (fun x => x.1 == "TRawData") = true
  · rw [processDigiArrPy_eq content hany] at h
    cases h
    rw [processDigiFormPy_eq, any_mapFields, hany, if_pos rfl]
    exact lazy_type_eq_eager_type ty content
  · have hany' : content.any (fun x => x.1 == "TRawData") = false := Bool.eq_false_iff.2 hany
    cases content with
    | nil =>
      cases h
      rfl
    | cons x rest =>
      rw [processDigiArrPy_rejects (x :: rest) (List.cons_ne_nil _ _) hany'] at h
      cases h

/-- the eager and the lazy path post-process exactly the same branches -/
theorem dispatch_agree (evt sub : String) : formDispatch evt sub = arrDispatch evt sub := by
  simp [formDispatch, arrDispatch, Bool.and_comm]

/-- … namely the collections of `TDigiEvent` (everything but the flag `m_fromMc`) -/
theorem dispatch_is_digi (evt sub : String) : arrDispatch evt sub = true ↔ evt = "TDigiEvent" ∧ sub ≠ "m_fromMc" := by
  simp [arrDispatch]

/-- branch paths are distinct keys -/
theorem branch2types_keys_nodup : (branch2types.map Prod.fst).Nodup := by decide

/-- every symmetric-matrix member path is `<collection branch>.<its element class>.<member>` of a listed collection, except the one
member of the (non-collection) primary-vertex object -/
theorem target_items_under_branches :
    ∀ t ∈ targetItems, t = "/Event:TEvtRecObject/m_evtRecPrimaryVertex.m_Evtx" ∨
      ∃ kt ∈ branch2types, ((kt.1 ++ "." ++ kt.2 ++ ".").toList.isPrefixOf t.toList) = true := by decide

/-- selection order of the registered factories: CGEM cluster collection > generic collection > base object, matrix -/
theorem factory_priorities :
    prioBes3CgemClusterColFactory > prioBes3TObjArrayFactory ∧ prioBes3TObjArrayFactory > prioBes3BaseObjectFactory ∧
    prioBes3TObjArrayFactory > prioBes3SymMatrixArrayFactory := by decide

/-- the matrix factory's announced form is the type of the content it builds, and that type is `n × n` doubles -/
theorem sym_form_mirrors_content_py (n : Nat) :
    symFormTy n = symContentTy n ∧ symContentTy n = Ty.regular n (Ty.regular n Ty.float64) := ⟨rfl, rfl⟩

/-- the collection factory's form mirrors its content whenever its element factory's does -/
theorem tobj_form_mirrors_content_py (elemForm elemContent : Ty) (h : elemForm = elemContent) :
    tobjFormTy elemForm = tobjContentTy elemContent ∧ tobjContentTy elemContent = Ty.listOffset elemContent := by
  subst h; exact ⟨rfl, rfl⟩

/-- non-vacuity: a digi record with a lifted clash goes through both paths -/
example : processDigiArrPy [("TRawData", Col.record [("m_intId", Col.leaf 1), ("m_t", Col.leaf 2)]), ("m_t", Col.leaf 3)] =
    some [("m_intId", Col.leaf 1), ("m_t", Col.leaf 3)] := by
  rw [processDigiArrPy_eq _ (by decide)]
  simp [processDigi, dictSet]

end Pybes3Verif.Gen.RootPy
