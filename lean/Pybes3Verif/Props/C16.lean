import Pybes3Verif.Proofs.SymLemmas
/-!
C16 — packed symmetric matrices (`Bes3SymMatrixArrayReader`, `get_symmetric_matrix_index`,
`Bes3SymMatrixArrayFactory.build_factory`).  Helper lemmas: `Pybes3Verif/Proofs/SymLemmas.lean`.
-/

/-! ### Group X — C16 : packed symmetric matrices -/
namespace Pybes3Verif.SymMatrix
open Pybes3Verif.Gen.SymIndex

/-- the translated index expression is max(i,j)(max(i,j)+1)/2 + min(i,j) -/
theorem idx_eq (i j : Nat) : idx i j = max i j * (max i j + 1) / 2 + min i j := idx_eq' i j

theorem idx_symm (i j : Nat) : idx i j = idx j i := idx_symm' i j

/-- for a dimension n every index is inside the packed length n(n+1)/2 -/
theorem idx_lt (n i j : Nat) (hi : i < n) (hj : j < n) : idx i j < n * (n + 1) / 2 := idx_lt' n i j hi hj

/-- the lower triangle maps injectively, hence (by counting) bijectively, onto [0, n(n+1)/2) -/
theorem idx_inj (i j i' j' : Nat) (hji : j ≤ i) (hji' : j' ≤ i') (h : idx i j = idx i' j') : i = i' ∧ j = j' :=
  idx_inj' i j i' j' hji hji' h

theorem idx_surj (n k : Nat) (hk : k < n * (n + 1) / 2) : ∃ i j, j ≤ i ∧ i < n ∧ idx i j = k :=
  idx_surj' n k hk

/-- the constructor accepts (flat, n) iff the packed length is large enough; a too-large dimension is rejected -/
theorem accepts_iff (flat n : Nat) : accepts idx flat n = true ↔ n * (n + 1) / 2 ≤ flat ∨ n = 0 :=
  accepts_iff' flat n

set_option linter.unusedVariables false in
/-- for an accepted reader and any packed content (symmetric-looking or not) of the right length the expansion
exists and M[i][j] = M[j][i] = packed[idx i j] -/
theorem expand_spec {α : Type} (flat n : Nat) (packed : List α) (hacc : accepts idx flat n = true)
    (hlen : packed.length = flat) :
    ∃ m, expand idx n packed = some m ∧ m.length = n * n ∧
      ∀ i j (hi : i < n) (hj : j < n), m[n * i + j]? = packed[idx i j]? ∧ m[n * i + j]? = m[n * j + i]? := by
  have hall := (accepts_iff_forall idx flat n).mp hacc
  have hsome : ∀ x ∈ (List.range n).flatMap (fun i => (List.range n).map (fun j => packed[idx i j]?)),
      x.isSome = true := by
    intro x hx
    simp only [List.mem_flatMap, List.mem_map, List.mem_range] at hx
    obtain ⟨i, hi, j, hj, rfl⟩ := hx
    have := hall i hi j hj
    rw [← hlen] at this
    simp [this]
  obtain ⟨m, hm1, hm2⟩ := mapM_id_some _ hsome
  have key : ∀ i j, i < n → j < n → m[n * i + j]? = packed[idx i j]? := by
    intro i j hi hj
    have h1 := getElem?_grid (fun i j => packed[idx i j]?) n n i j hi hj
    rw [← hm2, List.getElem?_map] at h1
    cases hmij : m[n * i + j]? with
    | none => rw [hmij] at h1; simp at h1
    | some a => rw [hmij] at h1; simpa using h1
  refine ⟨m, hm1, ?_, ?_⟩
  · have := congrArg List.length hm2
    rw [List.length_map, length_grid] at this
    exact this
  · intro i j hi hj
    refine ⟨key i j hi hj, ?_⟩
    rw [key i j hi hj, key j i hj hi, idx_symm' i j]

/-- n is determined by the packed length n(n+1)/2 (the factory's `int((sqrt(1+8 flat)-1)/2)` in exact arithmetic) -/
theorem fullDim_tri (n : Nat) : fullDim (n * (n + 1) / 2) = n := fullDim_tri' n

/-- the factory's pair (flat, fullDim flat) is always accepted -/
theorem factory_pair_accepted (flat : Nat) : accepts idx flat (fullDim flat) = true :=
  (accepts_iff' flat (fullDim flat)).mpr (Or.inl (fullDim_tri_le flat))

end Pybes3Verif.SymMatrix
