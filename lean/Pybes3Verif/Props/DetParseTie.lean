/-
DetParseTie — the record-returning parsers of `pybes3.detectors` (`parse_mdc_gid`, `parse_mdc_digi_id`, `parse_mdc_digi`,
`parse_tof_digi_id`, `parse_emc_gid`, `parse_emc_digi_id`, `parse_emc_digi`, `parse_muc_digi_id`, `parse_cgem_digi_id`) are plain Python
that composes numba kernels.  `Gen/DetParse.lean` holds that composition, *extracted from the parser source on every run* by symbolic
execution (`tools/translate/detparse.py`): one definition `<parser>.<field>` per integer / Bool-valued output field, the complete wiring
(`wiring`, field order included) and the facts about `flat` / `library`.  This file ties those definitions to the kernels the theorems
of C05 / C08 / C14 are about:

* C08 "the global ID obtained by parsing a digi identifier equals the one obtained from its decoded fields" — for ALL 64-bit inputs;
* the digi-id parser is the gid parser applied to that gid (field by field);
* C14 "the record-returning parsers agree field by field with the individual field functions" (TOF: the two-argument forms with the
  decoded part, hence — by `C05.tof_variants_agree` — also the one-argument forms; signed and unsigned variants);
* parsing a digi id built from an element returns the gid of that element, whatever the wire-type flag is;
* the record parsers `parse_mdc_digi` / `parse_emc_digi` are the digi-id parsers applied to `m_intId` plus pass-through fields;
* `flat` means "flatten the input first", `library` only selects the container, the field lists of a digi-id parser and of its gid
  parser coincide.

Neither `get_mdc_gid` nor `get_emc_gid` contains an order comparison, so the gid statements have no `_s` / `_u` variants; the TOF fields do.
`bv_decide` (one `*._native.bv_decide.ax_*` axiom per theorem, exactly as in Props/C05.lean) is used by: `fits_of_ult`.
All other theorems are closed by `rfl`, rewriting with theorems of C05 / C08 (which carry their own `bv_decide` axioms:
`C05.mdc_decode_encode`, `C05.emc_decode_encode`, `C05.tof_variants_agree`), or `decide`.
-/
import Std.Tactic.BVDecide
import Pybes3Verif.Props.C05
import Pybes3Verif.Props.C08
import Pybes3Verif.Gen.DetParse

set_option autoImplicit false

namespace Pybes3Verif.DetParseTie
open Pybes3Verif.Gen Pybes3Verif.Gen.DigiId Pybes3Verif.Gen.Mdc Pybes3Verif.Gen.Emc Pybes3Verif.Gen.DetParse

/-! ## C08: the gid of a parsed digi identifier is the gid of its decoded fields (all 64-bit inputs) -/

/-- C08, MDC: "the global ID obtained by parsing a digi identifier equals the one obtained from its decoded fields" -/
theorem mdc_digi_gid (id : BitVec 64) :
    parse_mdc_digi_id.gid id = get_mdc_gid (mdc_id_to_layer id) (mdc_id_to_wire id) := rfl

/-- C08, EMC: the same for crystals (the decoded `module` is what `get_emc_gid` calls `part`) -/
theorem emc_digi_gid (id : BitVec 64) :
    parse_emc_digi_id.gid id = get_emc_gid (emc_id_to_module id) (emc_id_to_theta id) (emc_id_to_phi id) := rfl

/-! ## the digi-id parser is the gid parser applied to that gid -/

/-- every other field of `parse_mdc_digi_id` is the `mdc_gid_to_*` kernel applied to the parsed gid -/
theorem mdc_digi_fields (id : BitVec 64) :
    parse_mdc_digi_id.layer id = mdc_gid_to_layer (parse_mdc_digi_id.gid id) ∧
    parse_mdc_digi_id.wire id = mdc_gid_to_wire (parse_mdc_digi_id.gid id) ∧
    parse_mdc_digi_id.stereo id = mdc_gid_to_stereo (parse_mdc_digi_id.gid id) ∧
    parse_mdc_digi_id.is_stereo id = mdc_gid_to_is_stereo (parse_mdc_digi_id.gid id) ∧
    parse_mdc_digi_id.superlayer id = mdc_gid_to_superlayer (parse_mdc_digi_id.gid id) :=
  ⟨rfl, rfl, rfl, rfl, rfl⟩

/-- every other field of `parse_emc_digi_id` is the `emc_gid_to_*` kernel applied to the parsed gid -/
theorem emc_digi_fields (id : BitVec 64) :
    parse_emc_digi_id.part id = emc_gid_to_part (parse_emc_digi_id.gid id) ∧
    parse_emc_digi_id.theta id = emc_gid_to_theta (parse_emc_digi_id.gid id) ∧
    parse_emc_digi_id.phi id = emc_gid_to_phi (parse_emc_digi_id.gid id) :=
  ⟨rfl, rfl, rfl⟩

/-- `parse_mdc_digi_id(id)` is `parse_mdc_gid(gid)` for the parsed gid: all six integer fields -/
theorem mdc_digi_is_gid_parser (id : BitVec 64) :
    parse_mdc_digi_id.gid id = parse_mdc_gid.gid (parse_mdc_digi_id.gid id) ∧
    parse_mdc_digi_id.layer id = parse_mdc_gid.layer (parse_mdc_digi_id.gid id) ∧
    parse_mdc_digi_id.wire id = parse_mdc_gid.wire (parse_mdc_digi_id.gid id) ∧
    parse_mdc_digi_id.stereo id = parse_mdc_gid.stereo (parse_mdc_digi_id.gid id) ∧
    parse_mdc_digi_id.is_stereo id = parse_mdc_gid.is_stereo (parse_mdc_digi_id.gid id) ∧
    parse_mdc_digi_id.superlayer id = parse_mdc_gid.superlayer (parse_mdc_digi_id.gid id) :=
  ⟨rfl, rfl, rfl, rfl, rfl, rfl⟩

/-- `parse_emc_digi_id(id)` is `parse_emc_gid(gid)` for the parsed gid: all four integer fields -/
theorem emc_digi_is_gid_parser (id : BitVec 64) :
    parse_emc_digi_id.gid id = parse_emc_gid.gid (parse_emc_digi_id.gid id) ∧
    parse_emc_digi_id.part id = parse_emc_gid.part (parse_emc_digi_id.gid id) ∧
    parse_emc_digi_id.theta id = parse_emc_gid.theta (parse_emc_digi_id.gid id) ∧
    parse_emc_digi_id.phi id = parse_emc_gid.phi (parse_emc_digi_id.gid id) :=
  ⟨rfl, rfl, rfl, rfl⟩

/-! ## C14: the record parsers agree field by field with the stand-alone field functions -/

/-- `parse_mdc_gid`: the `gid` field is the input, every other integer field is the stand-alone kernel on the input -/
theorem mdc_gid_fields (gid : BitVec 64) :
    parse_mdc_gid.gid gid = gid ∧
    parse_mdc_gid.layer gid = mdc_gid_to_layer gid ∧
    parse_mdc_gid.wire gid = mdc_gid_to_wire gid ∧
    parse_mdc_gid.stereo gid = mdc_gid_to_stereo gid ∧
    parse_mdc_gid.is_stereo gid = mdc_gid_to_is_stereo gid ∧
    parse_mdc_gid.superlayer gid = mdc_gid_to_superlayer gid :=
  ⟨rfl, rfl, rfl, rfl, rfl, rfl⟩

/-- `parse_emc_gid`: the `gid` field is the input, every other integer field is the stand-alone kernel on the input -/
theorem emc_gid_fields (gid : BitVec 64) :
    parse_emc_gid.gid gid = gid ∧
    parse_emc_gid.part gid = emc_gid_to_part gid ∧
    parse_emc_gid.theta gid = emc_gid_to_theta gid ∧
    parse_emc_gid.phi gid = emc_gid_to_phi gid :=
  ⟨rfl, rfl, rfl, rfl⟩

/-- `parse_muc_digi_id`: every field is the stand-alone decoder; `gap` is the layer and `strip` the channel (as documented) -/
theorem muc_fields (id : BitVec 64) :
    parse_muc_digi_id.part id = muc_id_to_part id ∧
    parse_muc_digi_id.segment id = muc_id_to_segment id ∧
    parse_muc_digi_id.layer id = muc_id_to_layer id ∧
    parse_muc_digi_id.channel id = muc_id_to_channel id ∧
    parse_muc_digi_id.gap id = muc_id_to_layer id ∧
    parse_muc_digi_id.strip id = muc_id_to_channel id :=
  ⟨rfl, rfl, rfl, rfl, rfl, rfl⟩

/-- `parse_cgem_digi_id`: every field is the stand-alone decoder -/
theorem cgem_fields (id : BitVec 64) :
    parse_cgem_digi_id.layer id = cgem_id_to_layer id ∧
    parse_cgem_digi_id.sheet id = cgem_id_to_sheet id ∧
    parse_cgem_digi_id.strip id = cgem_id_to_strip id ∧
    parse_cgem_digi_id.is_x_strip id = cgem_id_to_is_x_strip id :=
  ⟨rfl, rfl, rfl, rfl⟩

/-- `parse_tof_digi_id`: `part` and `end` are the stand-alone decoders; `layer_or_module` / `phi_or_strip` are the TWO-argument forms
applied to `(id, tof_id_to_part id)` (signed and unsigned reading of `part < 3`) -/
theorem tof_fields_two_arg (id : BitVec 64) :
    parse_tof_digi_id.part id = tof_id_to_part id ∧
    parse_tof_digi_id.end' id = tof_id_to_end id ∧
    parse_tof_digi_id.layer_or_module_s id = _tof_id_to_layer_or_module_2_s id (tof_id_to_part id) ∧
    parse_tof_digi_id.layer_or_module_u id = _tof_id_to_layer_or_module_2_u id (tof_id_to_part id) ∧
    parse_tof_digi_id.phi_or_strip_s id = _tof_id_to_phi_or_strip_2_s id (tof_id_to_part id) ∧
    parse_tof_digi_id.phi_or_strip_u id = _tof_id_to_phi_or_strip_2_u id (tof_id_to_part id) :=
  ⟨rfl, rfl, rfl, rfl, rfl, rfl⟩

/-- … hence (`C05.tof_variants_agree`: the one- and two-argument forms agree when the part passed is the decoded part) the parser's
fields equal the ONE-argument stand-alone functions `tof_id_to_layer_or_module(id)` / `tof_id_to_phi_or_strip(id)` -/
theorem tof_fields_one_arg (id : BitVec 64) :
    parse_tof_digi_id.layer_or_module_s id = _tof_id_to_layer_or_module_1_s id ∧
    parse_tof_digi_id.layer_or_module_u id = _tof_id_to_layer_or_module_1_u id ∧
    parse_tof_digi_id.phi_or_strip_s id = _tof_id_to_phi_or_strip_1_s id ∧
    parse_tof_digi_id.phi_or_strip_u id = _tof_id_to_phi_or_strip_1_u id := by
  obtain ⟨h1, h2, h3, h4, _, _⟩ := C05.tof_variants_agree id
  obtain ⟨_, _, e1, e2, e3, e4⟩ := tof_fields_two_arg id
  exact ⟨e1.trans h1, e2.trans h2, e3.trans h3, e4.trans h4⟩

/-- … and the signedness of the `part < 3` comparison is irrelevant for the parser's output (the decoded part is 0..4) -/
theorem tof_fields_sign_irrelevant (id : BitVec 64) :
    parse_tof_digi_id.layer_or_module_s id = parse_tof_digi_id.layer_or_module_u id ∧
    parse_tof_digi_id.phi_or_strip_s id = parse_tof_digi_id.phi_or_strip_u id := by
  obtain ⟨_, _, _, _, h5, h6⟩ := C05.tof_variants_agree id
  obtain ⟨a, b, c, d⟩ := tof_fields_one_arg id
  exact ⟨a.trans (h5.trans b.symm), c.trans (h6.trans d.symm)⟩

/-- the wiring as extracted: the part handed to the two-argument kernels is literally `tof_id_to_part` of the same input -/
theorem tof_passes_decoded_part :
    wiring.lookup "parse_tof_digi_id" = some [
      ("part", "tof_id_to_part(in)"),
      ("layer_or_module", "_tof_id_to_layer_or_module_2(in, tof_id_to_part(in))"),
      ("phi_or_strip", "_tof_id_to_phi_or_strip_2(in, tof_id_to_part(in))"),
      ("end", "tof_id_to_end(in)")] := by decide

/-! ## round trip through the composer: parsing a digi id built from an element returns the gid of that element

`Props/C05.lean` proves the decode∘encode laws WITHOUT range hypotheses, in masked form
(`mdc_id_to_layer (get_mdc_digi_id w l t) = l &&& 0x3F`, …); the in-range statements below therefore take "the value fits its bit field"
(`x &&& mask = x`, equivalently `x <ᵤ 2^bits`, `fits_of_ult`) as hypothesis. -/

/-- MDC, unconditional: the wire-type flag `t` never reaches the gid; layer / wire enter through their 6 / 9-bit fields -/
theorem mdc_gid_of_built_id (w l t : BitVec 64) :
    parse_mdc_digi_id.gid (get_mdc_digi_id w l t) = get_mdc_gid (l &&& 0x3F) (w &&& 0x1FF) := by
  obtain ⟨hw, hl, _⟩ := C05.mdc_decode_encode w l t
  rw [mdc_digi_gid, hw, hl]

/-- EMC, unconditional: module / theta / phi enter through their 4 / 6 / 8-bit fields -/
theorem emc_gid_of_built_id (m t p : BitVec 64) :
    parse_emc_digi_id.gid (get_emc_digi_id m t p) = get_emc_gid (m &&& 0xF) (t &&& 0x3F) (p &&& 0xFF) := by
  obtain ⟨hm, ht, hp⟩ := C05.emc_decode_encode m t p
  rw [emc_digi_gid, hm, ht, hp]

/-- MDC, in range: for (layer, wire) that fit their bit fields, parsing the built identifier gives `get_mdc_gid layer wire`, whatever
the wire-type flag `t` is -/
theorem mdc_gid_of_built_id_inrange (w l t : BitVec 64) (hw : w &&& 0x1FF = w) (hl : l &&& 0x3F = l) :
    parse_mdc_digi_id.gid (get_mdc_digi_id w l t) = get_mdc_gid l w := by
  rw [mdc_gid_of_built_id, hw, hl]

/-- EMC, in range -/
theorem emc_gid_of_built_id_inrange (m t p : BitVec 64) (hm : m &&& 0xF = m) (ht : t &&& 0x3F = t) (hp : p &&& 0xFF = p) :
    parse_emc_digi_id.gid (get_emc_digi_id m t p) = get_emc_gid m t p := by
  rw [emc_gid_of_built_id, hm, ht, hp]

/-- "fits its bit field" is "unsigned below 2^bits" (the widths used by the MDC and EMC identifiers); uses `bv_decide` -/
theorem fits_of_ult (x : BitVec 64) :
    (x.ult 0x200 = true → x &&& 0x1FF = x) ∧ (x.ult 0x40 = true → x &&& 0x3F = x) ∧
    (x.ult 0x10 = true → x &&& 0xF = x) ∧ (x.ult 0x100 = true → x &&& 0xFF = x) := by
  refine ⟨?_, ?_, ?_, ?_⟩ <;> bv_decide

/-- MDC, in range, with numeric bounds: wire < 512, layer < 64 (every real wire: layer ≤ 42, wire ≤ 287) -/
theorem mdc_gid_of_built_id_ult (w l t : BitVec 64) (hw : w.ult 0x200 = true) (hl : l.ult 0x40 = true) :
    parse_mdc_digi_id.gid (get_mdc_digi_id w l t) = get_mdc_gid l w :=
  mdc_gid_of_built_id_inrange w l t ((fits_of_ult w).1 hw) ((fits_of_ult l).2.1 hl)

/-- EMC, in range, with numeric bounds: module < 16, theta < 64, phi < 256 -/
theorem emc_gid_of_built_id_ult (m t p : BitVec 64) (hm : m.ult 0x10 = true) (ht : t.ult 0x40 = true) (hp : p.ult 0x100 = true) :
    parse_emc_digi_id.gid (get_emc_digi_id m t p) = get_emc_gid m t p :=
  emc_gid_of_built_id_inrange m t p ((fits_of_ult m).2.2.1 hm) ((fits_of_ult t).2.1 ht) ((fits_of_ult p).2.2.2 hp)

/-- every MDC wire `g` (all 6796, via `C08.mdc_digi_route`): the identifier built from the wire's layer and wire number — with ANY
wire-type flag, not only the wire's own — parses back to `g` -/
theorem mdc_gid_of_wire (g : Nat) (hg : g < 6796) (t : BitVec 64) :
    parse_mdc_digi_id.gid
      (get_mdc_digi_id (mdc_gid_to_wire (BitVec.ofNat 64 g)) (mdc_gid_to_layer (BitVec.ofNat 64 g)) t) = BitVec.ofNat 64 g := by
  have h := (C08.mdc_digi_route g hg).2
  rw [← mdc_digi_gid, mdc_gid_of_built_id] at h
  rw [mdc_gid_of_built_id]
  exact h

/-- every EMC crystal `g` (all 6240, via `C08.emc_digi_route`): the identifier built from its (part, theta, phi) parses back to `g` -/
theorem emc_gid_of_crystal (g : Nat) (hg : g < 6240) :
    parse_emc_digi_id.gid
      (get_emc_digi_id (emc_gid_to_part (BitVec.ofNat 64 g)) (emc_gid_to_theta (BitVec.ofNat 64 g))
        (emc_gid_to_phi (BitVec.ofNat 64 g))) = BitVec.ofNat 64 g :=
  (C08.emc_digi_route g hg).2

/-! ## the raw-digi record parsers -/

/-- `parse_mdc_digi(rec)`: the six identifier fields are those of `parse_mdc_digi_id(rec["m_intId"])` -/
theorem mdc_digi_record_fields (m_intId : BitVec 64) :
    parse_mdc_digi.gid m_intId = parse_mdc_digi_id.gid m_intId ∧
    parse_mdc_digi.wire m_intId = parse_mdc_digi_id.wire m_intId ∧
    parse_mdc_digi.layer m_intId = parse_mdc_digi_id.layer m_intId ∧
    parse_mdc_digi.stereo m_intId = parse_mdc_digi_id.stereo m_intId ∧
    parse_mdc_digi.is_stereo m_intId = parse_mdc_digi_id.is_stereo m_intId ∧
    parse_mdc_digi.superlayer m_intId = parse_mdc_digi_id.superlayer m_intId :=
  ⟨rfl, rfl, rfl, rfl, rfl, rfl⟩

/-- `parse_emc_digi(rec)`: the four identifier fields are those of `parse_emc_digi_id(rec["m_intId"])` -/
theorem emc_digi_record_fields (m_intId : BitVec 64) :
    parse_emc_digi.gid m_intId = parse_emc_digi_id.gid m_intId ∧
    parse_emc_digi.part m_intId = parse_emc_digi_id.part m_intId ∧
    parse_emc_digi.theta m_intId = parse_emc_digi_id.theta m_intId ∧
    parse_emc_digi.phi m_intId = parse_emc_digi_id.phi m_intId :=
  ⟨rfl, rfl, rfl, rfl⟩

/-- the remaining fields of the record parsers are the input's own fields, passed through untouched -/
theorem digi_record_passthrough :
    ((wiring.lookup "parse_mdc_digi").map fun fs =>
      ["charge_channel", "time_channel", "track_index", "overflow", "digi_id"].map fun k => fs.lookup k) =
      some [some "in[\"m_chargeChannel\"]", some "in[\"m_timeChannel\"]", some "in[\"m_trackIndex\"]", some "in[\"m_overflow\"]",
        some "in[\"m_intId\"]"] ∧
    ((wiring.lookup "parse_emc_digi").map fun fs =>
      ["charge_channel", "time_channel", "track_index", "measure", "digi_id"].map fun k => fs.lookup k) =
      some [some "in[\"m_chargeChannel\"]", some "in[\"m_timeChannel\"]", some "in[\"m_trackIndex\"]", some "in[\"m_measure\"]",
        some "in[\"m_intId\"]"] := by decide

/-! ## `flat`, `library`, field lists -/

/-- verified by the translator for `parse_tof_digi_id`, `parse_muc_digi_id`, `parse_cgem_digi_id` (every parser with these
parameters): `flat` = the kernels see `ak.flatten(input)` (awkward input) — with `C14.flat_option` this is "apply, then flatten" —
and `library` only selects `ak.zip(res)` vs the dict `res` -/
theorem wiring_facts : flatMeansFlattenInputFirst = true ∧ libraryOnlyChangesContainer = true := ⟨rfl, rfl⟩

/-- … and these are exactly the parsers that have the parameters, each choosing its container by `library` -/
theorem flat_library_parsers :
    flatParsers = ["parse_tof_digi_id", "parse_muc_digi_id", "parse_cgem_digi_id"] ∧ libraryParsers = flatParsers ∧
    flatParsers.map (fun p => containers.lookup p) = [some "by-library", some "by-library", some "by-library"] := by decide

/-- the names of the fields of a parser, in output order -/
def fieldNames (p : String) : Option (List String) := (wiring.lookup p).map (·.map Prod.fst)

/-- the field lists of `parse_mdc_digi_id` and `parse_mdc_gid` coincide (same names, same order, `with_pos` fields included), and
likewise for EMC -/
theorem digi_and_gid_field_lists :
    fieldNames "parse_mdc_digi_id" = fieldNames "parse_mdc_gid" ∧ (fieldNames "parse_mdc_gid").isSome = true ∧
    fieldNames "parse_emc_digi_id" = fieldNames "parse_emc_gid" ∧ (fieldNames "parse_emc_gid").isSome = true := by decide

/-- the field order as the code produces it (NOT the order of the docstring of `parse_mdc_digi_id`, which lists `wire` before `layer`;
`parse_mdc_digi` does put `wire` first) -/
theorem mdc_field_order :
    (fieldNames "parse_mdc_digi_id").map (·.take 6) = some ["gid", "layer", "wire", "stereo", "is_stereo", "superlayer"] ∧
    (fieldNames "parse_mdc_digi").map (·.take 6) = some ["gid", "wire", "layer", "stereo", "is_stereo", "superlayer"] := by decide

/-- which fields exist only `with_pos` (`posOnly`: the fields the translator saw being set inside `if with_pos:`, the ones whose `wiring`
expression carries the `pos:` prefix): exactly the coordinates, in every MDC / EMC parser alike, and none elsewhere -/
theorem with_pos_fields :
    posOnly.lookup "parse_mdc_gid" = some ["mid_x", "mid_y", "west_x", "west_y", "west_z", "east_x", "east_y", "east_z"] ∧
    posOnly.lookup "parse_mdc_digi_id" = posOnly.lookup "parse_mdc_gid" ∧
    posOnly.lookup "parse_mdc_digi" = posOnly.lookup "parse_mdc_gid" ∧
    posOnly.lookup "parse_emc_gid" = some ["front_center_x", "front_center_y", "front_center_z", "center_x", "center_y", "center_z"] ∧
    posOnly.lookup "parse_emc_digi_id" = posOnly.lookup "parse_emc_gid" ∧
    posOnly.lookup "parse_emc_digi" = posOnly.lookup "parse_emc_gid" ∧
    posOnly.lookup "parse_tof_digi_id" = some [] ∧ posOnly.lookup "parse_muc_digi_id" = some [] ∧
    posOnly.lookup "parse_cgem_digi_id" = some [] ∧
    withPosDefaults = [("parse_mdc_gid", true), ("parse_mdc_digi_id", false), ("parse_mdc_digi", false),
      ("parse_emc_gid", true), ("parse_emc_digi_id", false), ("parse_emc_digi", false)] := by decide

end Pybes3Verif.DetParseTie
