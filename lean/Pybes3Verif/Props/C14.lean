import Pybes3Verif.Props.Nested
/-!
C14 — detector-ID and geometry functions are independent of input representation.

pybes3's own part of this property is small: every public function is an element-wise kernel (`mapN`), the record
parsers assemble such kernels, and their `flat` option is `ak.flatten` of the input.  These are the nested-array laws
of `Props/Nested.lean`; the dtype half of the property has no theorem: in the 64-bit model of the kernels a
kernel's argument IS the integer represented, so dtype independence is the modelling assumption itself (numba widens
every integer dtype to 64 bit), which only the differential passes of C05/C08/C14 validate.  numba's type dispatch and awkward's ufunc
protocol - most of what this property is about - are outside the model and are explored by the harness.
-/
namespace Pybes3Verif.C14
open Pybes3Verif.Nested

variable {α β : Type}

/-- array structure is preserved and values are those of the leaves: for every nesting depth, empty lists anywhere -/
theorem kernel_preserves_structure (f : α → β) (d : Nat) (t : Nested α (d + 1)) :
    levels d (mapN f (d + 1) t) = levels d t ∧ flat d (mapN f (d + 1) t) = (flat d t).map f :=
  ⟨levels_mapN f d t, flat_mapN f d t⟩

/-- the parsers' `flat` option (flatten the input, then apply the kernels) equals applying the kernels and flattening -/
theorem flat_option (f : α → β) (d : Nat) (t : Nested α (d + 2)) :
    mapN f (d + 1) (flatten1 d t) = flatten1 d (mapN f (d + 2) t) := mapN_flatten1 f d t

/-- a record parser is the tuple of its field kernels: every field of the record equals the stand-alone function -/
theorem record_fields (f : α → β) (g : α → β) (d : Nat) (t : Nested α (d + 1)) :
    flat d (mapN (fun x => (f x, g x)) (d + 1) t) = (flat d t).map (fun x => (f x, g x)) ∧
    (flat d (mapN (fun x => (f x, g x)) (d + 1) t)).map Prod.fst = flat d (mapN f (d + 1) t) := by
  constructor
  · exact flat_mapN _ d t
  · rw [flat_mapN, flat_mapN, List.map_map]; rfl

end Pybes3Verif.C14
