/-
C11 — pivot changes compose: identity, path independence, inverse.

Subject: `changePivot` of `Model/Helix.lean` instantiated with `realOps` (`Proofs/HelixReal.lean`).
Helper lemmas: `Proofs/HelixA.lean`.
-/
import Pybes3Verif.Proofs.HelixA

namespace Pybes3Verif.Helix
open Real

local notation "R" => realOps

-- Some draft hypotheses (`OffCentre …`) turned out not to be needed by the proofs; the statements are
-- kept exactly as drafted, so the unused-variable linter is silenced (see REPORT.md).
set_option linter.unusedVariables false

/-! ### Group A — C11 : pivot changes compose -/

/-- the output of a pivot change is in normal form (in particular 0 ≤ φ0' < 2π) -/
theorem changePivot_valid (h : Params ℝ) (p p' : Vec3 ℝ) (hk : h.kappa ≠ 0) (hoff : OffCentre h p p') :
    Valid (changePivot R h p p') := by
  have e := cp_dr_phi h p p' hk
  have e1 : (changePivot R h p p').dr = (fromCentre R (specCentre h p) p' (rho h)).1 := congrArg Prod.fst e
  have e2 : (changePivot R h p p').phi0 = (fromCentre R (specCentre h p) p' (rho h)).2 := congrArg Prod.snd e
  refine ⟨hk, ?_, ?_, ?_⟩
  · rw [e2]; exact fromCentre_phi_nonneg _ _ _
  · rw [e2]; exact fromCentre_phi_lt _ _ _
  · rw [cp_rho, e1]; exact fromCentre_side _ _ _ (rho_ne_zero h hk) hoff

/-- identity: moving a helix in normal form to its current pivot changes nothing -/
theorem changePivot_self (h : Params ℝ) (p : Vec3 ℝ) (hv : Valid h) : changePivot R h p p = h :=
  cp_self h p hv

/-- (dr, φ0) after a pivot change depend only on the circle (centre, ρ) and the new pivot -/
theorem changePivot_dr_phi (h : Params ℝ) (p p' : Vec3 ℝ) (hk : h.kappa ≠ 0) :
    ((changePivot R h p p').dr, (changePivot R h p p').phi0) = fromCentre R (specCentre h p) p' (rho h) :=
  cp_dr_phi h p p' hk

/-- path independence in the transverse plane: two steps give the same (dr, φ0, κ, tanλ) as one -/
theorem path_independent_xy (h : Params ℝ) (p p₁ p₂ : Vec3 ℝ) (hk : h.kappa ≠ 0) (h1 : OffCentre h p p₁) :
    let a := changePivot R (changePivot R h p p₁) p₁ p₂
    let b := changePivot R h p p₂
    a.dr = b.dr ∧ a.phi0 = b.phi0 ∧ a.kappa = b.kappa ∧ a.tanl = b.tanl := by
  intro a b
  exact ⟨(cp_cp_dr_phi h p p₁ p₂ hk).1, (cp_cp_dr_phi h p p₁ p₂ hk).2, rfl, rfl⟩

/-- … and dz up to a whole number of helix pitches 2π ρ tanλ -/
theorem path_dz (h : Params ℝ) (p p₁ p₂ : Vec3 ℝ) (hk : h.kappa ≠ 0) (h1 : OffCentre h p p₁)
    (h2 : OffCentre h p p₂) :
    ∃ k : ℤ, (changePivot R (changePivot R h p p₁) p₁ p₂).dz = (changePivot R h p p₂).dz + k * (2 * π * rho h * h.tanl) :=
  cp_path_dz h p p₁ p₂ hk

/-- … exactly, when the accumulated turning angle stays within half a turn -/
theorem path_dz_exact (h : Params ℝ) (p p₁ p₂ : Vec3 ℝ) (hk : h.kappa ≠ 0) (h1 : OffCentre h p p₁)
    (h2 : OffCentre h p p₂)
    (hs : -π < dphiOf R h p p₁ + dphiOf R (changePivot R h p p₁) p₁ p₂ ∧
          dphiOf R h p p₁ + dphiOf R (changePivot R h p p₁) p₁ p₂ ≤ π) :
    (changePivot R (changePivot R h p p₁) p₁ p₂).dz = (changePivot R h p p₂).dz :=
  cp_path_dz_exact h p p₁ p₂ hk hs

/-- inverse: there and back restores all five parameters of a helix in normal form
(the turning angle of the forward move must not be exactly π, where the branch is ambiguous) -/
theorem there_and_back (h : Params ℝ) (p p' : Vec3 ℝ) (hv : Valid h) (hoff : OffCentre h p p')
    (hpi : dphiOf R h p p' ≠ π) :
    changePivot R (changePivot R h p p') p' p = h := by
  have hk := hv.kappa_ne
  have hself := cp_self h p hv
  obtain ⟨e1, e2⟩ := cp_cp_dr_phi h p p' p hk
  rw [hself] at e1 e2
  -- the backward turning angle is the opposite of the forward one
  have hback : dphiOf R (changePivot R h p p') p' p = -dphiOf R h p p' := by
    rw [dphiOf_eq (changePivot R h p p') p' p, e2, dphiOf_eq h p p',
      ← neg_sub (changePivot R h p p').phi0 h.phi0]
    exact normDphi_neg (by rw [← dphiOf_eq]; exact hpi)
  have hsum : dphiOf R h p p' + dphiOf R (changePivot R h p p') p' p = 0 := by rw [hback]; ring
  have hdz := cp_path_dz_exact h p p' p hk
    (by rw [hsum]; exact ⟨by linarith [Real.pi_pos], Real.pi_pos.le⟩)
  rw [hself] at hdz
  exact params_ext e1 e2 rfl hdz rfl

/-! ### the hypotheses are satisfiable -/

/-- `exHelixPos` (κ = 1, ρ = −α₀ < 0, dr = −1, φ0 = 3, `Proofs/HelixA.lean`) is in normal form
(`exHelixPos_valid`), so `changePivot_self` applies to it -/
example : changePivot R exHelixPos ⟨1, 2, 3⟩ ⟨1, 2, 3⟩ = exHelixPos :=
  changePivot_self _ _ exHelixPos_valid

/-- a helix in normal form is never centred on its own pivot, so `OffCentre` is satisfiable -/
example : OffCentre exHelixPos ⟨1, 2, 3⟩ ⟨1, 2, 3⟩ := offCentre_self _ _ exHelixPos_valid

example : Valid (changePivot R exHelixPos ⟨1, 2, 3⟩ ⟨1, 2, 3⟩) :=
  changePivot_valid _ _ _ exHelixPos_valid.kappa_ne (offCentre_self _ _ exHelixPos_valid)

/-- path independence for a genuinely different intermediate pivot -/
example (p₂ : Vec3 ℝ) :
    (changePivot R (changePivot R exHelixPos ⟨1, 2, 3⟩ ⟨1, 2, 3⟩) ⟨1, 2, 3⟩ p₂).dr =
      (changePivot R exHelixPos ⟨1, 2, 3⟩ p₂).dr :=
  (path_independent_xy _ _ _ p₂ exHelixPos_valid.kappa_ne (offCentre_self _ _ exHelixPos_valid)).1

end Pybes3Verif.Helix
