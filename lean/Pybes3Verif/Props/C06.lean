/-
C06 — a pivot change never changes the physical track.

Subject: `changePivot` of `Model/Helix.lean` instantiated with the real-number operations `realOps`
(`Proofs/HelixReal.lean`).  Specification: the BOSS helix trajectory `traj`, its signed radius `rho`
and circle centre `specCentre`, written without reference to the code.
Helper lemmas: `Proofs/HelixA.lean`.
-/
import Pybes3Verif.Proofs.HelixA

namespace Pybes3Verif.Helix
open Real

local notation "R" => realOps

-- Some draft hypotheses (`OffCentre …`) turned out not to be needed by the proofs; the statements are
-- kept exactly as drafted, so the unused-variable linter is silenced (see REPORT.md).
set_option linter.unusedVariables false

/-! ### Group A — C06 : a pivot change never changes the physical track -/

/-- the model's signed radius is the specification's ρ = −α₀/κ (both charges) -/
theorem signedRadius_eq_rho (h : Params ℝ) (hk : h.kappa ≠ 0) : signedRadius R h.kappa = rho h :=
  signedRadius_eq_rho' h.kappa hk

/-- the model's centre is the specification's centre -/
theorem centre_eq_specCentre (h : Params ℝ) (p : Vec3 ℝ) (hk : h.kappa ≠ 0) : centre R h p = specCentre h p :=
  centre_eq_specCentre' h p hk

/-- C06(a): same circle centre before and after -/
theorem centre_preserved (h : Params ℝ) (p p' : Vec3 ℝ) (hk : h.kappa ≠ 0) (hoff : OffCentre h p p') :
    specCentre (changePivot R h p p') p' = specCentre h p :=
  cp_centre h p p' hk

/-- C06(b): curvature (hence radius and sense of rotation for that charge) and dip are unchanged -/
theorem curvature_dip_preserved (h : Params ℝ) (p p' : Vec3 ℝ) :
    (changePivot R h p p').kappa = h.kappa ∧ (changePivot R h p p').tanl = h.tanl ∧
    rho (changePivot R h p p') = rho h :=
  ⟨rfl, rfl, rfl⟩

/-- the turning angle is in (−π, π] and congruent to φ0' − φ0 modulo 2π -/
theorem dphi_spec (h : Params ℝ) (p p' : Vec3 ℝ) :
    -π < dphiOf R h p p' ∧ dphiOf R h p p' ≤ π ∧
    ∃ k : ℤ, dphiOf R h p p' = (changePivot R h p p').phi0 - h.phi0 + k * (2 * π) := by
  rw [dphiOf_eq]
  exact normDphi_spec _

/-- C06(c): the new parameters describe the same trajectory, re-parametrised by the turning angle:
same circle, same sense of rotation, same relation between turning angle and z -/
theorem same_trajectory (h : Params ℝ) (p p' : Vec3 ℝ) (hk : h.kappa ≠ 0) (hoff : OffCentre h p p') (t : ℝ) :
    traj (changePivot R h p p') p' t = traj h p (t + dphiOf R h p p') := by
  obtain ⟨-, -, k, ek⟩ := dphi_spec h p p'
  have hc := cp_centre h p p' hk
  have hc1 : p'.x + ((changePivot R h p p').dr + rho h) * cos (changePivot R h p p').phi0 =
      p.x + (h.dr + rho h) * cos h.phi0 := congrArg Prod.fst hc
  have hc2 : p'.y + ((changePivot R h p p').dr + rho h) * sin (changePivot R h p p').phi0 =
      p.y + (h.dr + rho h) * sin h.phi0 := congrArg Prod.snd hc
  have ea : h.phi0 + (t + dphiOf R h p p') = (changePivot R h p p').phi0 + t + k * (2 * π) := by
    rw [ek]; ring
  unfold traj
  rw [ea, Real.cos_add_int_mul_two_pi, Real.sin_add_int_mul_two_pi, cp_rho, cp_dz, cp_tanl,
    signedRadius_eq_rho h hk]
  refine Prod.ext ?_ (Prod.ext ?_ ?_)
  · simp only; linear_combination hc1
  · simp only; linear_combination hc2
  · simp only; ring

/-- C06(d): the new reference point lies on the circle, is its point closest to the new pivot in the
transverse plane, and the momentum direction (−sin φ0', cos φ0') is tangent there -/
theorem reference_point_closest (h : Params ℝ) (p p' : Vec3 ℝ) (hk : h.kappa ≠ 0) (hoff : OffCentre h p p') :
    let h' := changePivot R h p p'
    let c := specCentre h p
    let P : ℝ × ℝ := (p'.x + h'.dr * cos h'.phi0, p'.y + h'.dr * sin h'.phi0)
    (P.1 - c.1) ^ 2 + (P.2 - c.2) ^ 2 = (rho h) ^ 2 ∧
    abs h'.dr = abs (Real.sqrt ((c.1 - p'.x) ^ 2 + (c.2 - p'.y) ^ 2) - abs (rho h)) ∧
    (P.1 - c.1) * (-(sin h'.phi0)) + (P.2 - c.2) * cos h'.phi0 = 0 := by
  intro h' c P
  have hc := cp_centre h p p' hk
  have hc1 : p'.x + (h'.dr + rho h) * cos h'.phi0 = c.1 := congrArg Prod.fst hc
  have hc2 : p'.y + (h'.dr + rho h) * sin h'.phi0 = c.2 := congrArg Prod.snd hc
  have e1 : P.1 - c.1 = -(rho h * cos h'.phi0) := by
    rw [← hc1]; simp only [P]; ring
  have e2 : P.2 - c.2 = -(rho h * sin h'.phi0) := by
    rw [← hc2]; simp only [P]; ring
  have hdr : h'.dr = (fromCentre R c p' (rho h)).1 := congrArg Prod.fst (cp_dr_phi h p p' hk)
  refine ⟨?_, ?_, ?_⟩
  · rw [e1, e2]
    have := Real.sin_sq_add_cos_sq h'.phi0
    linear_combination (rho h) ^ 2 * this
  · rw [hdr]; exact fromCentre_abs_dr c p' (rho h)
  · rw [e1, e2]; ring

/-! ### the hypotheses are satisfiable -/

/-- the concrete helix `exHelix` (κ = −1, ρ = α₀ > 0, dr = 1, φ0 = 1, `Proofs/HelixA.lean`) is in normal form -/
example : Valid exHelix := by
  refine ⟨by simp [exHelix], by simp [exHelix], ?_, ?_⟩
  · have := Real.two_le_pi
    simp only [exHelix]; linarith
  · rw [exHelix_rho]
    have := alpha0_pos
    simp only [exHelix]
    positivity

/-- `hk` and `hoff` hold for a non-trivial move of `exHelix` (`exHelix_off` in `Proofs/HelixA.lean`) -/
example (t : ℝ) : traj (changePivot R exHelix ⟨0, 0, 0⟩ ⟨0, 0, 7⟩) ⟨0, 0, 7⟩ t =
    traj exHelix ⟨0, 0, 0⟩ (t + dphiOf R exHelix ⟨0, 0, 0⟩ ⟨0, 0, 7⟩) :=
  same_trajectory _ _ _ (by simp [exHelix]) exHelix_off t

end Pybes3Verif.Helix
