import Pybes3Verif.Model.TObjArray
import Pybes3Verif.Spec.RootStream
import Pybes3Verif.Proofs.RootLemmas
/-!
C01 — TObjArray collection streams (DESIGN.md §6 C01): the reader model applied to the specification
encoder returns exactly the encoded objects, event by event; `process_digi_subbranch` replaces the
`TRawData` record in place by its own fields.  Helper lemmas: `Pybes3Verif/Proofs/RootLemmas.lean`.
-/

/-! ### Group Z — C01 : TObjArray collection streams -/
namespace Pybes3Verif.Root
open Pybes3Verif.Root.Spec

theorem beVal_be (n v : Nat) (h : v < 256 ^ n) : beVal (be n v) = v :=
  beVal_be' n v h

theorem be_length (n v : Nat) : (be n v).length = n :=
  be_length' n v

/-- an object header (either tag variant, any byte count) is skipped exactly -/
theorem skipObjHeader_enc (h : ObjHdr) (rest : List Nat) (hw : h.wf = true) :
    skipObjHeader.run (encObjHdr h ++ rest) = some ((), rest) := by
  obtain ⟨count, cn, refTag⟩ := h
  cases cn with
  | some nm =>
    obtain ⟨hc, hnm⟩ := ObjHdr.wf_some hw
    simp only [encObjHdr, List.append_assoc, List.singleton_append]
    exact skipObjHeader_new _ _ nm rest (be_length' _ _) (beVal_mask count hc) (be_length' _ _)
      (beVal_be' 4 kNewClassTag kNewClassTag_lt) hnm
  | none =>
    obtain ⟨hc, ht, hne⟩ := ObjHdr.wf_none hw
    simp only [encObjHdr, List.append_assoc]
    exact skipObjHeader_ref _ _ rest (be_length' _ _) (beVal_mask count hc) (be_length' _ _)
      (by rw [beVal_be' 4 refTag (by rw [pow256_4]; exact ht)]; exact hne)

set_option linter.unusedVariables false in -- h1 h2 h4 are not needed: those fields are skipped, not decoded
/-- a TObject base is skipped exactly, referenced bit set or not -/
theorem skipTObject_enc (version uid bits pidf : Nat) (rest : List Nat) (h1 : version < 65536) (h2 : uid < 4294967296)
    (h3 : bits < 4294967296) (h4 : pidf < 65536) :
    skipTObject.run (encTObject version uid bits pidf ++ rest) = some ((), rest) := by
  simp only [encTObject, List.append_assoc]
  rw [skipTObject_words _ _ _ _ (be_length' _ _) (be_length' _ _) (be_length' _ _),
    beVal_be' 4 bits (by rw [pow256_4]; exact h3)]
  by_cases hb : bits &&& kIsReferenced ≠ 0
  · rw [if_pos hb, if_pos hb]
    exact skip_append' 2 _ _ (be_length' _ _)
  · rw [if_neg hb, if_neg hb, List.nil_append, pure_run]

/-- one entry: for every element codec that reads exactly its own encoding, every list of objects, every
header variant and every trailing bytes, the reader returns the objects in order and stops right after them -/
theorem readTObjArray_encode {ε : Type} (elem : P ε) (encE : ε → List Nat)
    (hcodec : ∀ x rest, elem.run (encE x ++ rest) = some (x, rest))
    (a : ArrHdr) (objs : List (ObjHdr × ε)) (rest : List Nat) (ha : a.wf = true)
    (ho : ∀ h ∈ objs.map (·.1), h.wf = true) (hn : objs.length < 4294967296) :
    (readTObjArray elem).run (encTObjArray encE a objs ++ rest) = some (objs.map (·.2), rest) := by
  obtain ⟨hc, _, _, _, _, _⟩ := ArrHdr.wf_iff a ha
  have hp : ∀ o ∈ objs, ∀ rest, (do skipObjHeader; elem : P ε).run
      (encObjHdr o.1 ++ (encE o.2 ++ rest)) = some (o.2, rest) := by
    intro o hmem rest
    have hw : o.1.wf = true := ho o.1 (List.mem_map.2 ⟨o, hmem, rfl⟩)
    rw [bind_ok skipObjHeader (fun _ => elem) _ _ _ (skipObjHeader_enc o.1 _ hw)]
    exact hcodec o.2 rest
  simp only [encTObjArray, List.append_assoc]
  rw [readTObjArray_words elem _ _ _ _ _ [0] _ _ _ (be_length' _ _) (beVal_mask a.count hc)
      (be_length' _ _) (be_length' _ _) (be_length' _ _) (be_length' _ _) rfl (be_length' _ _)
      (be_length' _ _),
    beVal_be' 4 objs.length (by rw [pow256_4]; exact hn)]
  exact times_objs _ encE objs hp rest

/-- all entries of a basket: same number of objects per event, same order, nothing lost, duplicated, shifted
between objects or moved between events (including empty events anywhere) -/
theorem readEntries_encode {ε : Type} (elem : P ε) (encE : ε → List Nat)
    (hcodec : ∀ x rest, elem.run (encE x ++ rest) = some (x, rest))
    (events : List (ArrHdr × List (ObjHdr × ε)))
    (hw : ∀ e ∈ events, e.1.wf = true ∧ (∀ h ∈ e.2.map (·.1), h.wf = true) ∧ e.2.length < 4294967296) :
    readEntries (readTObjArray elem) (events.map (fun e => encTObjArray encE e.1 e.2)) =
      some (events.map (fun e => e.2.map (·.2))) := by
  unfold readEntries
  induction events with
  | nil => rfl
  | cons e es ih =>
    obtain ⟨h1, h2, h3⟩ := hw e List.mem_cons_self
    have hrun := readTObjArray_encode elem encE hcodec e.1 e.2 [] h1 h2 h3
    rw [List.append_nil] at hrun
    have ih' := ih (fun e' he' => hw e' (List.mem_cons_of_mem _ he'))
    rw [List.map_cons, List.mapM_cons, hrun, ih']
    rfl

/-- digi post-processing with distinct field names: the result's fields are the input's with `TRawData`
replaced in place by its own fields; every column is the same column (values untouched) -/
theorem processDigi_fields {α : Type} (pre post sub : List (String × Col α))
    (hd : ((pre ++ sub ++ post).map (·.1)).Nodup) (hr : "TRawData" ∉ (pre ++ sub ++ post).map (·.1)) :
    processDigi (pre ++ [("TRawData", Col.record sub)] ++ post) = pre ++ sub ++ post := by
  have hr1 : "TRawData" ∉ pre.map (·.1) := by
    intro hm; apply hr; rw [List.map_append, List.map_append]
    exact List.mem_append_left _ (List.mem_append_left _ hm)
  have hr3 : "TRawData" ∉ post.map (·.1) := by
    intro hm; apply hr; rw [List.map_append]
    exact List.mem_append_right _ hm
  have hd2 : ((pre ++ sub).map (·.1)).Nodup :=
    hd.sublist ((List.sublist_append_left _ _).map _)
  have hd1 : ((([] : List (String × Col α)) ++ pre).map (·.1)).Nodup :=
    hd2.sublist ((List.sublist_append_left _ _).map _)
  rw [processDigi_eq, List.foldl_append, List.foldl_append, foldl_digiStep_fresh pre [] hr1 hd1,
    List.foldl_cons, List.foldl_nil, List.nil_append, digiStep_raw, foldl_dictSet_fresh sub pre hd2,
    foldl_digiStep_fresh post (pre ++ sub) hr3 hd]

end Pybes3Verif.Root
