import Pybes3Verif.Proofs.HelixB
/-!
C12 : the error matrix is propagated with the true Jacobian (DESIGN.md §6 C12).
Subject: `Model.Helix.jacobian` / `Model.Helix.propagate` over ℝ (`realOps`).
-/
namespace Pybes3Verif.Helix
open Real B

local notation "R" => realOps

/-! ### Group B — C12 : the error matrix is propagated with the true Jacobian -/

/-- rows 0 and 1 (dr', φ0'): implicit differentiation of the two centre equations.
`ρ(s)` is the signed radius along the curve (ρ = −α₀/κ(s), so dρ = −ρ/κ · dκ). -/
theorem jacobian_rows_dr_phi
    (dr ph ka dr' ph' ρ : ℝ → ℝ) (t ddr dph dka ddr' dph' : ℝ)
    (hdr : HasDerivAt dr ddr t) (hph : HasDerivAt ph dph t) (hka : HasDerivAt ka dka t)
    (hdr' : HasDerivAt dr' ddr' t) (hph' : HasDerivAt ph' dph' t)
    (hρ : ∀ s, ρ s = -alpha0 / ka s) (hk : ka t ≠ 0)
    (hx : ∀ s, (dr' s + ρ s) * cos (ph' s) = (dr s + ρ s) * cos (ph s))
    (hy : ∀ s, (dr' s + ρ s) * sin (ph' s) = (dr s + ρ s) * sin (ph s))
    (hne : dr' t + ρ t ≠ 0) :
    let Δ := ph' t - ph t
    let r := ρ t
    let rdr := r + dr t
    let rdrpr := 1 / (r + dr' t)
    ddr' = cos Δ * ddr + (rdr * sin Δ) * dph + (r / ka t * (1 - cos Δ)) * dka ∧
    dph' = (-(rdrpr * sin Δ)) * ddr + (rdr * rdrpr * cos Δ) * dph + (r / ka t * rdrpr * sin Δ) * dka := by
  intro Δ r rdr rdrpr
  have hdρ := hasDerivAt_rho ka ρ t dka hka hρ hk
  obtain ⟨e1, e2⟩ := centre_eqs_deriv dr ph dr' ph' ρ t ddr dph ddr' dph' _ hdr hph hdr' hph' hdρ hx hy
  obtain ⟨s1, s2⟩ := centre_eqs_solve (dr' t + ρ t) (dr t + ρ t) (cos (ph' t)) (sin (ph' t))
    (cos (ph t)) (sin (ph t)) ddr dph ddr' dph' _ (Real.cos_sq_add_sin_sq (ph' t)) e1 e2
  have hcΔ : cos Δ = cos (ph' t) * cos (ph t) + sin (ph' t) * sin (ph t) := Real.cos_sub _ _
  have hsΔ : sin Δ = sin (ph' t) * cos (ph t) - cos (ph' t) * sin (ph t) := Real.sin_sub _ _
  have hdρ' : alpha0 / ka t ^ 2 * dka = -(r / ka t) * dka := by
    change alpha0 / ka t ^ 2 * dka = -(ρ t / ka t) * dka
    rw [hρ t]; field_simp
  rw [hdρ'] at s1 s2
  have hne' : r + dr' t ≠ 0 := by
    change ρ t + dr' t ≠ 0
    rwa [add_comm]
  constructor
  · rw [hcΔ, hsΔ]
    linear_combination s1
  · rw [hcΔ, hsΔ]
    have hA : dr' t + ρ t = r + dr' t := add_comm _ _
    rw [hA] at s2
    change dph' = -(1 / (r + dr' t) * _) * ddr + (r + dr t) * (1 / (r + dr' t)) * _ * dph
      + r / ka t * (1 / (r + dr' t)) * _ * dka
    apply mul_left_cancel₀ hne'
    rw [s2]
    field_simp
    ring

/-- row 3 (dz'): differentiation of z-relation  dz' = z₀ + dz − ρ tanλ (φ0' − φ0 + 2π k) − z₀'  -/
theorem jacobian_row_dz
    (dr ph ka dz tl dr' ph' dz' ρ : ℝ → ℝ) (t ddr dph dka ddz dtl ddr' dph' ddz' : ℝ) (z0 z0' : ℝ) (k : ℤ)
    (hdr : HasDerivAt dr ddr t) (hph : HasDerivAt ph dph t) (hka : HasDerivAt ka dka t)
    (hdz : HasDerivAt dz ddz t) (htl : HasDerivAt tl dtl t)
    (hdr' : HasDerivAt dr' ddr' t) (hph' : HasDerivAt ph' dph' t) (hdz' : HasDerivAt dz' ddz' t)
    (hρ : ∀ s, ρ s = -alpha0 / ka s) (hk : ka t ≠ 0)
    (hx : ∀ s, (dr' s + ρ s) * cos (ph' s) = (dr s + ρ s) * cos (ph s))
    (hy : ∀ s, (dr' s + ρ s) * sin (ph' s) = (dr s + ρ s) * sin (ph s))
    (hz : ∀ s, dz' s = z0 + dz s - ρ s * tl s * (ph' s - ph s + k * (2 * π)) - z0')
    (hne : dr' t + ρ t ≠ 0) :
    let Δ := ph' t - ph t + k * (2 * π)
    let r := ρ t
    let rdr := r + dr t
    let rdrpr := 1 / (r + dr' t)
    ddz' = (r * rdrpr * tl t * sin Δ) * ddr + (r * tl t * (1 - rdr * rdrpr * cos Δ)) * dph
          + (r / ka t * tl t * (Δ - r * rdrpr * sin Δ)) * dka + 1 * ddz + (-(r * Δ)) * dtl := by
  intro Δ r rdr rdrpr
  have hdρ := hasDerivAt_rho ka ρ t dka hka hρ hk
  obtain ⟨-, s2⟩ := jacobian_rows_dr_phi dr ph ka dr' ph' ρ t ddr dph dka ddr' dph'
    hdr hph hka hdr' hph' hρ hk hx hy hne
  have hcΔ : cos Δ = cos (ph' t - ph t) := Real.cos_add_int_mul_two_pi _ k
  have hsΔ : sin Δ = sin (ph' t - ph t) := Real.sin_add_int_mul_two_pi _ k
  rw [← hcΔ, ← hsΔ] at s2
  -- derivative of the right-hand side of the z-relation
  have hfun : dz' = fun s => z0 + dz s - ρ s * tl s * (ph' s - ph s + k * (2 * π)) - z0' := funext hz
  have hR : HasDerivAt (fun s => z0 + dz s - ρ s * tl s * (ph' s - ph s + k * (2 * π)) - z0')
      (ddz - ((alpha0 / ka t ^ 2 * dka * tl t + ρ t * dtl) * (ph' t - ph t + k * (2 * π))
        + ρ t * tl t * (dph' - dph))) t := by
    have h1 := ((hdz.const_add z0).sub
      ((hdρ.mul htl).mul ((hph'.sub hph).add_const ((k : ℝ) * (2 * π))))).sub_const z0'
    exact h1
  rw [hfun] at hdz'
  have e := hdz'.unique hR
  have hdρ' : alpha0 / ka t ^ 2 * dka = -(r / ka t) * dka := by
    change alpha0 / ka t ^ 2 * dka = -(ρ t / ka t) * dka
    rw [hρ t]; field_simp
  rw [hdρ'] at e
  rw [e, s2]
  change _ = (r * rdrpr * tl t * sin Δ) * ddr + (r * tl t * (1 - rdr * rdrpr * cos Δ)) * dph
          + (r / ka t * tl t * ((ph' t - ph t + k * (2 * π)) - r * rdrpr * sin Δ)) * dka + 1 * ddz
          + (-(r * (ph' t - ph t + k * (2 * π)))) * dtl
  change ddz - ((-(r / ka t) * dka * tl t + r * dtl) * (ph' t - ph t + k * (2 * π)) + r * tl t * _) = _
  ring

/-- the model's Jacobian entries are exactly the coefficients above (ties the two previous theorems to
`Model.Helix.jacobian`), rows 2 and 4 are the identity rows -/
theorem jacobian_entries (h : Params ℝ) (p p' : Vec3 ℝ) (hk : h.kappa ≠ 0) :
    let J := jacobian R h p p'
    let h' := changePivot R h p p'
    let Δ := dphiOf R h p p'
    let r := rho h
    let rdr := r + h.dr
    let rdrpr := 1 / (r + h'.dr)
    J 0 0 = cos Δ ∧ J 0 1 = rdr * sin Δ ∧ J 0 2 = r / h.kappa * (1 - cos Δ) ∧ J 0 3 = 0 ∧ J 0 4 = 0 ∧
    J 1 0 = -(rdrpr * sin Δ) ∧ J 1 1 = rdr * rdrpr * cos Δ ∧ J 1 2 = r / h.kappa * rdrpr * sin Δ ∧ J 1 3 = 0 ∧ J 1 4 = 0 ∧
    J 2 0 = 0 ∧ J 2 1 = 0 ∧ J 2 2 = 1 ∧ J 2 3 = 0 ∧ J 2 4 = 0 ∧
    J 3 0 = r * rdrpr * h.tanl * sin Δ ∧ J 3 1 = r * h.tanl * (1 - rdr * rdrpr * cos Δ) ∧
    J 3 2 = r / h.kappa * h.tanl * (Δ - r * rdrpr * sin Δ) ∧ J 3 3 = 1 ∧ J 3 4 = -(r * Δ) ∧
    J 4 0 = 0 ∧ J 4 1 = 0 ∧ J 4 2 = 0 ∧ J 4 3 = 0 ∧ J 4 4 = 1 := by
  intro J h' Δ r rdr rdrpr
  have hr : signedRadius R h.kappa = r := signedRadius_eq_rho' h hk
  have hJ : J = jacobianWith r h.kappa h.dr h'.dr h.tanl Δ := by
    change jacobian R h p p' = _
    unfold jacobian
    rw [hr]
    rfl
  rw [hJ]
  exact ⟨rfl, rfl, rfl, rfl, rfl, rfl, rfl, rfl, rfl, rfl, rfl, rfl, rfl, rfl, rfl, rfl, rfl, rfl, rfl, rfl,
    rfl, rfl, rfl, rfl, rfl⟩

/-- a move to the same pivot has the identity Jacobian, hence leaves the error matrix unchanged -/
theorem jacobian_self (h : Params ℝ) (p : Vec3 ℝ) (hv : Valid h) (i j : Fin 5) :
    jacobian R h p p i j = if i = j then 1 else 0 := by
  rw [jacobian_eq_jacobianWith, dphiOf_self h p hv, changePivot_self_dr h p hv,
    signedRadius_eq_rho' h hv.kappa_ne]
  exact jacobianWith_zero _ _ _ _ (rho_add_dr_ne_zero h hv) i j

theorem propagate_self (h : Params ℝ) (p : Vec3 ℝ) (hv : Valid h) (E : Nat → Nat → ℝ) (i j : Fin 5) :
    propagate R (jacobian R h p p) E i j = E i j :=
  propagate_id _ E (jacobian_self h p hv) i j

/-- `propagate` is the matrix product J E Jᵀ -/
theorem propagate_eq_matrix (J E : Nat → Nat → ℝ) :
    (Matrix.of fun (i j : Fin 5) => propagate R J E i j) =
      (Matrix.of fun (i j : Fin 5) => J i j) * (Matrix.of fun (i j : Fin 5) => E i j) *
        (Matrix.of fun (i j : Fin 5) => J i j).transpose :=
  propagate_eq_matrix' J E

/-- symmetric stays symmetric -/
theorem propagate_symm (J E : Nat → Nat → ℝ) (hE : ∀ i j : Fin 5, E i j = E j i) (i j : Fin 5) :
    propagate R J E i j = propagate R J E j i := by
  have hE' : (Matrix.of fun (i j : Fin 5) => E i j).transpose = Matrix.of fun (i j : Fin 5) => E i j := by
    ext a b
    exact hE b a
  have hT : (Matrix.of fun (i j : Fin 5) => propagate R J E i j).transpose =
      Matrix.of fun (i j : Fin 5) => propagate R J E i j := by
    rw [propagate_eq_matrix, Matrix.transpose_mul, Matrix.transpose_mul, Matrix.transpose_transpose, hE',
      Matrix.mul_assoc]
  have := congrFun (congrFun hT j) i
  simpa using this

/-- positive semi-definite stays positive semi-definite -/
theorem propagate_posSemidef (J E : Nat → Nat → ℝ)
    (hE : (Matrix.of fun (i j : Fin 5) => E i j).PosSemidef) :
    (Matrix.of fun (i j : Fin 5) => propagate R J E i j).PosSemidef := by
  rw [propagate_eq_matrix]
  have := hE.mul_mul_conjTranspose_same (Matrix.of fun (i j : Fin 5) => J i j)
  rwa [Matrix.conjTranspose_eq_transpose_of_trivial] at this

/-! ### the hypotheses are satisfiable -/

/-- `Valid` helices exist for both charges, so `jacobian_self` / `propagate_self` are not vacuous -/
example (p : Vec3 ℝ) (i j : Fin 5) : jacobian R exampleHelix p p i j = if i = j then 1 else 0 :=
  jacobian_self exampleHelix p exampleHelix_valid i j

example (p : Vec3 ℝ) (E : Nat → Nat → ℝ) (i j : Fin 5) :
    propagate R (jacobian R exampleHelixPos p p) E i j = E i j :=
  propagate_self exampleHelixPos p exampleHelixPos_valid E i j

/-- the hypotheses of `jacobian_rows_dr_phi` / `jacobian_row_dz` hold for a concrete non-constant family:
dr(s) = s, φ0(s) = s, κ = −1 (ρ = α₀), tanλ(s) = s, dz(s) = s, and the same circle described with φ0' = φ0 + 2π
(k = −1 in the z-relation), at t = 1 -/
example :
    let dr : ℝ → ℝ := fun s => s
    let ph : ℝ → ℝ := fun s => s
    let ka : ℝ → ℝ := fun _ => -1
    let dz : ℝ → ℝ := fun s => s
    let tl : ℝ → ℝ := fun s => s
    let dr' : ℝ → ℝ := fun s => s
    let ph' : ℝ → ℝ := fun s => s + 2 * π
    let dz' : ℝ → ℝ := fun s => s
    let ρ : ℝ → ℝ := fun _ => alpha0
    HasDerivAt dr 1 1 ∧ HasDerivAt ph 1 1 ∧ HasDerivAt ka 0 1 ∧ HasDerivAt dz 1 1 ∧ HasDerivAt tl 1 1 ∧
    HasDerivAt dr' 1 1 ∧ HasDerivAt ph' 1 1 ∧ HasDerivAt dz' 1 1 ∧
    (∀ s, ρ s = -alpha0 / ka s) ∧ ka 1 ≠ 0 ∧
    (∀ s, (dr' s + ρ s) * cos (ph' s) = (dr s + ρ s) * cos (ph s)) ∧
    (∀ s, (dr' s + ρ s) * sin (ph' s) = (dr s + ρ s) * sin (ph s)) ∧
    (∀ s, dz' s = 0 + dz s - ρ s * tl s * (ph' s - ph s + ((-1 : ℤ) : ℝ) * (2 * π)) - 0) ∧
    dr' 1 + ρ 1 ≠ 0 := by
  intro dr ph ka dz tl dr' ph' dz' ρ
  have hid : HasDerivAt (fun s : ℝ => s) 1 1 := hasDerivAt_id 1
  refine ⟨hid, hid, hasDerivAt_const _ _, hid, hid, hid, hid.add_const _, hid, ?_, ?_, ?_, ?_, ?_, ?_⟩
  · intro s; simp [ρ, ka]
  · simp [ka]
  · intro s; simp [dr, dr', ph, ph']
  · intro s; simp [dr, dr', ph, ph']
  · intro s; simp [dz, dz', ph, ph']
  · have := alpha0_pos
    simp only [dr', ρ]; positivity

/-- a positive semi-definite (indeed symmetric) error matrix exists: the identity -/
example : (Matrix.of fun (i j : Fin 5) => (fun a b : Nat => if a = b then (1 : ℝ) else 0) i j).PosSemidef := by
  have h : (Matrix.of fun (i j : Fin 5) => (fun a b : Nat => if a = b then (1 : ℝ) else 0) i j) = 1 := by
    ext a b
    simp [Matrix.one_apply, Fin.ext_iff]
  rw [h]
  exact Matrix.PosSemidef.one

end Pybes3Verif.Helix
