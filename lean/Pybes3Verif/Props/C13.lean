import Pybes3Verif.Proofs.HelixC
/-!
C13 : documented formulas of `.position / .momentum / .charge / .radius` and the
`helix_obj(momentum=…, position=…, charge=…)` round trip, over ℝ (`R = realOps`).
-/
namespace Pybes3Verif.Helix
open Real

local notation "R" => realOps

/-! ### Group C — C13 : documented formulas and round trip -/

/-- documented position: (x0 + dr cos φ0, y0 + dr sin φ0, z0 + dz) -/
theorem position_formula (h : Params ℝ) (p : Vec3 ℝ) :
    (position R h p).x = p.x + h.dr * cos h.phi0 ∧ (position R h p).y = p.y + h.dr * sin h.phi0 ∧
    (position R h p).z = p.z + h.dz :=
  ⟨rfl, rfl, rfl⟩

/-- documented momentum: pt = 1/|κ|, azimuth ≡ φ0 + π/2 (mod 2π, reported in [0, 2π)), pz = pt tanλ -/
theorem momentum_formula (h : Params ℝ) :
    (momentum R h).1 = 1 / |h.kappa| ∧ (momentum R h).2.2 = 1 / |h.kappa| * h.tanl ∧
    0 ≤ (momentum R h).2.1 ∧ (momentum R h).2.1 < 2 * π ∧
    ∃ k : ℤ, (momentum R h).2.1 = h.phi0 + π / 2 + k * (2 * π) :=
  ⟨rfl, rfl, pmod_twoPi_nonneg _, pmod_twoPi_lt _, pmod_twoPi_congr _⟩

/-- documented charge and radius -/
theorem charge_radius_formula (h : Params ℝ) (hk : 1 / 10000000000 < |h.kappa|) :
    charge R h = (if 0 < h.kappa then 1 else -1) ∧ radius R h.kappa = 1000 / 2.99792458 * (1 / |h.kappa|) := by
  refine ⟨charge_eq h hk, ?_⟩
  simp only [radius, realOps]
  ring

/-- round trip: constructing a helix from its own reported position, momentum, charge and pivot
reproduces it (any pivot, either charge, dr of either sign or zero, φ0 anywhere in [0, 2π)) -/
theorem fromPhysics_roundtrip (h : Params ℝ) (p : Vec3 ℝ) (hk : 1 / 10000000000 < |h.kappa|)
    (hlo : 0 ≤ h.phi0) (hhi : h.phi0 < 2 * π) :
    fromPhysics R (position R h p) (momentum R h) (charge R h) p = h := by
  have habs : 0 < |h.kappa| := lt_trans (by norm_num) hk
  have hk0 : h.kappa ≠ 0 := abs_pos.1 habs
  have hphi : pmod R (pmod R (h.phi0 + π / 2) (twoPi R) - π / 2) (twoPi R) = h.phi0 :=
    phi_roundtrip h.phi0 hlo hhi
  obtain ⟨dr, phi0, kappa, dz, tanl⟩ := h
  obtain ⟨px, py, pz⟩ := p
  simp only at hk hlo hhi habs hk0 hphi
  have hq := charge_eq ⟨dr, phi0, kappa, dz, tanl⟩ hk
  simp only at hq
  have hphi' : pmod R (realOps.sub (pmod R (realOps.add phi0 (realOps.div realOps.pi realOps.two)) (twoPi R)) (realOps.div realOps.pi realOps.two))
      (twoPi R) = phi0 := hphi
  simp only [fromPhysics, position, momentum, hq, hphi']
  simp only [realOps, decide_eq_true_eq]
  have e1 : px + dr * cos phi0 - px = dr * cos phi0 := by ring
  have e2 : py + dr * sin phi0 - py = dr * sin phi0 := by ring
  rw [e1, e2, dr_roundtrip, kappa_roundtrip kappa hk0]
  congr 1
  · ring
  · field_simp

example : fromPhysics R (position R ⟨-3, 1, -2, 5, 7⟩ ⟨1, 2, 3⟩) (momentum R ⟨-3, 1, -2, 5, 7⟩)
    (charge R ⟨-3, 1, -2, 5, 7⟩) ⟨1, 2, 3⟩ = ⟨-3, 1, -2, 5, 7⟩ := by
  apply fromPhysics_roundtrip
  · norm_num
  · norm_num
  · show (1 : ℝ) < 2 * π
    linarith [Real.two_le_pi]

/-- the hypotheses are satisfiable with dr = 0 and positive κ as well -/
example : fromPhysics R (position R ⟨0, 0, 1 / 2, 0, -1⟩ ⟨0, 0, 0⟩) (momentum R ⟨0, 0, 1 / 2, 0, -1⟩)
    (charge R ⟨0, 0, 1 / 2, 0, -1⟩) ⟨0, 0, 0⟩ = ⟨0, 0, 1 / 2, 0, -1⟩ := by
  apply fromPhysics_roundtrip
  · norm_num
  · norm_num
  · exact twoPi_pos

end Pybes3Verif.Helix
