/-
FinalTie — `AsCustom.final_array` of the installed uproot-custom (third-party code that `Bes3Interpretation.final_array` delegates to),
translated statement by statement on every run (`Gen/FinalPy.lean`), is the model `FinalArray.finalArray` that the theorems of C02 are
about.  (`tot[x : y]` with `x = a - base`, `y = b - base` is `drop x |> take (y - x)`; `y - x = b - a` because `base ≤ a ≤ b`: the model
states the slice directly with `b - a`, which the C02 theorems justify under their hypothesis `a < b`.)
-/
import Pybes3Verif.Gen.FinalPy

namespace Pybes3Verif.Gen.FinalPy
open Pybes3Verif.FinalArray

/-- the translated third-party method is the model, for every basket layout and every interval -/
theorem finalArrayPy_eq {ε : Type} (baskets : List (List ε)) (a b : Nat) : finalArrayPy baskets a b = finalArray baskets a b := rfl

/-- a three-basket layout with an empty basket in the middle, interval inside the last basket -/
example : finalArrayPy [[1, 2, 3], [], [4, 5, 6, 7]] 4 6 = some [5, 6] := by decide

end Pybes3Verif.Gen.FinalPy
