import Pybes3Verif.Proofs.CacheLemmas
/-!
C17 : numba cache invalidation (DESIGN.md §6 C17).
Subject: `Model.Cache` (`cache_auto_clear`, `check_numba_cache`, `clear_numba_cache` + numba's on-disk cache).

`check_numba_cache` only inspects the globs of the `nTables` known tables.  The statements that speak about *all*
cache files therefore carry the hypothesis that every file (resp. every first use in the history) belongs to a
known table: `hT` below (`TablesKnown`, `OpsKnown` are defined in `Proofs/CacheLemmas.lean`, where the drafts
without this hypothesis are refuted: `complete_check_mtime_fresh_unrestricted_false`,
`reachable_then_check_fresh_unrestricted_false`).
-/
namespace Pybes3Verif.Cache

/-! ### Group Y — C17 : numba cache invalidation -/

/-- an uninterrupted import-time check leaves no cache file older than its table
(`hT`: every cache file belongs to one of the `nTables` tables the check knows about — same hypothesis as in
`force_clears_all`; without it the statement is false, see `complete_check_mtime_fresh_unrestricted_false`) -/
theorem complete_check_mtime_fresh (s : St) (hT : ∀ f ∈ s.files, f.table < nTables) :
    MtimeFresh (step s (.importCheck none)) := by
  intro f hf
  rw [step_importCheck_files] at hf
  rw [step_importCheck_tableMtime]
  exact sweep_none_fresh s f hf (hT f (sweep_subset _ _ _ f hf))

/-- when every cache is at least as new as its table nothing is removed -/
theorem fresh_untouched (s : St) (h : MtimeFresh s) (crash : Option Nat) :
    (step s (.importCheck crash)).files = s.files := by
  rw [step_importCheck_files]
  exact sweep_fresh_id s crash h

/-- a forced clear removes every cache file of both tables -/
theorem force_clears_all (s : St) (h : ∀ f ∈ s.files, f.table < nTables) : (step s .forceClear).files = [] := by
  rw [step_forceClear_files]
  exact sweep_force_empty s h

/-- an interrupted check only removes files -/
theorem interrupted_subset (s : St) (crash : Option Nat) :
    ∀ f ∈ (step s (.importCheck crash)).files, f ∈ s.files := by
  intro f hf
  rw [step_importCheck_files] at hf
  exact sweep_subset _ _ _ f hf

/-- for every history of table updates, process starts, loads, first uses, (possibly interrupted) checks and
forced clears, the state after the next complete check has no cache older than its table
(`hT`: every first use in the history is a kernel of a known table; without it the statement is false, see
`reachable_then_check_fresh_unrestricted_false`) -/
theorem reachable_then_check_fresh (ops : List Op)
    (hT : ∀ p t k sg, Op.firstUse p t k sg ∈ ops → t < nTables) :
    MtimeFresh (step (run ops) (.importCheck none)) :=
  complete_check_mtime_fresh (run ops) (tablesKnown_run ops hT)

/-- a history is *atomic* when no process compiles from a table version older than the current one, i.e. no
table update falls between a process loading a table and that process's first use of a kernel whose data
file for that argument signature is absent -/
def AtomicFirstUse : St → List Op → Prop
  | _, [] => True
  | s, op :: rest =>
    (match op with
     | .firstUse p t k sg =>
        (s.files.any (fun f => f.table == t && f.kernel == k && f.sig == some sg)) ∨
        (∀ pr, s.procs[p]? = some pr → ∀ v, lookupLoaded pr t = some v → v = s.tableVersion t)
     | _ => True) ∧ AtomicFirstUse (step s op) rest

/-- invariant linking what the code can see (mtimes) to what the property is about (content): every data
file (compiled kernel) built from an older table version is older than the table.  Index files carry no table
values - their `builtFrom` is meaningless - so nothing is said about them -/
def StaleIsOld (s : St) : Prop :=
  ∀ f ∈ s.files, f.isData = true → f.builtFrom ≠ s.tableVersion f.table → f.mtime < s.tableMtime f.table

theorem atomic_stale_is_old (ops : List Op) (h : AtomicFirstUse init ops) : StaleIsOld (run ops) := by
  have key : ∀ (ops : List Op) (s : St), Inv s → AtomicFirstUse s ops → Inv (ops.foldl step s) := by
    intro ops
    induction ops with
    | nil => intro s hi _; exact hi
    | cons op rest ih =>
      intro s hi ha
      simp only [List.foldl_cons]
      exact ih (step s op) (inv_step s op hi ha.1) ha.2
  exact (key ops init inv_init h).stale

/-- content-level statement of the property for atomic histories: after the next complete check every
surviving compiled kernel (data file) was compiled from the current table, so lookups return values of the current
tables (`hT`: every first use in the history is a kernel of a known table; without it the statement is false:
`[.spawn, .firstUse 0 2 0 0, .touchTable 2]` is atomic and leaves a stale cache of the unknown table 2, see
`Proofs/CacheCex.lean`) -/
theorem atomic_then_check_content_fresh (ops : List Op) (h : AtomicFirstUse init ops)
    (hT : ∀ p t k sg, Op.firstUse p t k sg ∈ ops → t < nTables) :
    ContentFresh (step (run ops) (.importCheck none)) := by
  intro f hf hd
  have hfresh := reachable_then_check_fresh ops hT f hf
  rw [step_importCheck_tableMtime] at hfresh
  rw [step_importCheck_tableVersion]
  have hmem := interrupted_subset (run ops) none f hf
  have hstale := atomic_stale_is_old ops h f hmem hd
  apply Classical.byContradiction
  intro hne
  exact absurd (hstale hne) (Nat.not_lt.mpr hfresh)

/-- the full-strength statement (no atomicity assumption) is FALSE: a process that loaded the table before an
update and first-uses a kernel after it writes a data file (and the kernel's index file) that is newer than the
table but built from the old one, and the next check keeps it (recorded as a known finding and replayed on the real
code) -/
def witnessOps : List Op := [.spawn, .load 0 0, .touchTable 0, .firstUse 0 0 7 0, .importCheck none]
theorem content_fresh_fails_without_atomicity : ¬ ContentFresh (run witnessOps) := by
  intro h
  have := h ⟨0, 7, some 0, 4, 0⟩ (by decide) rfl
  revert this
  decide

/-! ### Index files versus data files -/

/-- rewriting a kernel's index file (compiling the kernel for another signature) never hides an older data file: after the
next complete check no data file older than its table is left, whatever was compiled in between -/
theorem stale_data_not_hidden_by_index_rewrite (ops : List Op) (hT : ∀ p t k sg, Op.firstUse p t k sg ∈ ops → t < nTables) :
    ∀ f ∈ (step (run ops) (.importCheck none)).files, f.isData = true →
      (step (run ops) (.importCheck none)).tableMtime f.table ≤ f.mtime :=
  fun f hf _ => reachable_then_check_fresh ops hT f hf

/-- process 0 compiles kernel 1 for signature 0; the table is replaced; a new process compiles the same kernel for signature 1
(the index file is rewritten and is now newer than the table, the first data file is still the old one): the next check
removes all three files -/
theorem index_rewrite_example :
    (run [.spawn, .firstUse 0 0 1 0, .touchTable 0, .spawn, .firstUse 1 0 1 1, .importCheck none]).files = [] := by decide

/-- just before that check: the table was replaced at time 3; the kernel's index file was rewritten at time 5 and is
NEWER than the table, the data file of signature 0 (time 2, built from table version 0, table now at version 1) is
OLDER, the data file of signature 1 is new and current.  A criterion looking at index files only would keep
everything, including the stale data file; the glob `*.nb[ci]` + minimum-mtime criterion of the code sees the old
data file. -/
example :
    let s := run [.spawn, .firstUse 0 0 1 0, .touchTable 0, .spawn, .firstUse 1 0 1 1]
    s.files = [⟨0, 1, none, 5, 0⟩, ⟨0, 1, some 0, 2, 0⟩, ⟨0, 1, some 1, 5, 1⟩] ∧
    s.tableMtime 0 = 3 ∧ s.tableVersion 0 = 1 ∧
    (∀ f ∈ s.files, f.isData = false → s.tableMtime f.table ≤ f.mtime) ∧
    (∃ f ∈ s.files, f.isData = true ∧ f.mtime < s.tableMtime f.table ∧ f.builtFrom ≠ s.tableVersion f.table) := by
  decide

end Pybes3Verif.Cache
