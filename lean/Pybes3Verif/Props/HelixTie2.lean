/-
HelixTie2 — the *translated* property code of `/repo/src/pybes3/tracks/helix.py` (`Gen/HelixProps.lean`, regenerated from the
source text by `tools/translate/helixprops.py`: the `@nb.vectorize` kernels, `HelixObject.position / momentum / charge`,
`_compute_momentum`, `_compute_position`, the same properties of `HelixAwkwardRecord` = `HelixAwkwardArray`, and the "given
momentum, position and charge" branch of `helix_obj` / `helix_awk`) is, over ℝ, the hand-written model
`Model/Helix.lean::position / momentum / charge / radius / fromPhysics` that the theorems of C13 are about.

No hypothesis is needed: every statement holds for ALL arguments (at κ = 0 or pt = 0 both sides contain the same totalised
division, so the equality is still literally true; the property theorems carry their own hypotheses).

Proof style: split the result into its components, unfold both sides down to real arithmetic (`tie_unfold`), close with
`ring_nf`.  If the source and the model are the same expression the unfolding already closes the goal; a harmless
re-association / commutation in the source (`np.cos(phi0) * dr`) is seen through by `ring_nf`; a change of the real-number
meaning leaves an unprovable goal and breaks this file.
-/
import Pybes3Verif.Proofs.HelixA
import Pybes3Verif.Gen.HelixProps

namespace Pybes3Verif.Helix
open Real

local notation "R" => realOps

set_option linter.unusedSimpArgs false

theorem R_eps : realOps.eps = 1 / 10000000000 := rfl

/-- a 3-vector is its components -/
theorem vec3_ext {a b : Vec3 ℝ} (hx : a.x = b.x) (hy : a.y = b.y) (hz : a.z = b.z) : a = b := by
  cases a; cases b; simp only [Vec3.mk.injEq]; exact ⟨hx, hy, hz⟩

/-- a (pt, phi, pz) triple is its components -/
theorem trip_ext {a b : ℝ × ℝ × ℝ} (h1 : a.1 = b.1) (h2 : a.2.1 = b.2.1) (h3 : a.2.2 = b.2.2) : a = b :=
  Prod.ext h1 (Prod.ext h2 h3)

/-- unfold the translated definitions, the model and the real-number operations -/
local macro "tie_unfold" : tactic => `(tactic| simp only [
  Py.k_dr_phi0_to_x, Py.k_dr_phi0_to_y, Py.k_phi0_to_phi, Py.k_kappa_to_pt, Py.k_kappa_to_charge, Py.k_kappa_to_radius,
  Py.k_fix_dr_sign, Py.computeMomentum, Py.computePosition,
  Py.objRadius, Py.objMomentum, Py.objPosition, Py.objCharge,
  Py.awkMomentum, Py.awkPosition, Py.awkCharge, Py.awkRadius, Py.objFromPhysics, Py.awkFromPhysics,
  position, momentum, charge, radius, fromPhysics, pmod, twoPi, vecRho, vecPhi,
  R_add, R_sub, R_mul, R_div, R_neg, R_abs, R_sqrt, R_cos, R_sin, R_atan2, R_floor, R_pi, R_zero, R_one, R_two, R_alpha,
  R_eps, R_lt])

/-- unfold, then (if anything is left) normalise the real arithmetic on both sides -/
local macro "tie" : tactic => `(tactic| (tie_unfold <;> ring_nf))

/-- `HelixObject.position` (source) = the model's `position`: pivot + (dr cos φ0, dr sin φ0, dz) -/
theorem py_obj_position (h : Params ℝ) (p : Vec3 ℝ) : Py.objPosition R h p = position R h p := by
  apply vec3_ext <;> tie

/-- `HelixAwkwardRecord.position` = `HelixAwkwardArray.position` (through `_compute_position` and the kernels
`dr_phi0_to_x`, `dr_phi0_to_y`) = the model's `position` -/
theorem py_awk_position (h : Params ℝ) (p : Vec3 ℝ) : Py.awkPosition R h p = position R h p := by
  apply vec3_ext <;> tie

/-- `HelixObject.momentum` as (pt, phi, pz) = the model's `momentum` -/
theorem py_obj_momentum (h : Params ℝ) : Py.objMomentum R h = momentum R h := by
  apply trip_ext <;> tie

/-- `HelixAwkward*.momentum` (through `_compute_momentum`, `kappa_to_pt`, `phi0_to_phi`) = the model's `momentum` -/
theorem py_awk_momentum (h : Params ℝ) : Py.awkMomentum R h = momentum R h := by
  apply trip_ext <;> tie

/-- `HelixObject.charge` = the model's `charge` (+1 / −1 / 0 with the 1e-10 dead zone) -/
theorem py_obj_charge (h : Params ℝ) : Py.objCharge R h = charge R h := by
  tie

/-- `HelixAwkward*.charge` (kernel `kappa_to_charge`) = the model's `charge` -/
theorem py_awk_charge (h : Params ℝ) : Py.awkCharge R h = charge R h := by
  tie

/-- `HelixObject.radius` = the model's `radius` (also covered, through `radiusPy`, by `HelixTie`) -/
theorem py_obj_radius (h : Params ℝ) : Py.objRadius R h = radius R h.kappa := by
  tie

/-- `HelixAwkward*.radius` (kernel `kappa_to_radius`) = the model's `radius` -/
theorem py_awk_radius (h : Params ℝ) : Py.awkRadius R h = radius R h.kappa := by
  tie

/-- `helix_obj(momentum=…, position=…, charge=…, pivot=…)` (the `if np.cos(dist.phi - phi0) < 0: dr *= -1` form) =
the model's `fromPhysics` -/
theorem py_obj_fromPhysics (pos : Vec3 ℝ) (mom : ℝ × ℝ × ℝ) (q : ℝ) (p : Vec3 ℝ) :
    Py.objFromPhysics R pos mom q p = fromPhysics R pos mom q p := by
  apply params_ext <;> tie

/-- `helix_awk(momentum=…, position=…, charge=…, pivot=…)` (the `_fix_dr_sign` kernel form; `res_dict` wiring checked
by the translator) = the model's `fromPhysics` -/
theorem py_awk_fromPhysics (pos : Vec3 ℝ) (mom : ℝ × ℝ × ℝ) (q : ℝ) (p : Vec3 ℝ) :
    Py.awkFromPhysics R pos mom q p = fromPhysics R pos mom q p := by
  apply params_ext <;> tie

/-- consequently the object and the record/array form of the source agree with each other on every input -/
theorem py_obj_eq_awk_fromPhysics (pos : Vec3 ℝ) (mom : ℝ × ℝ × ℝ) (q : ℝ) (p : Vec3 ℝ) :
    Py.objFromPhysics R pos mom q p = Py.awkFromPhysics R pos mom q p := by
  rw [py_obj_fromPhysics, py_awk_fromPhysics]

/-- non-vacuity: the tie is about a real computation - a track at (3, 4, 5) seen from the origin has dz = 5 -/
example : (Py.objFromPhysics R ⟨3, 4, 5⟩ (1, π / 2, 1) 1 ⟨0, 0, 0⟩).dz = 5 := by
  rw [py_obj_fromPhysics]; simp only [fromPhysics, R_sub]; norm_num

end Pybes3Verif.Helix
