/-
HelixTie2 — the *translated* property code of `/repo/src/pybes3/tracks/helix.py` (`Gen/HelixProps.lean`, regenerated from the
source text by `tools/translate/helixprops.py`: the `@nb.vectorize` kernels, `HelixObject.position / momentum / charge`,
`_compute_momentum`, `_compute_position`, the same properties of `HelixAwkwardRecord` = `HelixAwkwardArray`, and the "given
momentum, position and charge" branch of `helix_obj` / `helix_awk`) is, over ℝ, the hand-written model
`Model/Helix.lean::position / momentum / charge / radius / fromPhysics` that the theorems of C13 are about.

No hypothesis is needed: every statement holds for ALL arguments (at κ = 0 or pt = 0 both sides contain the same totalised
division, so the equality is still literally true; the property theorems carry their own hypotheses).

Proof style: split the result into its components, unfold both sides down to real arithmetic (`tie_unfold`), close with
`ring_nf`.  If the source and the model are the same expression the unfolding already closes the goal; a harmless
re-association / commutation in the source (`np.cos(phi0) * dr`) is seen through by `ring_nf`; a change of the real-number
meaning leaves an unprovable goal and breaks this file.
-/
import Pybes3Verif.Proofs.HelixA
import Pybes3Verif.Gen.HelixProps
import Pybes3Verif.Props.HelixTie

namespace Pybes3Verif.Helix
open Real

local notation "R" => realOps

set_option linter.unusedSimpArgs false

theorem R_eps : realOps.eps = 1 / 10000000000 := rfl

/-- a 3-vector is its components -/
theorem vec3_ext {a b : Vec3 ℝ} (hx : a.x = b.x) (hy : a.y = b.y) (hz : a.z = b.z) : a = b := by
  cases a; cases b; simp only [Vec3.mk.injEq]; exact ⟨hx, hy, hz⟩

/-- a (pt, phi, pz) triple is its components -/
theorem trip_ext {a b : ℝ × ℝ × ℝ} (h1 : a.1 = b.1) (h2 : a.2.1 = b.2.1) (h3 : a.2.2 = b.2.2) : a = b :=
  Prod.ext h1 (Prod.ext h2 h3)

/-- unfold the translated definitions, the model and the real-number operations -/
local macro "tie_unfold" : tactic => `(tactic| simp only [
  Py.k_dr_phi0_to_x, Py.k_dr_phi0_to_y, Py.k_phi0_to_phi, Py.k_kappa_to_pt, Py.k_kappa_to_charge, Py.k_kappa_to_radius,
  Py.k_fix_dr_sign, Py.computeMomentum, Py.computePosition,
  Py.objRadius, Py.objMomentum, Py.objPosition, Py.objCharge,
  Py.awkMomentum, Py.awkPosition, Py.awkCharge, Py.awkRadius, Py.objFromPhysics, Py.awkFromPhysics,
  position, momentum, charge, radius, fromPhysics, pmod, twoPi, vecRho, vecPhi,
  R_add, R_sub, R_mul, R_div, R_neg, R_abs, R_sqrt, R_cos, R_sin, R_atan2, R_floor, R_pi, R_zero, R_one, R_two, R_alpha,
  R_eps, R_lt])

/-- unfold, then (if anything is left) normalise the real arithmetic on both sides -/
local macro "tie" : tactic => `(tactic| (tie_unfold <;> ring_nf))

/-- `HelixObject.position` (source) = the model's `position`: pivot + (dr cos φ0, dr sin φ0, dz) -/
theorem py_obj_position (h : Params ℝ) (p : Vec3 ℝ) : Py.objPosition R h p = position R h p := by
  apply vec3_ext <;> tie

/-- `HelixAwkwardRecord.position` = `HelixAwkwardArray.position` (through `_compute_position` and the kernels
`dr_phi0_to_x`, `dr_phi0_to_y`) = the model's `position` -/
theorem py_awk_position (h : Params ℝ) (p : Vec3 ℝ) : Py.awkPosition R h p = position R h p := by
  apply vec3_ext <;> tie

/-- `HelixObject.momentum` as (pt, phi, pz) = the model's `momentum` -/
theorem py_obj_momentum (h : Params ℝ) : Py.objMomentum R h = momentum R h := by
  apply trip_ext <;> tie

/-- `HelixAwkward*.momentum` (through `_compute_momentum`, `kappa_to_pt`, `phi0_to_phi`) = the model's `momentum` -/
theorem py_awk_momentum (h : Params ℝ) : Py.awkMomentum R h = momentum R h := by
  apply trip_ext <;> tie

/-- `HelixObject.charge` = the model's `charge` (+1 / −1 / 0 with the 1e-10 dead zone) -/
theorem py_obj_charge (h : Params ℝ) : Py.objCharge R h = charge R h := by
  tie

/-- `HelixAwkward*.charge` (kernel `kappa_to_charge`) = the model's `charge` -/
theorem py_awk_charge (h : Params ℝ) : Py.awkCharge R h = charge R h := by
  tie

/-- `HelixObject.radius` = the model's `radius` (also covered, through `radiusPy`, by `HelixTie`) -/
theorem py_obj_radius (h : Params ℝ) : Py.objRadius R h = radius R h.kappa := by
  tie

/-- `HelixAwkward*.radius` (kernel `kappa_to_radius`) = the model's `radius` -/
theorem py_awk_radius (h : Params ℝ) : Py.awkRadius R h = radius R h.kappa := by
  tie

/-- `helix_obj(momentum=…, position=…, charge=…, pivot=…)` (the `if np.cos(dist.phi - phi0) < 0: dr *= -1` form) =
the model's `fromPhysics` -/
theorem py_obj_fromPhysics (pos : Vec3 ℝ) (mom : ℝ × ℝ × ℝ) (q : ℝ) (p : Vec3 ℝ) :
    Py.objFromPhysics R pos mom q p = fromPhysics R pos mom q p := by
  apply params_ext <;> tie

/-- `helix_awk(momentum=…, position=…, charge=…, pivot=…)` (the `_fix_dr_sign` kernel form; `res_dict` wiring checked
by the translator) = the model's `fromPhysics` -/
theorem py_awk_fromPhysics (pos : Vec3 ℝ) (mom : ℝ × ℝ × ℝ) (q : ℝ) (p : Vec3 ℝ) :
    Py.awkFromPhysics R pos mom q p = fromPhysics R pos mom q p := by
  apply params_ext <;> tie

/-- consequently the object and the record/array form of the source agree with each other on every input -/
theorem py_obj_eq_awk_fromPhysics (pos : Vec3 ℝ) (mom : ℝ × ℝ × ℝ) (q : ℝ) (p : Vec3 ℝ) :
    Py.objFromPhysics R pos mom q p = Py.awkFromPhysics R pos mom q p := by
  rw [py_obj_fromPhysics, py_awk_fromPhysics]

/-- non-vacuity: the tie is about a real computation - a track at (3, 4, 5) seen from the origin has dz = 5 -/
example : (Py.objFromPhysics R ⟨3, 4, 5⟩ (1, π / 2, 1) 1 ⟨0, 0, 0⟩).dz = 5 := by
  rw [py_obj_fromPhysics]; simp only [fromPhysics, R_sub]; norm_num

/-! ### the closeness test (`_obj_isclose`, `_arr_isclose`, the three public `isclose` methods)

Per track the array helper gives exactly the verdict of the single-track helper: both move the other helix to `self`'s pivot
(`changePivotWiredObj` = `changePivotWiredArr`, `py_obj_eq_arr` of `Props/HelixTie.lean`), test the same five parameters and the
pivot distance with the same `(a, b)` roles in `|a − b| ≤ atol + rtol·|b|`, and compare the (propagated) error matrices under the
same condition "both helices carry one" (object helper: `_error_or_none(x) is not None`, array helper: `"error" in x.fields` -
the same `Option` in the model; `record_error_presence` pins the object helper to the form that is safe for records).  No hypothesis is needed for the equality (not even κ ≠ 0: both sides contain the same
terms).  Not modelled: NaN / `equal_nan` (no counterpart over `Ops`). -/

/-- unfold both helpers, identify the moved helix (`py_obj_eq_arr`), drop the array helper's initial `true &&`; what is left
(if anything: the two sources list the same tests in a different order) is closed by normalising `&&` up to associativity / commutativity (no idempotence: a test listed twice is not a test dropped) -/
local macro "isclose_tie" : tactic => `(tactic|
  (simp only [Py.objIsclosePyFull, Py.arrIsclosePyFull, py_obj_eq_arr, Bool.true_and] <;>
    simp only [Bool.and_assoc, Bool.and_comm, Bool.and_left_comm]))

/-- **array helper = object helper, per track**, error matrices (present or not) included -/
theorem py_iscloseFull_obj_eq_arr (rtol atol : ℝ) (h : Params ℝ) (p : Vec3 ℝ) (E : Option (Nat → Nat → ℝ))
    (h' : Params ℝ) (p' : Vec3 ℝ) (E' : Option (Nat → Nat → ℝ)) :
    Py.objIsclosePyFull R rtol atol h p E h' p' E' = Py.arrIsclosePyFull R rtol atol h p E h' p' E' := by
  isclose_tie

/-- the same for helices without error matrices (the statement asked for; `h'.kappa ≠ 0` turned out not to be needed) -/
theorem py_isclose_obj_eq_arr (rtol atol : ℝ) (h : Params ℝ) (p : Vec3 ℝ) (h' : Params ℝ) (p' : Vec3 ℝ) :
    Py.objIsclosePy R rtol atol h p h' p' = Py.arrIsclosePy R rtol atol h p h' p' := by
  simp only [Py.objIsclosePy, Py.arrIsclosePy, py_iscloseFull_obj_eq_arr]

/-- `HelixObject.isclose`, `HelixAwkwardRecord.isclose` and `HelixAwkwardArray.isclose` declare the same defaults
(`rtol = 1e-5`, `atol = 1e-8`, `equal_nan = False`) -/
theorem isclose_defaults_agree :
    Py.objIscloseDefaults = Py.recIscloseDefaults ∧ Py.recIscloseDefaults = Py.arrIscloseDefaults := by decide

/-- the single-track helper (used for records too) finds out whether a helix carries an error matrix through `_error_or_none`
(record: the `error` field iff it exists), not through the attribute `x.error`, which raises for a record without that field -
the defect fixed by `/repo` commit f321876; a regression to the attribute form makes this `false = true` -/
theorem record_error_presence : Py.objErrorPresenceViaField = true := by decide

/-- whichever helper a public method delegates to, the per-track verdict is that of the array helper -/
theorem iscloseVia_eq (k : Py.IscloseHelper) (rtol atol : ℝ) (h : Params ℝ) (p : Vec3 ℝ) (E : Option (Nat → Nat → ℝ))
    (h' : Params ℝ) (p' : Vec3 ℝ) (E' : Option (Nat → Nat → ℝ)) :
    Py.iscloseVia R k rtol atol h p E h' p' E' = Py.arrIsclosePyFull R rtol atol h p E h' p' E' := by
  cases k <;> simp only [Py.iscloseVia, py_iscloseFull_obj_eq_arr]

/-- the three public `isclose` methods (object; record, single- or multi-track; array) give the same verdict for a track -/
theorem py_isclose_methods_agree (m₁ m₂ m₃ : Bool) (rtol atol : ℝ) (h : Params ℝ) (p : Vec3 ℝ) (E : Option (Nat → Nat → ℝ))
    (h' : Params ℝ) (p' : Vec3 ℝ) (E' : Option (Nat → Nat → ℝ)) :
    Py.iscloseVia R (Py.objIscloseHelper m₁) rtol atol h p E h' p' E' = Py.iscloseVia R (Py.recIscloseHelper m₂) rtol atol h p E h' p' E' ∧
    Py.iscloseVia R (Py.recIscloseHelper m₂) rtol atol h p E h' p' E' = Py.iscloseVia R (Py.arrIscloseHelper m₃) rtol atol h p E h' p' E' := by
  simp only [iscloseVia_eq, and_self]

/-- `isclose(x, x)` holds for non-negative tolerances -/
theorem iscloseScalar_self (rtol atol x : ℝ) (hr : 0 ≤ rtol) (ha : 0 ≤ atol) : Py.iscloseScalar R rtol atol x x = true := by
  have hx : ¬ (atol + rtol * |x| < |x - x|) := by
    rw [sub_self, abs_zero]
    have := mul_nonneg hr (abs_nonneg x)
    linarith
  simp only [Py.iscloseScalar, R_lt, R_add, R_mul, R_abs, R_sub, decide_eq_false hx, Bool.not_false]

/-- the distance of a pivot to itself is 0 -/
theorem vecMag3_self (a b c : ℝ) : Py.vecMag3 R (realOps.sub a a) (realOps.sub b b) (realOps.sub c c) = 0 := by
  simp only [Py.vecMag3, R_sub, R_add, R_mul, R_sqrt, sub_self, mul_zero, add_zero, Real.sqrt_zero]

theorem ifBothErrors_none (b : Option (Nat → Nat → ℝ)) (f : (Nat → Nat → ℝ) → (Nat → Nat → ℝ) → Bool) (d : Bool) :
    Py.ifBothErrors none b f d = d := by
  cases b <;> rfl

/-- **sanity**: a helix in normal form (`Valid`: κ ≠ 0, φ0 ∈ [0, 2π), reference point on the near side of the circle — the
hypotheses of the identity move `cp_self` = `changePivot_self` of C11) is close to itself for any tolerances `0 ≤ rtol`, `0 ≤ atol`.
(`0 ≤ atol` is what the pivot test `isclose(|p − p|, 0)` needs.) -/
theorem isclose_refl (rtol atol : ℝ) (h : Params ℝ) (p : Vec3 ℝ) (hv : Valid h) (hr : 0 ≤ rtol) (ha : 0 ≤ atol) :
    Py.objIsclosePy R rtol atol h p h p = true := by
  obtain ⟨e1, e2, e3⟩ := py_obj_params h p p hv.kappa_ne
  rw [cp_self h p hv] at e1 e2 e3
  simp only [Py.objIsclosePy, Py.objIsclosePyFull, ifBothErrors_none, e1, e2, e3, vecMag3_self, R_zero,
    iscloseScalar_self _ _ _ hr ha, Bool.and_self]

/-- … and so says the array helper -/
theorem isclose_refl_arr (rtol atol : ℝ) (h : Params ℝ) (p : Vec3 ℝ) (hv : Valid h) (hr : 0 ≤ rtol) (ha : 0 ≤ atol) :
    Py.arrIsclosePy R rtol atol h p h p = true := by
  rw [← py_isclose_obj_eq_arr]; exact isclose_refl rtol atol h p hv hr ha

/-- the hypotheses are satisfiable (`exHelixPos` of `Proofs/HelixA.lean`), with numpy's default tolerances -/
example : Py.objIsclosePy R (1 / 100000) (1 / 100000000) exHelixPos ⟨1, 2, 3⟩ exHelixPos ⟨1, 2, 3⟩ = true :=
  isclose_refl _ _ _ _ exHelixPos_valid (by norm_num) (by norm_num)

/-- the test is not vacuous: a helix whose `tanl` differs by 1 is not close at the default tolerances -/
example : Py.iscloseScalar R (1 / 100000) (1 / 100000000) (2 : ℝ) 1 = false := by
  have hx : (1 / 100000000 : ℝ) + 1 / 100000 * |(1 : ℝ)| < |(2 : ℝ) - 1| := by norm_num
  simp only [Py.iscloseScalar, R_lt, R_add, R_mul, R_abs, R_sub, decide_eq_true hx, Bool.not_true]

end Pybes3Verif.Helix
