import Pybes3Verif.Proofs.FinalArrayLemmas
/-!
C02 : entry ranges, chunking, basket layout (DESIGN.md §6 C02).
Subject: `Model.FinalArray` (`finalArray`, `readerOut`, `toEvents`, `concatOffsets`, `chunks`).
-/

/-! ### Group V — C02 : entry ranges, chunking, basket layout -/
namespace Pybes3Verif.FinalArray
variable {ε α : Type}

/-- reading a non-empty entry interval returns exactly the corresponding slice of the full read, whatever
the basket layout (empty baskets allowed anywhere) -/
theorem finalArray_eq_slice (baskets : List (List ε)) (a b : Nat) (hab : a < b) (hb : b ≤ baskets.flatten.length) :
    finalArray baskets a b = some ((baskets.flatten.drop a).take (b - a)) := by
  have hn : 0 < baskets.length := by
    cases baskets with
    | nil => simp at hb; omega
    | cons _ _ => simp
  have hsl : (entryOffsets baskets).dropLast.length = baskets.length := by
    simp [entryOffsets_length]
  have htl : (entryOffsets baskets).tail.length = baskets.length := by
    simp [entryOffsets_length]
  unfold finalArray
  simp only
  cases h0 : lastIdx (fun s => decide (s ≤ a)) (entryOffsets baskets).dropLast with
  | none =>
    exfalso
    have := lastIdx_none _ _ h0 0 (by omega)
    rw [starts_getD _ _ hn, pre_zero] at this
    simp at this
  | some i0 =>
    cases h1 : firstIdx (fun s => decide (b ≤ s)) (entryOffsets baskets).tail with
    | none =>
      exfalso
      have := firstIdx_none _ _ h1 (baskets.length - 1) (by omega)
      rw [stops_getD _ _ (by omega), show baskets.length - 1 + 1 = baskets.length by omega,
        pre_length] at this
      have := of_decide_eq_false this
      omega
    | some i1 =>
      obtain ⟨hi0, hp0⟩ := lastIdx_some _ _ _ h0
      obtain ⟨hi1, hp1⟩ := firstIdx_some _ _ _ h1
      rw [hsl] at hi0
      rw [htl] at hi1
      rw [starts_getD _ _ hi0] at hp0
      rw [stops_getD _ _ hi1] at hp1
      have hp0' : pre baskets i0 ≤ a := by simpa using hp0
      have hp1' : b ≤ pre baskets (i1 + 1) := by simpa using hp1
      have hle : i0 ≤ i1 + 1 := by
        apply Nat.le_of_not_lt
        intro hlt
        have := pre_split baskets (i1 + 1) i0 (by omega)
        omega
      have hle' : i0 ≤ i1 := by
        rcases Nat.lt_or_ge i1 i0 with hlt | hge
        · have : i0 = i1 + 1 := by omega
          subst this
          omega
        · exact hge
      show (if i1 < i0 then none else some _) = _
      rw [if_neg (show ¬ i1 < i0 by omega), starts_getD _ _ hi0]
      have hsplit := pre_split baskets i0 (i1 + 1) hle
      conv => rhs; rw [flatten_split baskets i0 (i1 + 1) hle]
      rw [slice_mid _ _ _ a b hp0' (by omega) (by unfold pre at *; omega)]
      rfl

/-- hence two partitions of the same events into consecutive baskets give the same result -/
theorem partition_invariant (b1 b2 : List (List ε)) (h : b1.flatten = b2.flatten) (a b : Nat) (hab : a < b)
    (hb : b ≤ b1.flatten.length) : finalArray b1 a b = finalArray b2 a b := by
  rw [finalArray_eq_slice b1 a b hab hb, finalArray_eq_slice b2 a b hab (h ▸ hb), h]

/-- the excluded point: an empty interval on a basket boundary has no basket range (the reason the property
demands a non-empty interval) -/
example : finalArray [[1, 2], [3]] 2 2 = (none : Option (List Nat)) := by decide

/-- a fresh per-basket reader's (offsets, content) represents exactly the events it read -/
theorem toEvents_readerOut (events : List (List α)) : toEvents (readerOut events) = events := by
  unfold toEvents
  rw [readerOut_fst, readerOut_snd, entryOffsets_length, Nat.add_sub_cancel]
  conv => rhs; rw [← slices_eq events]
  apply List.map_congr_left
  intro i hi
  have hi' := List.mem_range.1 hi
  rw [entryOffsets_getD _ _ (by omega), entryOffsets_getD _ _ (by omega)]

/-- … and equals what a single reader over all events returns -/
theorem concatOffsets_readerOut (e1 e2 : List (List α)) :
    concatOffsets (readerOut e1) (readerOut e2) = readerOut (e1 ++ e2) := by
  unfold concatOffsets
  apply Prod.ext
  · show (readerOut e1).1 ++ ((readerOut e2).1.tail.map (· + (readerOut e1).1.getLast!)) = _
    have hne : (readerOut e1).1 ≠ [] := by
      intro h
      have := entryOffsets_length e1
      rw [← readerOut_fst, h] at this
      simp at this
    have h2 : (readerOut e2).1 = [0] ++ (List.range e2.length).map (fun i => 0 + pre e2 (i + 1)) :=
      foldl_offs e2 [0] 0 (by simp) rfl
    have h12 : (readerOut (e1 ++ e2)).1 = (readerOut e1).1 ++
        (List.range e2.length).map (fun i => (readerOut e1).1.getLast! + pre e2 (i + 1)) := by
      show (e1 ++ e2).foldl _ [0] = _
      rw [List.foldl_append]
      exact foldl_offs e2 _ _ hne rfl
    rw [h12, h2]
    congr 1
    simp only [List.singleton_append, List.tail_cons, List.map_map]
    apply List.map_congr_left
    intro i _
    simp only [Function.comp]
    omega
  · show (readerOut e1).2 ++ (readerOut e2).2 = (readerOut (e1 ++ e2)).2
    simp [readerOut_snd]

/-- concatenating two baskets' reader outputs (offsets re-based) represents the concatenated events -/
theorem toEvents_concatOffsets (e1 e2 : List (List α)) :
    toEvents (concatOffsets (readerOut e1) (readerOut e2)) = e1 ++ e2 := by
  rw [concatOffsets_readerOut, toEvents_readerOut]

/-- reading in chunks of any size k ≥ 1 and concatenating gives the full read -/
theorem chunks_concat (l : List ε) (k : Nat) (hk : 1 ≤ k) :
    ((chunks l.length k).map (fun ab => (l.drop ab.1).take (ab.2 - ab.1))).flatten = l := by
  unfold chunks
  rw [List.map_map]
  refine Eq.trans (chunk_take l k ((l.length + k - 1) / k)) ?_
  rw [List.take_of_length_le (div_mul_ge _ _ hk)]

/-- every chunk is a non-empty interval inside the file (so `finalArray_eq_slice` applies to it) -/
theorem chunks_valid (n k : Nat) (hk : 1 ≤ k) : ∀ ab ∈ chunks n k, ab.1 < ab.2 ∧ ab.2 ≤ n := by
  intro ab hab
  unfold chunks at hab
  obtain ⟨i, hi, rfl⟩ := List.mem_map.1 hab
  have hi' := List.mem_range.1 hi
  have h1 : (i + 1) * k ≤ (n + k - 1) / k * k := Nat.mul_le_mul_right k hi'
  have h2 : (n + k - 1) / k * k ≤ n + k - 1 := Nat.div_mul_le_self _ _
  have h3 : (i + 1) * k = i * k + k := Nat.succ_mul i k
  omega

/-- a per-event post-processing (e.g. lifting the raw-data base class of digis) commutes with trimming and
with concatenation -/
theorem postprocess_commutes (f : ε → α) (l : List ε) (a b : Nat) :
    ((l.drop a).take (b - a)).map f = ((l.map f).drop a).take (b - a) := by
  rw [List.map_take, List.map_drop]

end Pybes3Verif.FinalArray
