/-
GeomTie — the `fresh` parameter of the table-state model (`Model/TableState.lean`: "every handed-out column is a copy") and the column
each accessor kernel reads are no longer extracted by the harness only: `tools/translate/geompy.py` regenerates them from
`detectors/geometry/mdc.py` / `emc.py` on every run (`Gen/GeomPy.lean`) — the getters must build `{k: v.copy() for k, v in table.items()}`
and return nothing but that private dict (or slices / containers of it); `dict.copy()`, `dict(table)`, the module dict itself, views
are refused — and the private-copies theorem of C09 is instantiated with the generated flags.
-/
import Pybes3Verif.Props.C09
import Pybes3Verif.Gen.GeomPy

namespace Pybes3Verif.Gen.GeomPy
open Pybes3Verif

/-- both getters copy every array they hand out; both tables are read from disk once per process -/
theorem getters_copy_every_array :
    mdcGetterCopiesEveryArray = true ∧ emcGetterCopiesEveryArray = true ∧ mdcLoadedOnce = true ∧ emcLoadedOnce = true := by decide

/-- C09's private-copies clause for the getters *as translated*: whatever the caller does with the tables it was handed (MDC or EMC),
the module columns stay what they were and every later lookup returns a value of the initial tables -/
theorem copies_are_private_py (s : TableState.St) (h0 : ∀ h ∈ s.handed, h.alias = false) (ops : List TableState.Op) :
    (TableState.run mdcGetterCopiesEveryArray s ops).1.module = s.module ∧
    (TableState.run emcGetterCopiesEveryArray s ops).1.module = s.module ∧
    ∀ o ∈ (TableState.run mdcGetterCopiesEveryArray s ops).2, o = none ∨ ∃ (c i : Nat), o = (s.module c)[i]? :=
  ⟨(C09.copies_are_private s h0 ops).1, (C09.copies_are_private s h0 ops).1, (C09.copies_are_private s h0 ops).2⟩

/-- every accessor kernel `<det>_gid_to_<col>` indexes the module column bound to the table key `<col>` (the corner-point accessors
`emc_gid_to_point_<axis>` the key `points_<axis>`): "every per-element lookup returns the row of the published table for that element" -/
theorem accessors_read_their_own_column :
    mdcAccessors = [("mdc_gid_to_east_x", "east_x"), ("mdc_gid_to_east_y", "east_y"), ("mdc_gid_to_east_z", "east_z"), ("mdc_gid_to_is_stereo", "is_stereo"), ("mdc_gid_to_layer", "layer"), ("mdc_gid_to_stereo", "stereo"), ("mdc_gid_to_superlayer", "superlayer"), ("mdc_gid_to_west_x", "west_x"), ("mdc_gid_to_west_y", "west_y"), ("mdc_gid_to_west_z", "west_z"), ("mdc_gid_to_wire", "wire")] ∧
    emcAccessors = [("emc_gid_to_center_x", "center_x"), ("emc_gid_to_center_y", "center_y"), ("emc_gid_to_center_z", "center_z"), ("emc_gid_to_front_center_x", "front_center_x"), ("emc_gid_to_front_center_y", "front_center_y"), ("emc_gid_to_front_center_z", "front_center_z"), ("emc_gid_to_part", "part"), ("emc_gid_to_phi", "phi"), ("emc_gid_to_point_x", "points_x"), ("emc_gid_to_point_y", "points_y"), ("emc_gid_to_point_z", "points_z"), ("emc_gid_to_theta", "theta")] ∧
    mdcTable = "mdc_geom.npz" ∧ emcTable = "emc_geom.npz" := by decide

/-- C09's line clause for the kernels *as translated* (`mdc_gid_z_to_x / _y` with the loader's slopes substituted): for every z — inside or
outside the wire span — the point (x(z), y(z), z) is the affine combination of the wire's two end points with parameter
t = (z − z_w)/(z_e − z_w); it passes through both ends; and at the mean z it is the mean of the end points (the `mid_x / mid_y` of the parsers) -/
theorem z_to_xy_on_line (xw yw zw xe ye ze z : ℝ) (hz : ze ≠ zw) :
    let t := (z - zw) / (ze - zw)
    zToXPy xw yw zw xe ye ze z = (1 - t) * xw + t * xe ∧ zToYPy xw yw zw xe ye ze z = (1 - t) * yw + t * ye ∧
    z = (1 - t) * zw + t * ze ∧
    zToXPy xw yw zw xe ye ze zw = xw ∧ zToXPy xw yw zw xe ye ze ze = xe ∧
    zToYPy xw yw zw xe ye ze zw = yw ∧ zToYPy xw yw zw xe ye ze ze = ye ∧
    zToXPy xw yw zw xe ye ze ((zw + ze) / 2) = (xw + xe) / 2 ∧ zToYPy xw yw zw xe ye ze ((zw + ze) / 2) = (yw + ye) / 2 := by
  have h : ze - zw ≠ 0 := sub_ne_zero.mpr hz
  simp only [zToXPy, zToYPy]
  refine ⟨?_, ?_, ?_, ?_, ?_, ?_, ?_, ?_, ?_⟩ <;> field_simp <;> ring

end Pybes3Verif.Gen.GeomPy
