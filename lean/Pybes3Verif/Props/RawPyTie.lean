/-
RawPyTie — the Python side of the raw-file reader (`raw_io.py`: `_read`, `_skip`, `_preprocess_file`, `_read_batch`, `arrays`,
`_is_raw`, `concatenate`), *translated from the source on every run* (`Gen/RawPy.lean`, by `tools/translate/rawpy.py`), is the code
the hand-written models of C03 / C04 (`Model/RawFile.lean`, `Model/RawReader.lean`, `Model/RawConcat.lean`) are about:

* `_read()` is the model's little-endian `wordAt`; the flags compared against are the model's;
* the cursor program of `_preprocess_file` is `RawFile.preprocess`;
* one iteration of the loop of `_read_batch` is one unfolding of `RawFile.blockRanges`, the whole `for` loop consumes exactly the
  next `min n (#remaining blocks)` block ranges, and `fileBlocks` is the iteration of that step;
* the `while` loop of `arrays` is `RawReader.submitLoop`, `arrays` is `RawReader.arrays`;
* `_is_raw` / `concatenate` are `RawFile.concatModel`;
* the wiring facts the translator verified (cursor reset first, gather in submission order, empty batch, argument alignment and
  list order in `concatenate`) are part of the audited theorem list.
-/
import Pybes3Verif.Gen.RawPy
import Pybes3Verif.Model.RawConcat

namespace Pybes3Verif.Gen.RawPy
open Pybes3Verif.Raw Pybes3Verif.RawFile Pybes3Verif.RawReader

variable {β ε : Type}

/-- `_read()` = `int.from_bytes(self._file.read(4), "little")` at byte `pos` is the model's `wordAt` -/
theorem readWordPy_eq (file : List Nat) (pos : Nat) : readWordPy file pos = wordAt file pos := rfl

/-- `_read` reads 4 bytes little-endian, `_skip(n = 1)` moves by `4 * n` -/
theorem read_skip_units : wordBytes = 4 ∧ littleEndian = true ∧ skipUnit = 4 ∧ skipDefault = 1 := by decide

/-- the members of `BesFlag` the Python framing compares against are the model's constants -/
theorem flags_agree :
    flag_FILE_START = FILE_START ∧ flag_FILE_NAME = FILE_NAME ∧ flag_RUN_PARAMS = RUN_PARAMS ∧
    flag_FILE_TAIL_START = FILE_TAIL_START ∧ flag_FILE_END = FILE_END ∧ flag_DATA_SEPERATOR = DATA_SEPERATOR ∧
    flag_FULL_EVENT_FRAGMENT = FULL_EVENT := by decide

/-- the cursor program of `_preprocess_file` (symbolically executed from the source) is the model's `preprocess`, on every byte
string -/
theorem preprocessPy_eq (file : List Nat) : preprocessPy file = preprocess file := rfl

/-- one iteration of the loop body of `_read_batch` is one unfolding of the model's block walk: a failed assertion fails the walk,
the `break` (position `≥ data_end`, asserted `= data_end`) ends it, a consumed block contributes its byte range `(pos, pos')` -/
theorem blockRanges_step (file : List Nat) (dataEnd fuel pos : Nat) :
    blockRanges file dataEnd (fuel + 1) pos =
      match readBlockStepPy file dataEnd pos with
      | none => none
      | some none => some []
      | some (some pos') => (blockRanges file dataEnd fuel pos').map ((pos, pos') :: ·) := by
  simp only [blockRanges, readBlockStepPy, readWordPy_eq, DATA_SEPERATOR, ge_iff_le, Nat.mul_comm 4]
  by_cases h1 : dataEnd ≤ pos
  · by_cases h2 : pos = dataEnd
    · simp only [if_pos h1, if_pos h2]
    · simp only [if_pos h1, if_neg h2]
  · by_cases h3 : wordAt file pos = 0x1234CCCC
    · simp only [if_neg h1, h3, ne_eq, not_true_eq_false, if_false]
      cases blockRanges file dataEnd fuel (pos + 16 + wordAt file (pos + 12) / 4 * 4) <;> rfl
    · simp only [if_neg h1, ne_eq, h3, not_false_eq_true, if_true]

/-- the step moves the cursor by the four header words of the block plus `block_size // 4` words -/
theorem readBlockStepPy_consumes (file : List Nat) (dataEnd pos pos' : Nat) (h : readBlockStepPy file dataEnd pos = some (some pos')) :
    pos < dataEnd ∧ wordAt file pos = DATA_SEPERATOR ∧ pos' = pos + 16 + wordAt file (pos + 12) / 4 * 4 := by
  simp only [readBlockStepPy, readWordPy_eq, ge_iff_le, Nat.mul_comm 4] at h
  split at h
  · split at h <;> cases h
  · split at h
    · cases h
    · cases h
      refine ⟨by omega, ?_, rfl⟩
      rename_i _ hf
      exact Decidable.of_not_not hf

/-- the `for _ in range(n)` loop of `_read_batch`, started where the model's walk finds the block ranges `rs`: it consumes exactly
`min n rs.length` blocks (the counter goes up by that much), fails no assertion, and leaves the cursor where the walk of the
remaining ranges `rs.drop (min n rs.length)` starts -/
theorem readBatchPy_of_blockRanges (file : List Nat) (dataEnd : Nat) :
    ∀ (n fuel pos c : Nat) (rs : List (Nat × Nat)), blockRanges file dataEnd fuel pos = some rs →
      ∃ posEnd, readBatchPy file dataEnd n pos c = some (posEnd, c + min n rs.length) ∧
        blockRanges file dataEnd (fuel - min n rs.length) posEnd = some (rs.drop (min n rs.length))
  | 0, fuel, pos, c, rs, h => ⟨pos, by simp only [readBatchPy, Nat.zero_min, Nat.add_zero], by simpa using h⟩
  | n + 1, 0, pos, c, rs, h => by simp [blockRanges] at h
  | n + 1, fuel + 1, pos, c, rs, h => by
    rw [blockRanges_step] at h
    unfold readBatchPy
    cases hs : readBlockStepPy file dataEnd pos with
    | none => rw [hs] at h; cases h
    | some o =>
      rw [hs] at h
      cases o with
      | none =>
        cases h
        exact ⟨pos, by simp, by simp [blockRanges_step, hs]⟩
      | some pos' =>
        simp only [Option.map_eq_some_iff] at h
        obtain ⟨rest, hrest, rfl⟩ := h
        obtain ⟨posEnd, h1, h2⟩ := readBatchPy_of_blockRanges file dataEnd n fuel pos' (c + 1) rest hrest
        refine ⟨posEnd, ?_, ?_⟩
        · simp only [h1, List.length_cons, Nat.succ_min_succ]
          congr 2; omega
        · simp only [List.length_cons, Nat.succ_min_succ, List.drop_succ_cons]
          rw [show fuel + 1 - (min n rest.length + 1) = fuel - min n rest.length by omega]
          exact h2

/-- `fileBlocks` through the translated code: the translated `_preprocess_file`, then the walk that iterates the translated loop
body of `_read_batch` -/
theorem fileBlocks_eq_py (file : List Nat) :
    fileBlocks file =
      match preprocessPy file with
      | none => none
      | some lay =>
        match blockRanges file lay.dataEnd (file.length + 1) lay.dataStart with
        | none => none
        | some rs => some (rs.map (fun r => wordsOf file r.1 r.2)) := rfl

/-- the `while` loop of `arrays` (translated statement by statement, under `n_blocks == -1` and under `n_blocks ≥ 0`) is the model's
`submitLoop`, for all arguments -/
theorem submitLoopPy_eq (perBatch : Nat) (nBlocks : Option Nat) (fuel : Nat) (r : Reader β) (nRead : Nat) :
    submitLoopPy perBatch nBlocks fuel r nRead = submitLoop perBatch nBlocks fuel r nRead := by
  induction fuel generalizing r nRead with
  | zero => rfl
  | succ k ih =>
    cases nBlocks <;>
      simp only [submitLoopPy, submitLoop, ih, Bool.false_or, Bool.true_and, Bool.false_and, Bool.or_false, decide_eq_true_eq] <;> rfl

/-- `arrays` (cursor reset, loop from zero blocks read, empty batch when nothing was submitted, gather in submission order) is the
model's `arrays` -/
theorem arraysPy_eq (decode : List β → List ε) (perBatch : Nat) (nBlocks : Option Nat) (sched : List Nat) (fuel : Nat) (r : Reader β) :
    arraysPy decode perBatch nBlocks sched fuel r = RawReader.arrays decode perBatch nBlocks sched fuel r := by
  simp only [arraysPy, RawReader.arrays, submitLoopPy_eq]
  cases submitLoop perBatch nBlocks fuel { r with cursor := 0 } 0 with
  | none => rfl
  | some p =>
    obtain ⟨bs, r1⟩ := p
    cases bs <;> rfl

/-- `_is_raw` is the model's filter predicate -/
theorem isRawPy_eq (file : List Nat) : isRawPy file = (wordAt file 0 == FILE_START) := rfl

/-- the two spellings of "no file left is an error, else read every file and flatten" agree -/
private theorem concat_aux {α γ : Type} (g : α → Option (List γ)) (raws : List α) :
    (if raws.length = 0 then none else (raws.mapM (fun f => g f)).map List.flatten) =
      (if raws.isEmpty then none else (raws.mapM g).map List.flatten) := by
  cases raws <;> rfl

/-- `concatenate` on an explicit list of files is the model's `concatModel` -/
theorem concatPy_eq (sel : List Nat) (perBatch : Nat) (sched : List Nat) (files : List (List Nat)) :
    concatPy sel perBatch sched files = concatModel sel perBatch sched files :=
  concat_aux (arraysModel sel perBatch none sched) (files.filter (fun f => wordAt f 0 == FILE_START))

/-- what the translator verified about `_read_batch` around its loop: the batch is the uint32 view of the contiguous byte range
`[pos_start, pos_end)` and the cursor is left at `pos_end` -/
theorem read_batch_wiring : batchIsContiguousRange = true ∧ batchDtypeUint32 = true ∧ cursorAfterBatchAtPosEnd = true := by decide

/-- what the translator verified about `arrays` and `concatenate`: `_reset_cursor()` (= `seek(data_start)`) comes first; the futures
are gathered in list (= submission) order; an empty batch is decoded when nothing was read; every argument of
`reader.arrays(-1, …)` arrives in the parameter of the same name; the files are taken, filtered and concatenated in list order -/
theorem arrays_wiring :
    resetsCursorFirst = true ∧ gatherInSubmissionOrder = true ∧ emptyBatchWhenNothingRead = true ∧ concatArgsAligned = true ∧
    concatInListOrder = true := by decide

/-- non-vacuity: a block of two payload words at position 0 of a 24-byte data region is consumed by one step, the next step breaks -/
example : readBlockStepPy ([0xCC, 0xCC, 0x34, 0x12] ++ List.replicate 8 0 ++ [8, 0, 0, 0] ++ List.replicate 8 7) 24 0 = some (some 24) ∧
    readBlockStepPy ([0xCC, 0xCC, 0x34, 0x12] ++ List.replicate 8 0 ++ [8, 0, 0, 0] ++ List.replicate 8 7) 24 24 = some none ∧
    readBatchPy ([0xCC, 0xCC, 0x34, 0x12] ++ List.replicate 8 0 ++ [8, 0, 0, 0] ++ List.replicate 8 7) 24 5 0 0 = some (24, 1) := by decide

end Pybes3Verif.Gen.RawPy
