/-
RawPyTie — the Python side of the raw-file reader (`raw_io.py`: `_read`, `_skip`, `_preprocess_file`, `_read_batch`, `arrays`,
`_is_raw`, `concatenate`), *translated from the source on every run* (`Gen/RawPy.lean`, by `tools/translate/rawpy.py`), is the code
the hand-written models of C03 / C04 (`Model/RawFile.lean`, `Model/RawReader.lean`, `Model/RawConcat.lean`) are about:

* `_read()` is the model's little-endian `wordAt`; the flags compared against are the model's;
* the cursor program of `_preprocess_file` is `RawFile.preprocess`;
* one iteration of the loop of `_read_batch` is one unfolding of `RawFile.blockRanges`, the whole `for` loop consumes exactly the
  next `min n (#remaining blocks)` block ranges, and `fileBlocks` is the iteration of that step;
* the `while` loop of `arrays` is `RawReader.submitLoop`, `arrays` is `RawReader.arrays`;
* `_is_raw` / `concatenate` are `RawFile.concatModel`;
* `_raw_dict_to_ak` keeps the keys of the parser's dict in their order, builds for `mdc` / `tof` / `emc` / `muc` a list of records with
  the dict's column names in the dict's order over the unchanged offsets, for `evt_header` a record, for everything else a list of
  words, and drops / duplicates nothing;
* the wiring facts the translator verified (cursor reset first, gather in submission order, empty batch, argument alignment and
  list order in `concatenate`) are part of the audited theorem list.
-/
import Pybes3Verif.Gen.RawPy
import Pybes3Verif.Model.RawConcat

namespace Pybes3Verif.Gen.RawPy
open Pybes3Verif.Raw Pybes3Verif.RawFile Pybes3Verif.RawReader

variable {β ε : Type}

/-- `_read()` = `int.from_bytes(self._file.read(4), "little")` at byte `pos` is the model's `wordAt` -/
theorem readWordPy_eq (file : List Nat) (pos : Nat) : readWordPy file pos = wordAt file pos := rfl

/-- `_read` reads 4 bytes little-endian, `_skip(n = 1)` moves by `4 * n` -/
theorem read_skip_units : wordBytes = 4 ∧ littleEndian = true ∧ skipUnit = 4 ∧ skipDefault = 1 := by decide

/-- the members of `BesFlag` the Python framing compares against are the model's constants -/
theorem flags_agree :
    flag_FILE_START = FILE_START ∧ flag_FILE_NAME = FILE_NAME ∧ flag_RUN_PARAMS = RUN_PARAMS ∧
    flag_FILE_TAIL_START = FILE_TAIL_START ∧ flag_FILE_END = FILE_END ∧ flag_DATA_SEPERATOR = DATA_SEPERATOR ∧
    flag_FULL_EVENT_FRAGMENT = FULL_EVENT := by decide

/-- the cursor program of `_preprocess_file` (symbolically executed from the source) is the model's `preprocess`, on every byte
string -/
theorem preprocessPy_eq (file : List Nat) : preprocessPy file = preprocess file := rfl

/-- one iteration of the loop body of `_read_batch` is one unfolding of the model's block walk: a failed assertion fails the walk,
the `break` (position `≥ data_end`, asserted `= data_end`) ends it, a consumed block contributes its byte range `(pos, pos')` -/
theorem blockRanges_step (file : List Nat) (dataEnd fuel pos : Nat) :
    blockRanges file dataEnd (fuel + 1) pos =
      match readBlockStepPy file dataEnd pos with
      | none => none
      | some none => some []
      | some (some pos') => (blockRanges file dataEnd fuel pos').map ((pos, pos') :: ·) := by
  simp only [blockRanges, readBlockStepPy, readWordPy_eq, DATA_SEPERATOR, ge_iff_le, Nat.mul_comm 4]
  by_cases h1 : dataEnd ≤ pos
  · by_cases h2 : pos = dataEnd
    · simp only [if_pos h1, if_pos h2]
    · simp only [if_pos h1, if_neg h2]
  · by_cases h3 : wordAt file pos = 0x1234CCCC
    · simp only [if_neg h1, h3, ne_eq, not_true_eq_false, if_false]
      cases blockRanges file dataEnd fuel (pos + 16 + wordAt file (pos + 12) / 4 * 4) <;> rfl
    · simp only [if_neg h1, ne_eq, h3, not_false_eq_true, if_true]

/-- the step moves the cursor by the four header words of the block plus `block_size // 4` words -/
theorem readBlockStepPy_consumes (file : List Nat) (dataEnd pos pos' : Nat) (h : readBlockStepPy file dataEnd pos = some (some pos')) :
    pos < dataEnd ∧ wordAt file pos = DATA_SEPERATOR ∧ pos' = pos + 16 + wordAt file (pos + 12) / 4 * 4 := by
  simp only [readBlockStepPy, readWordPy_eq, ge_iff_le, Nat.mul_comm 4] at h
  split at h
  · split at h <;> cases h
  · split at h
    · cases h
    · cases h
      refine ⟨by omega, ?_, rfl⟩
      rename_i _ hf
      exact Decidable.of_not_not hf

/-- the `for _ in range(n)` loop of `_read_batch`, started where the model's walk finds the block ranges `rs`: it consumes exactly
`min n rs.length` blocks (the counter goes up by that much), fails no assertion, and leaves the cursor where the walk of the
remaining ranges `rs.drop (min n rs.length)` starts -/
theorem readBatchPy_of_blockRanges (file : List Nat) (dataEnd : Nat) :
    ∀ (n fuel pos c : Nat) (rs : List (Nat × Nat)), blockRanges file dataEnd fuel pos = some rs →
      ∃ posEnd, readBatchPy file dataEnd n pos c = some (posEnd, c + min n rs.length) ∧
        blockRanges file dataEnd (fuel - min n rs.length) posEnd = some (rs.drop (min n rs.length))
  | 0, fuel, pos, c, rs, h => ⟨pos, by simp only [readBatchPy, Nat.zero_min, Nat.add_zero], by simpa using h⟩
  | n + 1, 0, pos, c, rs, h => by simp [blockRanges] at h
  | n + 1, fuel + 1, pos, c, rs, h => by
    rw [blockRanges_step] at h
    unfold readBatchPy
    cases hs : readBlockStepPy file dataEnd pos with
    | none => rw [hs] at h; cases h
    | some o =>
      rw [hs] at h
      cases o with
      | none =>
        cases h
        exact ⟨pos, by simp, by simp [blockRanges_step, hs]⟩
      | some pos' =>
        simp only [Option.map_eq_some_iff] at h
        obtain ⟨rest, hrest, rfl⟩ := h
        obtain ⟨posEnd, h1, h2⟩ := readBatchPy_of_blockRanges file dataEnd n fuel pos' (c + 1) rest hrest
        refine ⟨posEnd, ?_, ?_⟩
        · simp only [h1, List.length_cons, Nat.succ_min_succ]
          congr 2; omega
        · simp only [List.length_cons, Nat.succ_min_succ, List.drop_succ_cons]
          rw [show fuel + 1 - (min n rest.length + 1) = fuel - min n rest.length by omega]
          exact h2

/-- `fileBlocks` through the translated code: the translated `_preprocess_file`, then the walk that iterates the translated loop
body of `_read_batch` -/
theorem fileBlocks_eq_py (file : List Nat) :
    fileBlocks file =
      match preprocessPy file with
      | none => none
      | some lay =>
        match blockRanges file lay.dataEnd (file.length + 1) lay.dataStart with
        | none => none
        | some rs => some (rs.map (fun r => wordsOf file r.1 r.2)) := rfl

/-- the `while` loop of `arrays` (translated statement by statement, under `n_blocks == -1` and under `n_blocks ≥ 0`) is the model's
`submitLoop`, for all arguments -/
theorem submitLoopPy_eq (perBatch : Nat) (nBlocks : Option Nat) (fuel : Nat) (r : Reader β) (nRead : Nat) :
    submitLoopPy perBatch nBlocks fuel r nRead = submitLoop perBatch nBlocks fuel r nRead := by
  induction fuel generalizing r nRead with
  | zero => rfl
  | succ k ih =>
    cases nBlocks <;>
      simp only [submitLoopPy, submitLoop, ih, Bool.false_or, Bool.true_and, Bool.false_and, Bool.or_false, decide_eq_true_eq] <;> rfl

/-- `arrays` (cursor reset, loop from zero blocks read, empty batch when nothing was submitted, gather in submission order) is the
model's `arrays` -/
theorem arraysPy_eq (decode : List β → List ε) (perBatch : Nat) (nBlocks : Option Nat) (sched : List Nat) (fuel : Nat) (r : Reader β) :
    arraysPy decode perBatch nBlocks sched fuel r = RawReader.arrays decode perBatch nBlocks sched fuel r := by
  simp only [arraysPy, RawReader.arrays, submitLoopPy_eq]
  cases submitLoop perBatch nBlocks fuel { r with cursor := 0 } 0 with
  | none => rfl
  | some p =>
    obtain ⟨bs, r1⟩ := p
    cases bs <;> rfl

/-- `_is_raw` is the model's filter predicate -/
theorem isRawPy_eq (file : List Nat) : isRawPy file = (wordAt file 0 == FILE_START) := rfl

/-- the two spellings of "no file left is an error, else read every file and flatten" agree -/
private theorem concat_aux {α γ : Type} (g : α → Option (List γ)) (raws : List α) :
    (if raws.length = 0 then none else (raws.mapM (fun f => g f)).map List.flatten) =
      (if raws.isEmpty then none else (raws.mapM g).map List.flatten) := by
  cases raws <;> rfl

/-- `concatenate` on an explicit list of files is the model's `concatModel` -/
theorem concatPy_eq (sel : List Nat) (perBatch : Nat) (sched : List Nat) (files : List (List Nat)) :
    concatPy sel perBatch sched files = concatModel sel perBatch sched files :=
  concat_aux (arraysModel sel perBatch none sched) (files.filter (fun f => wordAt f 0 == FILE_START))

/-- what the translator verified about `_read_batch` around its loop: the batch is the uint32 view of the contiguous byte range
`[pos_start, pos_end)` and the cursor is left at `pos_end` -/
theorem read_batch_wiring : batchIsContiguousRange = true ∧ batchDtypeUint32 = true ∧ cursorAfterBatchAtPosEnd = true := by decide

/-- what the translator verified about `arrays` and `concatenate`: `_reset_cursor()` (= `seek(data_start)`) comes first; the futures
are gathered in list (= submission) order; an empty batch is decoded when nothing was read; every argument of
`reader.arrays(-1, …)` arrives in the parameter of the same name; the files are taken, filtered and concatenated in list order -/
theorem arrays_wiring :
    resetsCursorFirst = true ∧ gatherInSubmissionOrder = true ∧ emptyBatchWhenNothingRead = true ∧ concatArgsAligned = true ∧
    concatInListOrder = true := by decide

/-! ### `_raw_dict_to_ak` -/

/-- `zip(d.keys(), d.values())` is the list of the dict's items -/
private theorem zip_fst_snd {α β : Type} (l : List (α × β)) : (l.map Prod.fst).zip (l.map Prod.snd) = l := by
  induction l with
  | nil => rfl
  | cons a t ih => simp only [List.map_cons, List.zip_cons_cons, ih]

/-- the names tested by `field_name in {…}` are exactly the four digi detectors -/
theorem record_detectors : recordDetectors = ["emc", "mdc", "muc", "tof"] := rfl

/-- `evt_header`: a record of one column per header field, names and order those of the dict -/
theorem convertEntryPy_header (cols : List (String × List Nat)) :
    convertEntryPy "evt_header" (.dict cols) = some (.record cols) := by
  simp [convertEntryPy, zip_fst_snd]

/-- `mdc` / `tof` / `emc` / `muc`: a list of records; the column names and their order are those of the dict, the columns are the
dict's values, the offsets are passed through unchanged -/
theorem convertEntryPy_detector (name : String) (h : name ∈ ["mdc", "tof", "emc", "muc"]) (offsets : List Nat)
    (cols : List (String × List Nat)) :
    convertEntryPy name (.offsDict offsets cols) = some (.jaggedRecords offsets cols) := by
  simp only [List.mem_cons, List.mem_nil_iff, or_false] at h
  rcases h with rfl | rfl | rfl | rfl <;> simp [convertEntryPy, recordDetectors, zip_fst_snd]

/-- every other field: a list of words over the same offsets and data -/
theorem convertEntryPy_other (name : String) (h1 : name ≠ "evt_header") (h2 : name ∉ ["mdc", "tof", "emc", "muc"])
    (offsets data : List Nat) :
    convertEntryPy name (.offsData offsets data) = some (.jaggedWords offsets data) := by
  simp only [List.mem_cons, List.mem_nil_iff, or_false, not_or] at h2
  simp [convertEntryPy, recordDetectors, h1, h2]

/-- complete characterisation of the chain: whenever a layout is built it is one of the three above, selected by the field name only
(pinned to the four detector names); offsets, column names, column order and data are never altered -/
theorem convertEntryPy_some (name : String) (v : RawVal) (col : AkCol) (h : convertEntryPy name v = some col) :
    (name = "evt_header" ∧ ∃ c, v = .dict c ∧ col = .record c) ∨
    (name ∈ ["mdc", "tof", "emc", "muc"] ∧ ∃ o c, v = .offsDict o c ∧ col = .jaggedRecords o c) ∨
    (name ≠ "evt_header" ∧ name ∉ ["mdc", "tof", "emc", "muc"] ∧ ∃ o d, v = .offsData o d ∧ col = .jaggedWords o d) := by
  by_cases h1 : name = "evt_header"
  · subst h1
    cases v with
    | dict c => rw [convertEntryPy_header] at h; cases h; exact Or.inl ⟨rfl, c, rfl, rfl⟩
    | offsDict o c => simp [convertEntryPy] at h
    | offsData o d => simp [convertEntryPy] at h
  · by_cases h2 : name ∈ ["mdc", "tof", "emc", "muc"]
    · cases v with
      | offsDict o c => rw [convertEntryPy_detector name h2] at h; cases h; exact Or.inr (Or.inl ⟨h2, o, c, rfl, rfl⟩)
      | dict c =>
        simp only [List.mem_cons, List.mem_nil_iff, or_false] at h2
        rcases h2 with rfl | rfl | rfl | rfl <;> simp [convertEntryPy, recordDetectors] at h
      | offsData o d =>
        simp only [List.mem_cons, List.mem_nil_iff, or_false] at h2
        rcases h2 with rfl | rfl | rfl | rfl <;> simp [convertEntryPy, recordDetectors] at h
    · cases v with
      | offsData o d => rw [convertEntryPy_other name h1 h2] at h; cases h; exact Or.inr (Or.inr ⟨h1, h2, o, d, rfl, rfl⟩)
      | dict c =>
        have h2' := h2
        simp only [List.mem_cons, List.mem_nil_iff, or_false, not_or] at h2'
        simp [convertEntryPy, recordDetectors, h1, h2'] at h
      | offsDict o c =>
        have h2' := h2
        simp only [List.mem_cons, List.mem_nil_iff, or_false, not_or] at h2'
        simp [convertEntryPy, recordDetectors, h1, h2'] at h

/-- a jagged field has `len(offsets) - 1` events -/
theorem eventsOf_length_jagged (offsets : List Nat) (cols : List (String × List Nat)) (data : List Nat) :
    (eventsOf (.jaggedRecords offsets cols)).length = offsets.length - 1 ∧
    (eventsOf (.jaggedWords offsets data)).length = offsets.length - 1 := by
  simp [eventsOf]

/-- assigning a key that is not yet in the dict appends it -/
private theorem dictSetPy_fresh {α : Type} (d : List (String × α)) (k : String) (v : α) (h : k ∉ d.map Prod.fst) :
    dictSetPy d k v = d ++ [(k, v)] := by
  have hany : d.any (fun p => p.1 == k) = false := by
    rw [List.any_eq_false]
    intro p hp heq
    exact h (List.mem_map.mpr ⟨p, hp, by simpa using heq⟩)
  simp only [dictSetPy, hany, Bool.false_eq_true, if_false]

/-- the loop from any accumulator whose keys are disjoint from the (distinct) remaining keys -/
private theorem loop_gen : ∀ (d : List (String × RawVal)) (acc : List (String × AkCol)),
    (d.map Prod.fst).Nodup → (∀ k ∈ d.map Prod.fst, k ∉ acc.map Prod.fst) →
    d.foldlM (fun contents (field_name, org_data) =>
        (convertEntryPy field_name org_data).map (fun col => dictSetPy contents field_name col)) acc
      = (d.mapM (fun p => (convertEntryPy p.1 p.2).map (fun c => (p.1, c)))).map (acc ++ ·)
  | [], acc, _, _ => by simp
  | (k, v) :: t, acc, hnd, hfresh => by
    rw [List.map_cons, List.nodup_cons] at hnd
    have hk : k ∉ acc.map Prod.fst := hfresh k (by simp)
    simp only [List.foldlM_cons, List.mapM_cons]
    cases hc : convertEntryPy k v with
    | none => simp
    | some col =>
      simp only [Option.map_some, Option.bind_eq_bind, Option.bind_some, dictSetPy_fresh acc k col hk]
      rw [loop_gen t (acc ++ [(k, col)]) hnd.2 (by
        intro k' hk' hmem
        rw [List.map_append, List.mem_append] at hmem
        rcases hmem with hmem | hmem
        · exact hfresh k' (by simp [hk']) hmem
        · simp only [List.map_cons, List.map_nil, List.mem_singleton] at hmem
          exact hnd.1 (hmem ▸ hk'))]
      cases List.mapM (fun p => Option.map (fun c => (p.1, c)) (convertEntryPy p.1 p.2)) t <;> simp

/-- on a dict (distinct keys) the loop of `_raw_dict_to_ak` converts the entries one by one, in the order of the dict, and fails iff some
entry fails -/
theorem rawDictToAkPy_eq_mapM (d : List (String × RawVal)) (hd : (d.map Prod.fst).Nodup) :
    rawDictToAkPy d = d.mapM (fun p => (convertEntryPy p.1 p.2).map (fun c => (p.1, c))) := by
  unfold rawDictToAkPy
  rw [loop_gen d [] hd (by simp)]
  cases List.mapM (fun p => Option.map (fun c => (p.1, c)) (convertEntryPy p.1 p.2)) d <;> simp

/-- keys and entries of an entry-by-entry conversion -/
private theorem mapM_keys : ∀ (d : List (String × RawVal)) (out : List (String × AkCol)),
    d.mapM (fun p => (convertEntryPy p.1 p.2).map (fun c => (p.1, c))) = some out →
    out.map Prod.fst = d.map Prod.fst ∧ ∀ k v, (k, v) ∈ d → ∃ col, convertEntryPy k v = some col ∧ (k, col) ∈ out
  | [], out, h => by simp at h; subst h; simp
  | (k, v) :: t, out, h => by
    simp only [List.mapM_cons] at h
    cases hc : convertEntryPy k v with
    | none => simp [hc] at h
    | some col =>
      cases ht : List.mapM (fun p => Option.map (fun c => (p.1, c)) (convertEntryPy p.1 p.2)) t with
      | none => simp [hc, ht] at h
      | some rest =>
        simp [hc, ht] at h
        subst h
        obtain ⟨h1, h2⟩ := mapM_keys t rest ht
        refine ⟨by simp [h1], ?_⟩
        intro k' v' hmem
        rcases List.mem_cons.mp hmem with heq | hmem
        · cases heq; exact ⟨col, hc, by simp⟩
        · obtain ⟨c, hc', hin⟩ := h2 k' v' hmem
          exact ⟨c, hc', List.mem_cons_of_mem _ hin⟩

/-- the fields of the result are the keys of `raw_dict`, in the order of `raw_dict` -/
theorem rawDictToAkPy_keys (d : List (String × RawVal)) (out : List (String × AkCol)) (hd : (d.map Prod.fst).Nodup)
    (h : rawDictToAkPy d = some out) : out.map Prod.fst = d.map Prod.fst :=
  (mapM_keys d out (rawDictToAkPy_eq_mapM d hd ▸ h)).1

/-- nothing is dropped or duplicated: as many fields as keys, every key of `raw_dict` exactly once, nothing else -/
theorem rawDictToAkPy_once (d : List (String × RawVal)) (out : List (String × AkCol)) (hd : (d.map Prod.fst).Nodup)
    (h : rawDictToAkPy d = some out) :
    out.length = d.length ∧ ∀ k, (out.map Prod.fst).count k = if k ∈ d.map Prod.fst then 1 else 0 := by
  have hk := rawDictToAkPy_keys d out hd h
  refine ⟨by simpa using congrArg List.length hk, fun k => ?_⟩
  rw [hk]
  have h1 := List.nodup_iff_count.mp hd k
  have h2 := @List.count_pos_iff _ _ _ k (d.map Prod.fst)
  split
  · rename_i hm; have := h2.mpr hm; omega
  · rename_i hm; have : ¬ 0 < List.count k (d.map Prod.fst) := fun hp => hm (h2.mp hp); omega

/-- every entry of `raw_dict` is in the result under its own key, converted by the chain -/
theorem rawDictToAkPy_entries (d : List (String × RawVal)) (out : List (String × AkCol)) (hd : (d.map Prod.fst).Nodup)
    (h : rawDictToAkPy d = some out) (k : String) (v : RawVal) (hm : (k, v) ∈ d) :
    ∃ col, convertEntryPy k v = some col ∧ (k, col) ∈ out :=
  (mapM_keys d out (rawDictToAkPy_eq_mapM d hd ▸ h)).2 k v hm

/-- for a record detector present in `raw_dict` the result holds, under the same key, the list of records with the dict's column names
in the dict's order and the unchanged offsets -/
theorem rawDictToAkPy_detector (d : List (String × RawVal)) (out : List (String × AkCol)) (hd : (d.map Prod.fst).Nodup)
    (h : rawDictToAkPy d = some out) (name : String) (hn : name ∈ ["mdc", "tof", "emc", "muc"]) (offsets : List Nat)
    (cols : List (String × List Nat)) (hm : (name, RawVal.offsDict offsets cols) ∈ d) :
    (name, AkCol.jaggedRecords offsets cols) ∈ out := by
  obtain ⟨col, hc, hin⟩ := rawDictToAkPy_entries d out hd h name _ hm
  rw [convertEntryPy_detector name hn] at hc
  cases hc
  exact hin

/-- the number of events of every jagged field of the result is `len(offsets) - 1` of the offsets the parser delivered for it -/
theorem rawDictToAkPy_num_events (d : List (String × RawVal)) (out : List (String × AkCol)) (hd : (d.map Prod.fst).Nodup)
    (h : rawDictToAkPy d = some out) (k : String) (v : RawVal) (hm : (k, v) ∈ d) (offsets : List Nat)
    (ho : (∃ c, v = .offsDict offsets c) ∨ (∃ dd, v = .offsData offsets dd)) :
    ∃ col, (k, col) ∈ out ∧ (eventsOf col).length = offsets.length - 1 := by
  obtain ⟨col, hc, hin⟩ := rawDictToAkPy_entries d out hd h k v hm
  refine ⟨col, hin, ?_⟩
  rcases convertEntryPy_some k v col hc with ⟨_, c, hv, _⟩ | ⟨_, o, c, hv, hcol⟩ | ⟨_, _, o, dd, hv, hcol⟩
  · rcases ho with ⟨c', h'⟩ | ⟨d', h'⟩ <;> rw [hv] at h' <;> cases h'
  · rcases ho with ⟨c', h'⟩ | ⟨d', h'⟩ <;> rw [hv] at h' <;> cases h'
    rw [hcol]; exact (eventsOf_length_jagged _ c []).1
  · rcases ho with ⟨c', h'⟩ | ⟨d', h'⟩ <;> rw [hv] at h' <;> cases h'
    rw [hcol]; exact (eventsOf_length_jagged _ [] dd).2

/-- what the translator verified about the gather loop of `arrays`: `_raw_dict_to_ak` is applied to every gathered batch after the
optional `convert_reid_to_teid`, and the per-batch arrays are concatenated by `ak.concatenate(res)` in list (= submission) order -/
theorem gather_wiring :
    rawDictToAkAfterReid = true ∧ batchArraysConcatenatedInListOrder = true ∧ gatherInSubmissionOrder = true := by decide

/-- non-vacuity: a header, one record detector and one word field go through, keys in order; a detector whose value is not
`(offsets, dict)` raises -/
example : rawDictToAkPy [("evt_header", .dict [("run", [1, 1])]), ("muc", .offsDict [0, 1, 3] [("id", [7, 8, 9]), ("fec", [1, 2, 3])]),
      ("trg", .offsData [0, 2, 2] [5, 6])] =
    some [("evt_header", .record [("run", [1, 1])]), ("muc", .jaggedRecords [0, 1, 3] [("id", [7, 8, 9]), ("fec", [1, 2, 3])]),
      ("trg", .jaggedWords [0, 2, 2] [5, 6])] ∧
    rawDictToAkPy [("muc", .offsData [0] [])] = none ∧
    eventsOf (.jaggedWords [0, 2, 2] [5, 6]) = [[("", [5, 6])], [("", [])]] := by decide

/-- non-vacuity: a block of two payload words at position 0 of a 24-byte data region is consumed by one step, the next step breaks -/
example : readBlockStepPy ([0xCC, 0xCC, 0x34, 0x12] ++ List.replicate 8 0 ++ [8, 0, 0, 0] ++ List.replicate 8 7) 24 0 = some (some 24) ∧
    readBlockStepPy ([0xCC, 0xCC, 0x34, 0x12] ++ List.replicate 8 0 ++ [8, 0, 0, 0] ++ List.replicate 8 7) 24 24 = some none ∧
    readBatchPy ([0xCC, 0xCC, 0x34, 0x12] ++ List.replicate 8 0 ++ [8, 0, 0, 0] ++ List.replicate 8 7) 24 5 0 0 = some (24, 1) := by decide

end Pybes3Verif.Gen.RawPy
