// Minimal stand-in for pybind11 (absent from this sandbox) so that the extension sources of the
// working tree (raw_io.cc, raw_io.hh, root_io.hh) compile natively under sanitizers.
// array_t owns a std::vector (exact-size heap block => ASan sees every out-of-range access),
// dict / tuple are ordered containers, GIL guards and registration templates are inert.
#pragma once
#include <cstdint>
#include <cstddef>
#include <cstring>
#include <functional>
#include <map>
#include <memory>
#include <string>
#include <vector>
#include <stdexcept>
#include <typeinfo>
namespace pybind11 {
struct buffer_info { void* ptr; std::ptrdiff_t size; };
struct object_base { virtual ~object_base() = default; };
struct object { std::shared_ptr<object_base> p; };
struct arr_base : object_base { virtual const char* tname() const = 0; virtual size_t n() const = 0; virtual double at(size_t i) const = 0; virtual unsigned long long bits(size_t i) const = 0; virtual bool is_float() const = 0; };
template <typename T> struct arr_impl : arr_base {
    std::vector<T> v;
    const char* tname() const override { return typeid(T).name(); }
    size_t n() const override { return v.size(); }
    double at(size_t i) const override { return (double)v[i]; }
    bool is_float() const override { return std::is_floating_point<T>::value; }
    unsigned long long bits(size_t i) const override {
        if (std::is_floating_point<T>::value) { double d = (double)v[i]; unsigned long long b; std::memcpy(&b, &d, 8); return b; }
        return (unsigned long long)(long long)v[i];
    }
};
struct capsule { template <typename F> capsule(void* p, F f) { f(p); } capsule() {} };
template <typename T>
struct array_t : object {
    array_t() { p = std::make_shared<arr_impl<T>>(); }
    array_t(size_t n, const T* data) { auto a = std::make_shared<arr_impl<T>>(); if (n) a->v.assign(data, data + n); p = a; }
    array_t(size_t n, const T* data, capsule) : array_t(n, data) {}
    explicit array_t(std::vector<T> vec) { auto a = std::make_shared<arr_impl<T>>(); a->v = std::move(vec); p = a; }
    std::vector<T>& vec() const { return static_cast<arr_impl<T>*>(p.get())->v; }
    buffer_info request() const { return { (void*)vec().data(), (std::ptrdiff_t)vec().size() }; }
    std::ptrdiff_t size() const { return (std::ptrdiff_t)vec().size(); }
};
struct tuple_impl : object_base { std::vector<object> items; };
struct tuple : object {};
template <typename... A> tuple make_tuple(A&&... a) { auto t = std::make_shared<tuple_impl>(); (t->items.push_back(a), ...); tuple r; r.p = t; return r; }
struct dict_impl : object_base { std::vector<std::pair<std::string, object>> items; };
struct dict : object {
    dict() { p = std::make_shared<dict_impl>(); }
    struct proxy { dict_impl* d; std::string k; template <typename V> proxy& operator=(const V& v) { for (auto& it : d->items) if (it.first == k) { it.second = v; return *this; } d->items.push_back({k, v}); return *this; } };
    proxy operator[](const char* k) { return { static_cast<dict_impl*>(p.get()), k }; }
    dict_impl* impl() const { return static_cast<dict_impl*>(p.get()); }
};
struct gil_scoped_release {}; struct gil_scoped_acquire {};
struct module_ { static module_ import(const char*) { return {}; } template <typename... A> module_& def(A&&...) { return *this; } };
using module = module_;
template <typename... T> struct class_ { template <typename... A> class_(A&&...) {} template <typename... A> class_& def(A&&...) { return *this; } };
template <typename... A> struct init_t {};
template <typename... A> init_t<A...> init() { return {}; }
template <typename F> int init(F) { return 0; }
struct arg { const char* n; arg(const char* s) : n(s) {} template <typename T> arg& operator=(T&&) { return *this; } };
}
