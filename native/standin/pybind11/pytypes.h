#include "pybind11.h"
