// Native build of the working tree's raw_io.cc behind the pybind11 stand-in.
//  * as a shared library: C ABI `raw_parse` used through ctypes to back pybes3.besio.raw_io.read_bes_raw
//  * as an executable (RAW_DRIVER_MAIN): line protocol over many buffers, see main() below
#include "raw_io.cc"
#include <cstdio>
#include <iostream>
#include <sstream>

static const char* SEL_NAMES[6] = {"mdc", "tof", "emc", "muc", "trg", "ef"};

static void dump_array(std::ostringstream& os, const pybind11::object& o) {
    auto* a = dynamic_cast<pybind11::arr_base*>(o.p.get());
    os << "[";
    for (size_t i = 0; i < a->n(); i++) { if (i) os << ","; os << a->bits(i); }
    os << "]";
}

static std::string dump_result(const pybind11::dict& res) {
    std::ostringstream os;
    os << "{";
    bool first = true;
    for (auto& it : res.impl()->items) {
        if (!first) os << ","; first = false;
        os << "\"" << it.first << "\":";
        if (auto* d = dynamic_cast<pybind11::dict_impl*>(it.second.p.get())) {       // evt_header
            os << "{"; bool f2 = true;
            for (auto& kv : d->items) { if (!f2) os << ","; f2 = false; os << "\"" << kv.first << "\":"; dump_array(os, kv.second); }
            os << "}";
        } else if (auto* t = dynamic_cast<pybind11::tuple_impl*>(it.second.p.get())) {  // (offsets, data)
            os << "{\"offsets\":"; dump_array(os, t->items[0]); os << ",\"data\":";
            if (auto* d2 = dynamic_cast<pybind11::dict_impl*>(t->items[1].p.get())) {
                os << "{"; bool f2 = true;
                for (auto& kv : d2->items) { if (!f2) os << ","; f2 = false; os << "\"" << kv.first << "\":"; dump_array(os, kv.second); }
                os << "}";
            } else dump_array(os, t->items[1]);
            os << "}";
        }
    }
    os << "}";
    return os.str();
}

static std::string run_one(const uint32_t* data, size_t n, int sel_mask) {
    std::vector<std::string> sel;
    for (int i = 0; i < 6; i++) if (sel_mask & (1 << i)) sel.push_back(SEL_NAMES[i]);
    try {
        pybind11::array_t<uint32_t> arr(n, data);      // exact-size private copy
        pybind11::dict res = py_read_bes_raw(arr, sel);
        return "OK " + dump_result(res);
    } catch (const std::exception& e) {
        std::string w = e.what();
        for (auto& c : w) if (c == '\n') c = ' ';
        return "ERROR " + w;
    }
}

extern "C" {
// returns a malloc'd zero-terminated string ("OK {json}" or "ERROR what"); caller frees with raw_free
char* raw_parse(const uint32_t* data, size_t n, int sel_mask) {
    std::string s = run_one(data, n, sel_mask);
    char* out = (char*)malloc(s.size() + 1);
    std::memcpy(out, s.c_str(), s.size() + 1);
    return out;
}
void raw_free(char* p) { free(p); }
}

#ifdef RAW_DRIVER_MAIN
// stdin (binary): repeated records  [uint32 n_words][uint32 sel_mask][n_words x uint32]
// stdout: "BEGIN <i>\n" before and one result line after each record; argv[1] = index of first record to run
int main(int argc, char** argv) {
    size_t start = argc > 1 ? strtoull(argv[1], nullptr, 10) : 0;
    bool quiet = argc > 2;
    size_t i = 0;
    while (true) {
        uint32_t hdr[2];
        if (fread(hdr, 4, 2, stdin) != 2) break;
        std::vector<uint32_t> buf(hdr[0]);
        if (hdr[0] && fread(buf.data(), 4, hdr[0], stdin) != hdr[0]) break;
        if (i >= start) {
            printf("BEGIN %zu\n", i); fflush(stdout);
            std::string r = run_one(buf.data(), buf.size(), (int)hdr[1]);
            if (quiet && r.rfind("OK", 0) == 0) { unsigned long long h = 1469598103934665603ULL; for (char c : r) { h ^= (unsigned char)c; h *= 1099511628211ULL; } printf("OK #%llx\n", h); }
            else printf("%s\n", r.c_str());
            fflush(stdout);
        }
        i++;
    }
    printf("END\n");
    return 0;
}
#endif

#ifdef RAW_TSAN_MAIN
// stdin: the same record format as the driver; every record is one batch. argv[1] = rounds. All batches are decoded sequentially
// (reference), then `rounds` times concurrently, one thread per batch; exit 1 when a concurrent result differs.
#include <thread>
int main(int argc, char** argv) {
    int rounds = argc > 1 ? atoi(argv[1]) : 4;
    std::vector<std::vector<uint32_t>> bufs;
    std::vector<int> masks;
    while (true) {
        uint32_t hdr[2];
        if (fread(hdr, 4, 2, stdin) != 2) break;
        std::vector<uint32_t> buf(hdr[0]);
        if (hdr[0] && fread(buf.data(), 4, hdr[0], stdin) != hdr[0]) break;
        bufs.push_back(buf); masks.push_back((int)hdr[1]);
    }
    std::vector<std::string> ref(bufs.size());
    for (size_t i = 0; i < bufs.size(); i++) ref[i] = run_one(bufs[i].data(), bufs[i].size(), masks[i]);
    int bad = 0;
    for (int r = 0; r < rounds; r++) {
        std::vector<std::string> got(bufs.size());
        std::vector<std::thread> ths;
        for (size_t i = 0; i < bufs.size(); i++) ths.emplace_back([&, i] { got[i] = run_one(bufs[i].data(), bufs[i].size(), masks[i]); });
        for (auto& t : ths) t.join();
        for (size_t i = 0; i < bufs.size(); i++) if (got[i] != ref[i]) { printf("MISMATCH round %d batch %zu\n", r, i); bad = 1; }
    }
    printf(bad ? "DIFFER\n" : "EQUAL\n");
    return bad;
}
#endif
