// Native build of the working tree's root_io.hh (+ the installed third-party uproot-custom.hh) behind the
// pybind11 stand-in.  Line protocol on stdin, one request per line (all numbers decimal, bytes as hex):
//   SYM <flat> <dim> <n_objects> <hex bytes: n_objects * flat big-endian doubles>
//        -> "OK <n*dim*dim u64 bit patterns>" | "ERROR <what>"            (Bes3SymMatrixArrayReader<double>)
//   TOA <kind-spec> <n_entries> <entry byte lengths...> <hex bytes>
//        -> "OK offsets=<...> values=<leaf bit patterns in reading order>" | "ERROR <what>"   (Bes3TObjArrayReader)
//   CGEM <n_entries> <entry byte lengths...> <hex bytes>
//        -> "OK offsets=... <member>=..."                                                     (Bes3CgemClusterColReader)
// kind-spec (element class, prefix notation without spaces): b=i8/bool h=i16 i=i32 l=i64 f=f32 d=f64 T=TObject
//   A<n>(<kind>) fixed array, C(<kinds>) class with its own fNBytes+fVersion header
#include "root_io.hh"
#include <cstdio>
#include <iostream>
#include <sstream>
#include <string>

using namespace uproot;

// ---- minimal element readers (the stock uproot-custom readers exist only as a binary) ----
struct Leaf : IReader {
    int size; std::vector<unsigned long long>* out;
    Leaf( int s, std::vector<unsigned long long>* o ) : IReader( "leaf" ), size( s ), out( o ) {}
    void read( BinaryBuffer& b ) override {
        switch ( size ) {
        case 1: out->push_back( b.read<uint8_t>() ); break;
        case 2: out->push_back( b.read<uint16_t>() ); break;
        case 4: out->push_back( b.read<uint32_t>() ); break;
        default: out->push_back( b.read<uint64_t>() ); break;
        }
    }
    py::object data() const override { return py::object(); }
};
struct TObj : IReader {
    TObj() : IReader( "TObject" ) {}
    void read( BinaryBuffer& b ) override { b.skip_TObject(); }
    py::object data() const override { return py::object(); }
};
struct Arr : IReader {
    int n; SharedReader e;
    Arr( int n_, SharedReader e_ ) : IReader( "arr" ), n( n_ ), e( e_ ) {}
    void read( BinaryBuffer& b ) override { for ( int i = 0; i < n; i++ ) e->read( b ); }
    py::object data() const override { return py::object(); }
};
struct Cls : IReader {   // AnyClassReader: fNBytes, fVersion, members, byte count must match
    std::vector<SharedReader> ms;
    Cls() : IReader( "cls" ) {}
    void read( BinaryBuffer& b ) override {
        auto nb = b.read_fNBytes();
        auto start = b.get_cursor();
        b.skip_fVersion();
        for ( auto& m : ms ) m->read( b );
        if ( b.get_cursor() != start + nb ) throw std::runtime_error( "AnyClassReader: Invalid read length" );
    }
    py::object data() const override { return py::object(); }
};

static SharedReader parse_kind( const std::string& s, size_t& p, std::vector<unsigned long long>* out ) {
    char c = s.at( p++ );
    switch ( c ) {
    case 'b': return std::make_shared<Leaf>( 1, out );
    case 'h': return std::make_shared<Leaf>( 2, out );
    case 'i': case 'f': return std::make_shared<Leaf>( 4, out );
    case 'l': case 'd': return std::make_shared<Leaf>( 8, out );
    case 'T': return std::make_shared<TObj>();
    case 'A': { size_t q = p; while ( isdigit( s.at( q ) ) ) q++; int n = std::stoi( s.substr( p, q - p ) ); p = q + 1; auto e = parse_kind( s, p, out ); p++; return std::make_shared<Arr>( n, e ); }
    case 'C': { auto c2 = std::make_shared<Cls>(); p++; while ( s.at( p ) != ')' ) c2->ms.push_back( parse_kind( s, p, out ) ); p++; return c2; }
    default: throw std::runtime_error( "bad kind spec" );
    }
}

// the third-party BinaryBuffer does no bounds checking (not C01's subject): a mis-framed or truncated stream may read
// past its entry before the per-entry length check fires, so every buffer gets zero padding behind the payload
static const size_t PAD = 1 << 16;
static std::vector<uint8_t> unhex( const std::string& h ) {
    std::vector<uint8_t> v( h.size() / 2 + PAD, 0 );
    for ( size_t i = 0; i < h.size() / 2; i++ ) v[i] = (uint8_t)std::stoi( h.substr( 2 * i, 2 ), nullptr, 16 );
    return v;
}

template <typename T> static void dump( std::ostringstream& os, const char* name, const py::object& o ) {
    auto* a = dynamic_cast<py::arr_base*>( o.p.get() );
    os << " " << name << "=";
    for ( size_t i = 0; i < a->n(); i++ ) { if ( i ) os << ","; os << a->bits( i ); }
}

// drive a reader over entries exactly like uproot_custom's read_data: one read per entry, cursor must land on the offset
static void read_entries( IReader& r, const std::vector<uint8_t>& bytes, const std::vector<uint32_t>& offs ) {
    py::array_t<uint8_t> data( bytes.size(), bytes.data() );
    py::array_t<uint32_t> offsets( offs.size(), offs.data() );
    BinaryBuffer buf( data, offsets );
    const uint8_t* base = buf.get_cursor();
    for ( size_t i = 0; i + 1 < offs.size(); i++ ) {
        r.read( buf );
        if ( buf.get_cursor() != base + offs[i + 1] ) throw std::runtime_error( "read_data: Invalid read length at entry " + std::to_string( i ) );
    }
}

int main() {
    std::string line;
    while ( std::getline( std::cin, line ) ) {
        std::istringstream is( line );
        std::string cmd; is >> cmd;
        std::ostringstream os;
        try {
            if ( cmd == "SYM" ) {
                uint32_t flat, dim; int n; std::string hex;
                is >> flat >> dim >> n >> hex;
                Bes3SymMatrixArrayReader<double> r( "m", flat, dim );
                auto bytes = unhex( hex );
                std::vector<uint32_t> offs = { 0, (uint32_t)( bytes.size() - PAD ) };
                py::array_t<uint8_t> data( bytes.size(), bytes.data() );
                py::array_t<uint32_t> offsets( offs.size(), offs.data() );
                BinaryBuffer buf( data, offsets );
                for ( int k = 0; k < n; k++ ) r.read( buf );
                os << "OK"; dump<double>( os, "m", r.data() );
            } else if ( cmd == "TOA" || cmd == "CGEM" ) {
                std::string spec; if ( cmd == "TOA" ) is >> spec;
                int ne; is >> ne;
                std::vector<uint32_t> offs = { 0 };
                for ( int i = 0; i < ne; i++ ) { uint32_t l; is >> l; offs.push_back( offs.back() + l ); }
                std::string hex; is >> hex;
                auto bytes = unhex( hex );
                if ( cmd == "TOA" ) {
                    std::vector<unsigned long long> vals; size_t p = 0;
                    auto elem = parse_kind( spec, p, &vals );
                    Bes3TObjArrayReader r( "col", elem );
                    read_entries( r, bytes, offs );
                    auto dataobj = r.data();
                    auto* t = dynamic_cast<py::tuple_impl*>( dataobj.p.get() );
                    os << "OK"; dump<uint32_t>( os, "offsets", t->items[0] );
                    os << " values=";
                    for ( size_t i = 0; i < vals.size(); i++ ) { if ( i ) os << ","; os << vals[i]; }
                } else {
                    Bes3CgemClusterColReader r( "cgem" );
                    read_entries( r, bytes, offs );
                    auto res = r.data();
                    auto* d = dynamic_cast<py::dict_impl*>( res.p.get() );
                    os << "OK";
                    for ( auto& kv : d->items ) dump<double>( os, kv.first.c_str(), kv.second );
                }
            } else os << "ERROR bad command";
        } catch ( const std::exception& e ) { os.str( "" ); os << "ERROR " << e.what(); }
        std::cout << os.str() << std::endl;
    }
    return 0;
}
